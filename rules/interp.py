"""A small abstract interpreter over the exported HIR for *finite* questions: given concrete values for the few inputs a
decision depends on (an enum variant, a handful of booleans), evaluate the decision procedure written in the source —
`if`, `match` with nested patterns, `matches!`, let-chains, local closures, `&&`/`||`/`!`, Option adapters — and report
either the value or the ordered list of opaque effects (macro writes, calls) it performs.  Nothing of fselect is run: the
interpreter walks the syntax tree the compiler type-checked.  Whatever it cannot evaluate raises Undecided, and the rule
that asked must treat that as "shape not recognised".

Values: bool / int / str; enum values V(path, args); structs as dict; tuples as tuple; closures; OPAQUE for anything
unknown that is only passed around (never inspected)."""
import re

from hirq import render, render_pat, short


class Undecided(Exception):
    pass


class _InlReturn(Exception):
    def __init__(self, v):
        self.v = v


class _Return(Exception):
    def __init__(self, v):
        self.v = v


class _Break(Exception):
    pass


class _Continue(Exception):
    pass


class ListIter:
    """iterator state over a finite list of abstract elements"""

    def __init__(self, items):
        self.items = list(items)
        self.pos = 0

    def next(self):
        if self.pos < len(self.items):
            self.pos += 1
            return some(self.items[self.pos - 1])
        return NONE


class V(tuple):
    """enum value: V(("Option::Some", (x,)))"""
    def __new__(cls, name, args=()):
        return tuple.__new__(cls, (name, tuple(args)))

    def __deepcopy__(self, memo):
        import copy
        return V(self[0], tuple(copy.deepcopy(a, memo) for a in self[1]))

    def __reduce__(self):
        return (V, (self[0], self[1]))

    @property
    def name(self):
        return self[0]

    @property
    def args(self):
        return self[1]

    def __repr__(self):
        return self[0] + ("(%s)" % ", ".join(map(repr, self[1])) if self[1] else "")


def rust_float_str(f):
    """text of an f64 as Rust's Display prints it (no exponent, no trailing `.0`)"""
    from decimal import Decimal
    if f != f:
        return "NaN"
    if f in (float("inf"), float("-inf")):
        return "inf" if f > 0 else "-inf"
    t = format(Decimal(repr(f)), "f")
    if "." in t:
        t = t.rstrip("0").rstrip(".")
    return "-0" if t == "0" and str(f).startswith("-") else t


def some(x):
    return V("Option::Some", (x,))


NONE = V("Option::None")


class HMap(dict):
    """a HashMap / BTreeMap value (a plain dict is a struct)"""


INT_BITS = {"u8": (8, False), "u16": (16, False), "u32": (32, False), "u64": (64, False), "usize": (64, False), "u128": (128, False),
            "i8": (8, True), "i16": (16, True), "i32": (32, True), "i64": (64, True), "isize": (64, True), "i128": (128, True)}


CHAR_PREDICATES = {
    "is_ascii_alphanumeric": lambda c: c.isascii() and c.isalnum(), "is_ascii_alphabetic": lambda c: c.isascii() and c.isalpha(),
    "is_ascii_digit": lambda c: c in "0123456789", "is_ascii_lowercase": lambda c: "a" <= c <= "z", "is_ascii_uppercase": lambda c: "A" <= c <= "Z",
    "is_ascii_whitespace": lambda c: c in " \t\n\r\x0c", "is_ascii_punctuation": lambda c: c.isascii() and not c.isalnum() and not c.isspace() and c.isprintable(),
    "is_alphanumeric": lambda c: c.isalnum(), "is_alphabetic": lambda c: c.isalpha(), "is_numeric": lambda c: c.isnumeric(),
    "is_whitespace": lambda c: c.isspace(), "is_lowercase": lambda c: c.islower(), "is_uppercase": lambda c: c.isupper(),
}


class BMap(HMap):
    """a BTreeMap: iteration in key order"""


class LazySelf(dict):
    """a struct value (`self` of a scenario) whose fields the scenario did not set read as the empty / zero value of their
    type the first time they are touched: a field the analysed code has gained since the scenario was written (a new cache,
    a new counter) starts the way its constructor would start it, instead of making the function unreadable"""


class CtorSelf(LazySelf):
    """a LazySelf whose unset fields are first asked of `init(name)` - the field's initialiser in the constructor, evaluated on
    the scenario's arguments (a flag pre-computed from the query in `new` has the value `new` gives it); None = no initialiser"""
    init = None


def default_of_type(ty, what="?"):
    t = str(ty or "").lstrip("&").replace("mut ", "").strip()
    for wrap in ("alloc::rc::Rc<", "alloc::sync::Arc<", "core::cell::RefCell<", "core::cell::Cell<", "alloc::boxed::Box<"):
        if t.startswith(wrap):
            return default_of_type(t[len(wrap):-1], what)
    if t == "bool":
        return False
    if t in ("u8", "u16", "u32", "u64", "u128", "usize", "i8", "i16", "i32", "i64", "i128", "isize"):
        return 0
    if t in ("f32", "f64"):
        return 0.0
    if t == "alloc::string::String":
        return ""
    if t.startswith("std::collections::hash::map::HashMap<"):
        return HMap()
    if t.startswith("alloc::collections::btree::map::BTreeMap<"):
        return BMap()
    if t.startswith("std::collections::hash::set::HashSet<") or t.startswith("alloc::collections::btree::set::BTreeSet<"):
        return set()
    if t.startswith("alloc::vec::Vec<") or t.startswith("alloc::collections::vec_deque::VecDeque<"):
        return []
    if t.startswith("core::option::Option<"):
        return NONE
    return Opaque(what)


class PathStr(str):
    """the text of a std::path::Path: compares component-wise (Path's Ord), not byte-wise"""

    def comps(self):
        parts = [c for c in self.split("/") if c not in ("", ".")] if self not in ("", ".") else []
        return (self.startswith("/"), parts)


class Entry:
    def __init__(self, m, k):
        self.m, self.k = m, k


class Opaque:
    def __init__(self, what):
        self.what = what

    def __repr__(self):
        return "<%s>" % self.what


class ElemRef:
    """`&mut` to a scalar element of a list (`last_mut()`, `first_mut()`): reads and writes go to the list"""

    def __init__(self, lst, idx):
        self.lst, self.idx = lst, idx

    def get(self):
        return self.lst[self.idx]

    def __repr__(self):
        return "&mut %r" % (self.get(),)


class LocalRef:
    """`&mut` to a local that holds a plain value: reads and writes go to the local"""

    def __init__(self, env, key):
        self.lst, self.idx = env, key          # same protocol as ElemRef

    def get(self):
        return self.lst[self.idx]

    def __repr__(self):
        return "&mut %r" % (self.get(),)


class Closure:
    def __init__(self, node, env):
        self.node, self.env = node, env


def _child(env):
    """copy of an environment that keeps its laziness"""
    return env.child() if hasattr(env, "child") else dict(env)


def vname(res):
    return short(res, 2)


class Interp:
    def __init__(self, effect=None, call=None, max_steps=20000, prog=None):
        """effect(node, interp, env) -> value or None: called for macro expansions and calls the interpreter does not model;
        returning None means 'cannot model' (Undecided)."""
        self.effect = effect
        self.call = call
        self.prog = prog          # when given, calls to crate functions that the hooks do not answer are interpreted too
        self.depth = 0
        self.effects = []
        self.steps = 0
        self.max_steps = max_steps

    # ------------------------------------------------------------------ patterns
    def match_pat(self, p, v, env):
        k = p["k"]
        if k == "Wild":
            return True
        if k == "Bind":
            if "sub" in p and not self.match_pat(p["sub"], v, env):
                return False
            env[p["id"]] = v
            return True
        if k == "PRef":
            return self.match_pat(p["sub"], v, env)
        if k == "PLit":
            if isinstance(v, Opaque):
                raise Undecided("literal pattern against opaque value")
            return v == p["v"]
        if k == "PPath":
            if isinstance(v, V):
                return v.name == vname(p["res"])
            if isinstance(v, Opaque):
                raise Undecided("variant pattern %s against opaque %r" % (render_pat(p), v))
            return False
        if k == "PTS":
            if isinstance(v, Opaque):
                raise Undecided("variant pattern %s against opaque %r" % (render_pat(p), v))
            if not isinstance(v, V) or v.name != vname(p["res"]):
                return False
            if len(p["subs"]) != len(v.args):
                # `Variant(..)` or arity unknown: only sub-patterns that are wildcards are accepted
                if all(s["k"] == "Wild" for s in p["subs"]):
                    return True
                if len(v.args) == 0 and all(s["k"] in ("Wild", "Bind") for s in p["subs"]):
                    for s in p["subs"]:
                        if s["k"] == "Bind":
                            env[s["id"]] = Opaque("payload of " + v.name)
                    return True
                raise Undecided("arity of %s" % render_pat(p))
            return all(self.match_pat(s, a, env) for s, a in zip(p["subs"], v.args))
        if k == "PSlice":
            # [a, b, ..] / [first, .., last] / [] against a list
            if isinstance(v, ListIter):
                v = v.items[v.pos:]
            if not isinstance(v, list):
                raise Undecided("slice pattern against %r" % (v,))
            before, after = p.get("before", []), p.get("after", [])
            if "rest" in p:
                if len(v) < len(before) + len(after):
                    return False
                if not self.match_pat(p["rest"], v[len(before):len(v) - len(after)], env):
                    return False
            elif len(v) != len(before) + len(after):
                return False
            return all(self.match_pat(s_, x_, env) for s_, x_ in zip(before, v)) and \
                all(self.match_pat(s_, x_, env) for s_, x_ in zip(after, v[len(v) - len(after):] if after else []))
        if k == "PTup":
            if not isinstance(v, tuple) or isinstance(v, V) or len(v) != len(p["subs"]):
                raise Undecided("tuple pattern against %r" % (v,))
            return all(self.match_pat(s, a, env) for s, a in zip(p["subs"], v))
        if k == "Or":
            for a in p["alts"]:
                b = {}
                if self.match_pat(a, v, b):
                    for k_, v_ in b.items():
                        dict.__setitem__(env, k_, v_)
                    return True
            return False
        if k == "PStruct":
            if isinstance(v, V):
                if v.name != vname(p["res"]):
                    return False
                for f in p.get("fields", []):
                    if f["name"].isdigit() and int(f["name"]) < len(v.args):
                        if not self.match_pat(f["pat"], v.args[int(f["name"])], env):
                            return False
                    elif f["pat"]["k"] in ("Bind",):
                        env[f["pat"]["id"]] = Opaque("field " + f["name"])
                return True
            if isinstance(v, dict):
                for f in p.get("fields", []):
                    if f["name"] in v:
                        if not self.match_pat(f["pat"], v[f["name"]], env):
                            return False
                    else:
                        raise Undecided("struct pattern field %s" % f["name"])
                return True
            raise Undecided("struct pattern")
        if k == "PRange":
            lo = p.get("lo", {}).get("v")
            hi = p.get("hi", {}).get("v")
            if isinstance(v, (int, str)) and not isinstance(v, bool):
                ok = (lo is None or v >= lo) and (hi is None or (v <= hi if p.get("incl", True) else v < hi))
                return ok
            raise Undecided("range pattern")
        raise Undecided("pattern kind %s" % k)

    # ------------------------------------------------------------------ expressions
    def cond(self, n, env):
        """condition of an `if`, including `let` chains; binds into env"""
        if n["k"] == "LetE":
            return self.match_pat(n["pat"], self.ev(n["init"], env), env)
        if n["k"] == "Bin" and n["op"] == "&&":
            return self.cond(n["l"], env) and self.cond(n["r"], env)
        v = self.ev(n, env)
        if not isinstance(v, bool):
            raise Undecided("condition is not boolean: %s = %r" % (render(n), v))
        return v

    def ev(self, n, env):
        self.steps += 1
        if self.steps > self.max_steps:
            raise Undecided("step budget exhausted")
        k = n["k"]
        if k == "Lit":
            if n.get("lk") == "float":
                try:
                    return float(str(n["v"]).rstrip("f3264_"))
                except ValueError:
                    raise Undecided("float literal %r" % n["v"])
            return n["v"]
        if k == "Path":
            rk = n.get("rk")
            if rk == "Local":
                if n["res"] in env:
                    return env[n["res"]]
                raise Undecided("unbound local %s" % n["name"])
            if str(rk).startswith("Ctor") or rk in ("Variant",):
                return V(vname(n["res"]))
            if rk in ("Const", "AssocConst", "Static") or str(rk).startswith(("Const", "AssocConst", "Static")):
                # a constant / static of the analysed crate is its initialiser (arrays of literals, separators, tables)
                if self.prog is not None and n["res"] in self.prog.fns and self.depth < 12:
                    ch = self.prog.hir(n["res"])
                    if ch is not None:
                        self.depth += 1
                        try:
                            return self.ev(ch, {})
                        except Undecided:
                            pass
                        finally:
                            self.depth -= 1
                return Opaque(n["res"])
            return Opaque(n.get("res", "path"))
        if k == "Ref":
            inner = n["e"]
            if n.get("mut") and not n.get("exp") and inner["k"] == "Path" and inner.get("rk") == "Local" and inner["res"] in env:
                cur = env[inner["res"]]
                # `&mut x` of a local holding a plain value (a number, a flag, a text, an enum value): a reference through which
                # the callee / the alias writes the local itself (lists, maps and structs are shared objects already)
                if isinstance(cur, (bool, int, float, str, V)):
                    return LocalRef(env, inner["res"])
            return self.ev(n["e"], env)
        if k == "Cast":
            v = self.ev(n["e"], env)
            ty = str(n.get("ty", ""))
            if isinstance(v, float) and ty in ("i64", "u64", "usize", "i32", "u32", "isize", "u8", "i8", "u16", "i16"):
                if v != v:
                    return 0
                bits = {"i64": 63, "isize": 63, "i32": 31, "i16": 15, "i8": 7}.get(ty)
                lo, hi = (-(2 ** bits), 2 ** bits - 1) if bits else (0, 2 ** {"u64": 64, "usize": 64, "u32": 32, "u16": 16, "u8": 8}[ty] - 1)
                return max(lo, min(hi, int(v)))      # `as` saturates
            if isinstance(v, int) and not isinstance(v, bool) and ty in ("f64", "f32"):
                return float(v)
            if isinstance(v, int) and not isinstance(v, bool) and ty in INT_BITS:
                bits, signed = INT_BITS[ty]
                w = v & ((1 << bits) - 1)          # integer `as` truncates to the width of the target (two's complement)
                return w - (1 << bits) if signed and w >= (1 << (bits - 1)) else w
            return v
        if k == "Un":
            if n["op"] == "*":
                v = self.ev(n["e"], env)
                return v.get() if isinstance(v, (ElemRef, LocalRef)) else v
            v = self.ev(n["e"], env)
            if n["op"] == "!" and isinstance(v, bool):
                return not v
            if n["op"] == "-" and isinstance(v, (int, float)):
                return -v
            raise Undecided("unary %s on %r" % (n["op"], v))
        if k == "Bin":
            op = n["op"]
            if op == "&&":
                return self.cond(n["l"], env) and self.cond(n["r"], env)
            if op == "||":
                a = self.ev(n["l"], env)
                if not isinstance(a, bool):
                    raise Undecided("|| on %r" % (a,))
                return a or self._bool(self.ev(n["r"], env), n["r"])
            a, b = self.ev(n["l"], env), self.ev(n["r"], env)
            if isinstance(a, Opaque) or isinstance(b, Opaque):
                raise Undecided("binary %s on opaque operand in %s" % (op, render(n)))
            try:
                import math
                return {"==": lambda: a == b, "!=": lambda: a != b, "<": lambda: a < b, "<=": lambda: a <= b, ">": lambda: a > b,
                        ">=": lambda: a >= b, "+": lambda: a + b, "-": lambda: a - b, "*": lambda: a * b,
                        "/": lambda: (a / b) if isinstance(a, float) or isinstance(b, float) else (abs(a) // abs(b)) * (1 if (a >= 0) == (b >= 0) else -1),
                        "%": lambda: math.fmod(a, b) if isinstance(a, float) or isinstance(b, float) else int(math.fmod(a, b)),
                        "^": lambda: a ^ b, "&": lambda: a & b, "|": lambda: a | b,
                        "<<": lambda: a << b if 0 <= b < 128 else None, ">>": lambda: a >> b if 0 <= b < 128 else None}[op]()
            except (KeyError, TypeError, ZeroDivisionError, ValueError):
                raise Undecided("binary %s" % op)
        if k == "Tup":
            return tuple(self.ev(e, env) for e in n["es"])
        if k == "Array":
            return [self.ev(e, env) for e in n["es"]]
        if k == "Repeat":
            m_ = re.search(r"; (\d+)\]$", str(n.get("ty", "")).strip())
            if m_ and int(m_.group(1)) <= 4096:
                v_ = self.ev(n["e"], env)
                if isinstance(v_, (bool, int, float, str)):
                    return [v_] * int(m_.group(1))
            raise Undecided("array repeat %s" % render(n))
        if k == "Index":
            base, i = self.ev(n["e"], env), self.ev(n["i"], env)
            if isinstance(base, (list, str)) and isinstance(i, int) and not isinstance(i, bool):
                if 0 <= i < len(base):
                    return base[i]
                raise Undecided("index %d out of bounds (a panic in the analysed code)" % i)
            if isinstance(base, HMap) and not isinstance(i, Opaque):
                if i in base:
                    return base[i]
                raise Undecided("map index %r absent (a panic in the analysed code)" % (i,))
            if isinstance(base, (list, str)) and isinstance(i, tuple) and len(i) == 4 and i[0] in ("range", "slice"):
                lo = 0 if i[1] is None else i[1]
                hi = len(base) if i[2] is None else (i[2] + 1 if i[3] else i[2])
                if all(isinstance(x, int) and not isinstance(x, bool) for x in (lo, hi)):
                    if 0 <= lo <= hi <= len(base) and (not isinstance(base, str) or base.isascii()):
                        return base[lo:hi]
                    if not (0 <= lo <= hi <= len(base)):
                        raise Undecided("slice %d..%d out of bounds of %r (a panic in the analysed code)" % (lo, hi, base))
            if self.call is not None:
                r = self.call(n, base, [i], self, env)
                if r is not None:
                    return r[0]
            raise Undecided("index into %r" % (base,))
        if k == "Field":
            base = self.ev(n["e"], env)
            if isinstance(base, dict):
                if n["name"] in base:
                    return base[n["name"]]
                if isinstance(base, CtorSelf) and base.init is not None:
                    v_ = base.init(n["name"])
                    if v_ is not None:
                        base[n["name"]] = v_[0]
                        return v_[0]
                if isinstance(base, LazySelf):
                    base[n["name"]] = default_of_type(n.get("ty"), render(n))
                    return base[n["name"]]
                raise Undecided("no value for field %s" % render(n))
            if isinstance(base, tuple) and not isinstance(base, V) and n["name"].isdigit():
                return base[int(n["name"])]
            if isinstance(base, Opaque):
                return Opaque(render(n))
            raise Undecided("field %s of %r" % (n["name"], base))
        if k == "Block":
            if n.get("inl"):
                # the body of an inlined helper: its `return` (InlRet) leaves this block only
                try:
                    for st in n["stmts"]:
                        self.stmt(st, env)
                    if "expr" in n:
                        return self.ev(n["expr"], env)
                    return ()
                except _InlReturn as r:
                    return r.v
            for st in n["stmts"]:
                self.stmt(st, env)
            if "expr" in n:
                return self.ev(n["expr"], env)
            return ()
        if k == "InlRet":
            raise _InlReturn(self.ev(n["e"], env) if "e" in n else ())
        if k == "If":
            e2 = env
            if self.cond(n["c"], e2):
                return self.ev(n["t"], e2)
            if "e" in n:
                return self.ev(n["e"], env)
            return ()
        if k == "Match":
            v = self.ev(n["scrut"], env)
            for a in n["arms"]:
                b = {}
                if self.match_pat(a["pat"], v, b):
                    # local ids are unique within a function, so one flat environment serves all scopes; assignments made
                    # inside the arm stay visible after it
                    for k_, v_ in b.items():
                        dict.__setitem__(env, k_, v_)
                    if a.get("guard") is not None and not self.cond(a["guard"], env):
                        continue
                    return self.ev(a["body"], env)
            raise Undecided("no arm of `%s` matches %r" % (render(n), v))
        if k == "Closure":
            return Closure(n, env)
        if k == "Loop":
            for _ in range(64):
                try:
                    self.ev(n["body"], env)
                except _Break:
                    return ()
                except _Continue:
                    continue
            raise Undecided("loop does not end within 64 rounds")
        if k == "Break":
            raise _Break()
        if k == "Continue":
            raise _Continue()
        if k == "AssignOp":
            l = n["l"]
            if l["k"] == "Path" and l.get("rk") == "Local" and l["res"] in env:
                a, b = env[l["res"]], self.ev(n["r"], env)
                if isinstance(a, (int, float, str)) and isinstance(b, (int, float, str)) and n["op"] in ("+=", "-=", "*="):
                    env[l["res"]] = a + b if n["op"] == "+=" else (a - b if n["op"] == "-=" else a * b)
                    return ()
            if l["k"] == "Field":
                base = self.ev(l["e"], env)
                if isinstance(base, LazySelf) and l["name"] not in base:
                    base[l["name"]] = default_of_type(l.get("ty"), render(l))
                if isinstance(base, dict) and l["name"] in base:
                    a, b = base[l["name"]], self.ev(n["r"], env)
                    if isinstance(a, (int, float, str)) and isinstance(b, (int, float, str)) and n["op"] in ("+=", "-=", "*="):
                        base[l["name"]] = a + b if n["op"] == "+=" else (a - b if n["op"] == "-=" else a * b)
                        return ()
            raise Undecided("compound assignment %s" % render(n)[:60])
        if k == "Ret":
            raise _Return(self.ev(n["e"], env) if "e" in n else ())
        if k == "Let":
            self.stmt(n, env)
            return ()
        if k == "Assign":
            l = n["l"]
            if l["k"] == "Path" and l.get("rk") == "Local":
                env[l["res"]] = self.ev(n["r"], env)
                return ()
            if l["k"] == "Field":
                base = self.ev(l["e"], env)
                if isinstance(base, dict):
                    base[l["name"]] = self.ev(n["r"], env)
                    return ()
            if l["k"] == "Index":
                base = self.ev(l["e"], env)
                i_ = self.ev(l["i"], env)
                if isinstance(base, list) and isinstance(i_, int) and not isinstance(i_, bool):
                    if not 0 <= i_ < len(base):
                        raise Undecided("index %d out of range in an assignment (a panic in the analysed code)" % i_)
                    base[i_] = self.ev(n["r"], env)
                    return ()
                if isinstance(base, HMap) and not isinstance(i_, Opaque):
                    dict.__setitem__(base, i_, self.ev(n["r"], env))
                    return ()
            if l["k"] == "Un" and l["op"] == "*":
                tgt = l["e"]
                while tgt["k"] in ("Ref",) or (tgt["k"] == "Un" and tgt["op"] == "*"):
                    tgt = tgt["e"]
                if tgt["k"] == "Path" and tgt.get("rk") == "Local":
                    cur = env.get(tgt["res"]) if tgt["res"] in env else None
                    if isinstance(cur, (ElemRef, LocalRef)):
                        cur.lst[cur.idx] = self.ev(n["r"], env)
                        return ()
                    env[tgt["res"]] = self.ev(n["r"], env)
                    return ()
            raise Undecided("assignment to %s" % render(l))
        if k == "MCall":
            return self.mcall(n, env)
        if k == "Call":
            return self.fcall(n, env)
        if k == "Struct":
            if short(n.get("res", ""), 1) == "Range":
                fs = {f["name"]: self.ev(f["e"], env) for f in n["fields"]}
                return ("range", fs["start"], fs["end"], False)
            if short(n.get("res", ""), 1) in ("RangeTo", "RangeFrom", "RangeFull", "RangeToInclusive") and str(n.get("res", "")).startswith("core::ops::range"):
                fs = {f["name"]: self.ev(f["e"], env) for f in n["fields"]}
                return ("slice", fs.get("start"), fs.get("end"), short(n["res"], 1) == "RangeToInclusive")
            # a struct literal is a dictionary of its fields; `..base` supplies the rest when it evaluates to a dictionary
            d = {}
            if n.get("base") is not None:
                b = self.ev(n["base"], env)
                if isinstance(b, dict):
                    d.update(b)
                else:
                    return Opaque(render(n))
            try:
                for f in n["fields"]:
                    d[f["name"]] = self.ev(f["e"], env)
            except Undecided:
                return Opaque(render(n))
            d["__struct"] = short(n.get("res", ""), 1)
            return d
        raise Undecided("expression kind %s: %s" % (k, render(n)[:80]))

    def _bool(self, v, n):
        if not isinstance(v, bool):
            raise Undecided("not boolean: %s" % render(n))
        return v

    def stmt(self, st, env):
        if st["k"] == "Let":
            if "init" not in st or st["init"] is None:
                return
            v = self.ev(st["init"], env)
            if not self.match_pat(st["pat"], v, env):
                if "els" in st:
                    self.ev(st["els"], env)
                    return
                raise Undecided("let pattern does not match")
            return
        self.ev(st, env)

    def apply(self, f, args):
        if isinstance(f, Opaque) and self.call is not None:
            # a function item passed as a value (`.and_then(Duration::try_days)`)
            r = self.call({"k": "Call", "callee": f.what, "m": None, "args": [], "f": {"k": "Path", "res": f.what}}, None, list(args), self, {})
            if r is not None:
                return r[0]
        if isinstance(f, Opaque) and len(args) == 1:
            w = str(f.what)
            if w.endswith(("ToString::to_string", "String::from", "ToOwned::to_owned", "Into::into", "From::from", "Clone::clone", "convert::identity", "str::to_string", "str::to_owned")):
                a = args[0]
                if isinstance(a, str):
                    return a
                if isinstance(a, bool):
                    return "true" if a else "false"
                if isinstance(a, int) and w.endswith("to_string"):
                    return str(a)
                if w.endswith(("Clone::clone", "convert::identity", "Into::into", "From::from", "ToOwned::to_owned")):
                    return a
            if w.endswith(("Option::Some",)):
                return some(args[0])
            if w.endswith(("Result::Ok",)):
                return V("Result::Ok", [args[0]])
        if isinstance(f, Opaque) and not args:
            w = str(f.what)
            if w.endswith(("Vec::new", "VecDeque::new")) or w.endswith("Vec<T>::new"):
                return []
            if w.endswith("String::new"):
                return ""
            if w.endswith(("HashMap::new", "HashMap<K, V>::new")):
                return HMap()
            if w.endswith(("BTreeMap::new", "BTreeMap<K, V>::new")):
                return BMap()
            if w.endswith(("HashSet::new", "BTreeSet::new", "HashSet<T>::new")):
                return set()
        if isinstance(f, Opaque) and self.prog is not None and f.what in self.prog.fns:
            r = self.crate_call({"callee": f.what}, list(args))
            if r is not None:
                return r[0]
        if not isinstance(f, Closure):
            raise Undecided("call of a non-closure value %r" % (f,))
        env = f.env
        params = f.node.get("params", [])
        if len(params) != len(args):
            raise Undecided("closure arity")
        for p, a in zip(params, args):
            if not self.match_pat(p, a, env):
                raise Undecided("closure parameter pattern")
        try:
            return self.ev(f.node["body"], env)
        except _Return as r:
            return r.v

    def mcall(self, n, env):
        if n["m"] in ("clear", "truncate", "pop") and len(n["args"]) <= 1:
            r = n["recv"]
            while r["k"] in ("Ref",) or (r["k"] == "Un" and r["op"] == "*"):
                r = r["e"]
            if r["k"] == "Path" and r.get("rk") == "Local" and r["res"] in env and isinstance(env[r["res"]], str):
                cur = env[r["res"]]
                if n["m"] == "clear":
                    env[r["res"]] = ""
                    return ()
                if n["m"] == "pop" and not n["args"]:
                    env[r["res"]] = cur[:-1]
                    return some(cur[-1]) if cur else NONE
        if n["m"] in ("replace", "take", "insert") and "Option" in str(n.get("callee", "")) and len(n["args"]) <= 1:
            # Option::take / replace / insert on a place (a local or a field of a struct): the place changes, the old value returns
            r = n["recv"]
            while r["k"] in ("Ref",) or (r["k"] == "Un" and r["op"] == "*"):
                r = r["e"]
            newv = NONE if n["m"] == "take" else some(self.ev(n["args"][0], env))
            if r["k"] == "Path" and r.get("rk") == "Local" and r["res"] in env and isinstance(env[r["res"]], V):
                old = env[r["res"]]
                env[r["res"]] = newv
                return old if n["m"] != "insert" else newv.args[0]
            if r["k"] == "Field":
                base = self.ev(r["e"], env)
                if isinstance(base, dict) and isinstance(base.get(r["name"]), V):
                    old = base[r["name"]]
                    base[r["name"]] = newv
                    return old if n["m"] != "insert" else newv.args[0]
        if n["m"] in ("push", "push_str") and len(n["args"]) == 1:
            r = n["recv"]
            while r["k"] in ("Ref",) or (r["k"] == "Un" and r["op"] == "*"):
                r = r["e"]
            if r["k"] == "Path" and r.get("rk") == "Local" and r["res"] in env and isinstance(env[r["res"]], str):
                a = self.ev(n["args"][0], env)
                if isinstance(a, str):
                    env[r["res"]] = env[r["res"]] + a
                    return ()
        if n.get("exp") and not str(n.get("mac", "")).startswith("desugar:") and self.effect is not None:
            r = self.effect(n, self, env)
            if r is not None:
                return r[0]
        m = n["m"]
        recv = self.ev(n["recv"], env)
        if isinstance(recv, (LocalRef, ElemRef)):
            # a method called through `&mut` to a plain value: `retain` / `push` / `clear` on a text rewrite the place; every other
            # method reads the value (auto-deref)
            cur = recv.get()
            if isinstance(cur, str) and m == "retain" and len(n["args"]) == 1:
                f_ = self.ev(n["args"][0], env)
                recv.lst[recv.idx] = "".join(ch for ch in cur if self._bool(self.apply(f_, [ch]), n))
                return ()
            if isinstance(cur, str) and m in ("push", "push_str") and len(n["args"]) == 1:
                a_ = self.ev(n["args"][0], env)
                if isinstance(a_, str):
                    recv.lst[recv.idx] = cur + a_
                    return ()
            if isinstance(cur, str) and m == "clear" and not n["args"]:
                recv.lst[recv.idx] = ""
                return ()
            recv = cur
        if m in ("start", "end") and not n["args"] and isinstance(recv, tuple) and recv and recv[0] == "range":
            return recv[1] if m == "start" else recv[2]
        if m in ("clone", "as_ref", "as_mut", "as_deref", "to_owned", "borrow", "deref", "by_ref", "copied", "cloned", "into") and not n["args"]:
            return recv
        if isinstance(recv, tuple) and not isinstance(recv, V) and recv[:1] != ("range",) and "Vec<" in str(n["recv"].get("ty", "")) + str(n.get("callee", "")):
            # a Vec used as a map key is held as a tuple: read it as a list
            if m == "get" and len(n["args"]) == 1:
                i_ = self.ev(n["args"][0], env)
                if isinstance(i_, int):
                    return some(recv[i_]) if 0 <= i_ < len(recv) else NONE
            if m in ("iter", "into_iter") and not n["args"]:
                return list(recv)
            if m == "len" and not n["args"]:
                return len(recv)
        if m in ("to_string", "as_str", "to_lowercase_ascii") and not n["args"] and isinstance(recv, (str, int)) and not isinstance(recv, bool):
            return str(recv)
        if m in ("as_bytes", "into_bytes", "into_boxed_str", "into_string", "as_mut_str") and not n["args"] and isinstance(recv, str):
            return recv         # a text and its bytes are the same token here
        if isinstance(recv, bool) and len(n["args"]) == 1 and m in ("then", "then_some"):
            # bool::then(f) / then_some(v): the closure runs only when true; then_some evaluates its argument either way
            if m == "then_some":
                v_ = self.ev(n["args"][0], env)
                return some(v_) if recv else NONE
            return some(self.apply(self.ev(n["args"][0], env), [])) if recv else NONE
        if m == "to_string" and not n["args"] and isinstance(recv, bool):
            return "true" if recv else "false"
        if m == "to_string" and not n["args"] and isinstance(recv, float):
            return rust_float_str(recv)
        if isinstance(recv, str) and not n["args"] and m in ("is_ascii", "is_char_boundary_0"):
            return recv.isascii()
        if isinstance(recv, str) and len(recv) == 1 and not n["args"] and m in ("to_uppercase", "to_lowercase") and str(n["recv"].get("ty", "")).lstrip("&") == "char":
            # char::to_uppercase is an iterator over one or more characters (`ß` -> `S`, `S`)
            return list(recv.upper() if m == "to_uppercase" else recv.lower())
        if isinstance(recv, list) and m in ("join", "concat") and len(n["args"]) <= 1 and all(isinstance(x, str) for x in recv):
            sep_ = self.ev(n["args"][0], env) if n["args"] else ""
            if isinstance(sep_, str):
                return sep_.join(recv)
        if isinstance(recv, list) and not n["args"] and m == "try_into" and all(isinstance(x, int) and not isinstance(x, bool) for x in recv):
            # &[u8] -> [u8; N]: succeeds exactly when the lengths agree (N read off the type of the call)
            mt_ = re.search(r"\[u8; (\d+)\]", str(n.get("ty", "")))
            if mt_:
                return V("Result::Ok", [list(recv)]) if len(recv) == int(mt_.group(1)) else V("Result::Err", [Opaque("TryFromSliceError")])
        if isinstance(recv, list) and not n["args"] and m == "next" and all(isinstance(x, str) and len(x) == 1 for x in recv):
            return some(recv.pop(0)) if recv else NONE          # an iterator over characters held in a local
        if isinstance(recv, list) and not n["args"] and m == "as_str" and all(isinstance(x, str) and len(x) == 1 for x in recv):
            return "".join(recv)
        if isinstance(recv, list) and not n["args"] and m == "collect" and "String" in str(n.get("ty", "")) and "Vec<" not in str(n.get("ty", "")) and all(isinstance(x, str) for x in recv):
            return "".join(recv)
        if isinstance(recv, str) and not n["args"] and m in ("to_lowercase", "to_ascii_lowercase", "to_uppercase", "to_ascii_uppercase", "trim", "is_empty", "len"):
            return {"to_lowercase": recv.lower, "to_ascii_lowercase": recv.lower, "to_uppercase": recv.upper, "to_ascii_uppercase": recv.upper,
                    "trim": recv.strip, "is_empty": lambda: recv == "", "len": lambda: len(recv.encode())}[m]()
        if isinstance(recv, str) and not n["args"] and m == "parse":
            ty = str(n.get("ty", ""))
            mt = re.search(r"Result<([a-z0-9]+)", ty)
            t = mt.group(1) if mt else ""
            try:
                if t in ("f64", "f32"):
                    return V("Result::Ok", [float(recv)])
                if t in ("u8", "u16", "u32", "u64", "usize", "u128"):
                    if recv.isdigit() or (recv[:1] == "+" and recv[1:].isdigit()):
                        return V("Result::Ok", [int(recv)])
                    return V("Result::Err", [Opaque("ParseIntError")])
                if t in ("i8", "i16", "i32", "i64", "isize", "i128"):
                    if re.fullmatch(r"[+-]?[0-9]+", recv):
                        return V("Result::Ok", [int(recv)])
                    return V("Result::Err", [Opaque("ParseIntError")])
                if t == "bool":
                    return V("Result::Ok", [recv == "true"]) if recv in ("true", "false") else V("Result::Err", [Opaque("ParseBoolError")])
            except ValueError:
                return V("Result::Err", [Opaque("ParseFloatError")])
        if isinstance(recv, str) and len(n["args"]) == 1 and m in ("split_at", "split_once", "rsplit_once"):
            a = self.ev(n["args"][0], env)
            if m == "split_at" and isinstance(a, int) and not isinstance(a, bool):
                b_ = recv.encode()
                if 0 <= a <= len(b_):
                    try:
                        return (b_[:a].decode(), b_[a:].decode())
                    except UnicodeDecodeError:
                        raise Undecided("split_at %d inside a character of %r (a panic in the analysed code)" % (a, recv))
                raise Undecided("split_at %d beyond the end of %r (a panic in the analysed code)" % (a, recv))
            if m in ("split_once", "rsplit_once") and isinstance(a, str) and a:
                i_ = recv.find(a) if m == "split_once" else recv.rfind(a)
                return some((recv[:i_], recv[i_ + len(a):])) if i_ >= 0 else NONE
        if isinstance(recv, str) and len(recv) == 1 and m == "encode_utf8" and len(n["args"]) == 1 and str(n["recv"].get("ty", "")).lstrip("&") == "char":
            self.ev(n["args"][0], env)
            return recv             # the text of the character (the buffer it is written to is scratch space)
        if isinstance(recv, str) and len(recv) == 1 and m == "len_utf8" and not n["args"]:
            return len(recv.encode())
        if isinstance(recv, str) and not n["args"] and len(recv) == 1 and m in CHAR_PREDICATES:
            return CHAR_PREDICATES[m](recv)
        if isinstance(recv, str) and len(n["args"]) == 1 and m in ("trim_matches", "trim_start_matches", "trim_end_matches", "strip_prefix", "strip_suffix", "split", "find", "rfind"):
            a = self.ev(n["args"][0], env)
            if isinstance(a, Closure) and m in ("split", "trim_matches", "trim_start_matches", "trim_end_matches", "find"):
                # the pattern is a predicate on characters
                hit = [self._bool(self.apply(a, [ch]), n) for ch in recv]
                if m == "split":
                    out, cur = [], ""
                    for ch, h_ in zip(recv, hit):
                        if h_:
                            out.append(cur)
                            cur = ""
                        else:
                            cur += ch
                    return out + [cur]
                if m == "find":
                    return some(len(recv[:hit.index(True)].encode())) if True in hit else NONE
                lo, hi = 0, len(recv)
                if m in ("trim_matches", "trim_start_matches"):
                    while lo < hi and hit[lo]:
                        lo += 1
                if m in ("trim_matches", "trim_end_matches"):
                    while hi > lo and hit[hi - 1]:
                        hi -= 1
                return recv[lo:hi]
            if isinstance(a, str) and a:
                if m == "trim_matches":
                    r_ = recv
                    while r_.startswith(a):
                        r_ = r_[len(a):]
                    while r_.endswith(a):
                        r_ = r_[:-len(a)]
                    return r_
                if m == "trim_start_matches":
                    r_ = recv
                    while r_.startswith(a):
                        r_ = r_[len(a):]
                    return r_
                if m == "trim_end_matches":
                    r_ = recv
                    while r_.endswith(a):
                        r_ = r_[:-len(a)]
                    return r_
                if m == "strip_prefix":
                    return some(recv[len(a):]) if recv.startswith(a) else NONE
                if m == "strip_suffix":
                    return some(recv[:-len(a)]) if recv.endswith(a) else NONE
                if m == "split":
                    return recv.split(a)
                if m in ("find", "rfind"):
                    i_ = recv.find(a) if m == "find" else recv.rfind(a)
                    return some(len(recv[:i_].encode())) if i_ >= 0 else NONE
        if isinstance(recv, str) and not n["args"] and m in ("chars", "bytes", "trim_start", "trim_end", "lines"):
            if m == "chars":
                return list(recv)
            if m == "bytes":
                return list(recv.encode())
            if m == "lines":
                return recv.splitlines()
            return recv.lstrip() if m == "trim_start" else recv.rstrip()
        if isinstance(recv, str) and len(n["args"]) == 1 and m in ("matches", "match_indices", "split_terminator", "rsplit", "splitn"):
            a = self.ev(n["args"][0], env)
            if isinstance(a, str) and a and m in ("matches", "match_indices"):
                out, i_ = [], 0
                while True:
                    j_ = recv.find(a, i_)
                    if j_ < 0:
                        break
                    out.append(a if m == "matches" else (len(recv[:j_].encode()), a))
                    i_ = j_ + len(a)
                return out
            if isinstance(a, Closure) and m == "matches":
                return [c_ for c_ in recv if self._bool(self.apply(a, [c_]), n)]
        if isinstance(recv, str) and len(n["args"]) == 2 and m == "replace":
            a, b = self.ev(n["args"][0], env), self.ev(n["args"][1], env)
            if isinstance(a, str) and isinstance(b, str):
                return recv.replace(a, b)
        if isinstance(recv, str) and len(n["args"]) == 1 and m in ("starts_with", "ends_with", "contains", "eq_ignore_ascii_case"):
            a = self.ev(n["args"][0], env)
            if isinstance(a, str):
                return {"starts_with": recv.startswith, "ends_with": recv.endswith, "contains": lambda x: x in recv,
                        "eq_ignore_ascii_case": lambda x: x.lower() == recv.lower()}[m](a)
            if isinstance(a, list) and a and all(isinstance(x, str) and len(x) == 1 for x in a) and m != "eq_ignore_ascii_case":
                # the pattern is a set of characters (`['%', '_']`)
                return {"starts_with": lambda: recv[:1] in a and recv != "", "ends_with": lambda: recv[-1:] in a and recv != "",
                        "contains": lambda: any(ch in a for ch in recv)}[m]()
            if isinstance(a, Closure) and m in ("starts_with", "ends_with", "contains"):
                hit = [self._bool(self.apply(a, [ch]), n) for ch in recv]
                return {"starts_with": lambda: bool(hit) and hit[0], "ends_with": lambda: bool(hit) and hit[-1], "contains": lambda: any(hit)}[m]()
        if isinstance(recv, Entry):
            if m in ("or_default", "or_insert", "or_insert_with", "or_insert_with_key"):
                if recv.k not in recv.m:
                    if m == "or_default":
                        ty = str(n.get("ty", ""))
                        dv = [] if "Vec<" in ty else ("" if "String" in ty else (0 if re.search(r"&mut [iu](8|16|32|64|size)", ty) else None))
                        if dv is None:
                            raise Undecided("or_default of type %s" % ty)
                    elif m == "or_insert":
                        dv = self.ev(n["args"][0], env)
                    else:
                        dv = self.apply(self.ev(n["args"][0], env), [] if m == "or_insert_with" else [recv.k])
                    dict.__setitem__(recv.m, recv.k, dv)
                return recv.m[recv.k]
            raise Undecided("entry method %s" % m)
        if isinstance(recv, HMap):
            argv = [self.ev(a, env) for a in n["args"]]
            if any(isinstance(a, Opaque) for a in argv):
                raise Undecided("map key is opaque")
            if argv and isinstance(argv[0], list):
                argv[0] = tuple(argv[0])        # a Vec used as a key
            srt = (lambda it_: sorted(it_)) if isinstance(recv, BMap) else (lambda it_: list(it_))
            if m == "entry" and len(argv) == 1:
                return Entry(recv, argv[0])
            if m in ("keys", "values", "iter", "into_iter", "iter_mut", "values_mut", "into_values", "into_keys") and not argv:
                ks = srt(recv.keys())
                if m in ("keys", "into_keys"):
                    return ks
                if m in ("values", "values_mut", "into_values"):
                    return [recv[k_] for k_ in ks]
                return [(k_, recv[k_]) for k_ in ks]
            if m in ("last_key_value", "first_key_value") and not argv:
                ks = srt(recv.keys())
                if not ks:
                    return NONE
                k_ = ks[-1] if m == "last_key_value" else ks[0]
                return some((k_, recv[k_]))
            if m in ("pop_last", "pop_first") and not argv:
                ks = srt(recv.keys())
                if not ks:
                    return NONE
                k_ = ks[-1] if m == "pop_last" else ks[0]
                return some((k_, recv.pop(k_)))
            if m == "get_mut" and len(argv) == 1:
                return some(recv[argv[0]]) if argv[0] in recv else NONE
            if m == "get" and len(argv) == 1:
                return some(recv[argv[0]]) if argv[0] in recv else NONE
            if m == "contains_key" and len(argv) == 1:
                return argv[0] in recv
            if m == "insert" and len(argv) == 2:
                old_ = some(recv[argv[0]]) if argv[0] in recv else NONE
                dict.__setitem__(recv, argv[0], argv[1])
                return old_
            if m == "remove" and len(argv) == 1:
                return some(recv.pop(argv[0])) if argv[0] in recv else NONE
            if m == "len" and not argv:
                return len(recv)
            if m == "is_empty" and not argv:
                return len(recv) == 0
            if m in ("keys", "values", "iter") and not argv:
                return list(recv.keys()) if m == "keys" else (list(recv.values()) if m == "values" else [(k_, v_) for k_, v_ in recv.items()])
            if m == "clear" and not argv:
                recv.clear()
                return ()
        if isinstance(recv, tuple) and not isinstance(recv, V) and recv[:1] == ("range",) and len(recv) == 4 and isinstance(recv[1], int) and isinstance(recv[2], int) and \
                m in ("map", "filter", "filter_map", "find", "find_map", "any", "all", "position", "for_each", "rev", "enumerate", "count", "take_while", "skip_while", "map_while", "flat_map", "collect", "zip", "fold", "sum"):
            # an integer range used as an iterator
            recv = list(range(recv[1], recv[2] + (1 if recv[3] else 0)))
        if m == "chain" and len(n["args"]) == 1 and isinstance(recv, (list, ListIter)):
            other = self.ev(n["args"][0], env)
            a_ = recv if isinstance(recv, list) else recv.items[recv.pos:]
            if isinstance(other, ListIter):
                other = other.items[other.pos:]
            if isinstance(other, V) and other.name in ("Option::Some", "Option::None"):
                other = [other.args[0]] if other.name == "Option::Some" else []
            if isinstance(other, list):
                return list(a_) + list(other)
        if m == "zip" and len(n["args"]) == 1 and isinstance(recv, (list, ListIter)):
            other = self.ev(n["args"][0], env)
            a_ = recv if isinstance(recv, list) else recv.items[recv.pos:]
            if isinstance(other, ListIter):
                other = other.items[other.pos:]
            if isinstance(other, list):
                return [(x, y) for x, y in zip(a_, other)]
        if m == "zip" and len(n["args"]) == 1 and isinstance(recv, V) and recv.name in ("Option::Some", "Option::None"):
            other = self.ev(n["args"][0], env)
            if isinstance(other, V) and other.name in ("Option::Some", "Option::None"):
                return some((recv.args[0], other.args[0])) if recv.name == "Option::Some" and other.name == "Option::Some" else NONE
        if m == "map_or_else" and len(n["args"]) == 2 and isinstance(recv, V) and recv.name in ("Option::Some", "Option::None", "Result::Ok", "Result::Err"):
            if recv.name in ("Option::Some", "Result::Ok"):
                return self.apply(self.ev(n["args"][1], env), [recv.args[0]])
            return self.apply(self.ev(n["args"][0], env), [] if recv.name == "Option::None" else [recv.args[0]])
        if m in ("iter", "into_iter", "iter_mut") and isinstance(recv, V) and recv.name in ("Option::Some", "Option::None") and not n["args"]:
            return [recv.args[0]] if recv.name == "Option::Some" else []       # an Option iterates over zero or one item
        if m in ("is_some", "is_none") and isinstance(recv, V) and not n["args"]:
            return (recv.name == "Option::Some") == (m == "is_some")
        if m in ("is_ok_and", "is_err_and") and isinstance(recv, V) and recv.name in ("Result::Ok", "Result::Err") and len(n["args"]) == 1:
            if (recv.name == "Result::Ok") != (m == "is_ok_and"):
                return False
            return self._bool(self.apply(self.ev(n["args"][0], env), [recv.args[0]]), n)
        if isinstance(recv, int) and not isinstance(recv, bool) and not n["args"] and m in CHAR_PREDICATES and 0 <= recv < 128 and str(n["recv"].get("ty", "")).lstrip("&") == "u8":
            return CHAR_PREDICATES[m](chr(recv))          # u8::is_ascii_*
        if m in ("is_ok", "is_err") and isinstance(recv, V) and not n["args"]:
            return (recv.name == "Result::Ok") == (m == "is_ok")
        if m in ("unwrap", "expect") and isinstance(recv, V) and recv.name in ("Option::Some", "Result::Ok"):
            return recv.args[0]
        if m in ("eq", "ne") and len(n["args"]) == 1:
            b = self.ev(n["args"][0], env)
            if isinstance(recv, Opaque) or isinstance(b, Opaque):
                raise Undecided("eq on opaque")
            return (recv == b) == (m == "eq")
        if isinstance(recv, int) and not isinstance(recv, bool) and len(n["args"]) == 1 and m.startswith(("checked_", "saturating_", "wrapping_")):
            a = self.ev(n["args"][0], env)
            if isinstance(a, int) and not isinstance(a, bool):
                import math
                opn = m.split("_", 1)[1]
                try:
                    val = {"add": lambda: recv + a, "sub": lambda: recv - a, "mul": lambda: recv * a, "div": lambda: int(recv / a),
                           "rem": lambda: int(math.fmod(recv, a)), "pow": lambda: recv ** a if 0 <= a < 4096 else None}[opn]()
                except (KeyError, ZeroDivisionError, ValueError):
                    val = None
                if m.startswith("checked_"):
                    # None outside the range of the integer type (read off the type of the call: Option<u64> ..)
                    ty_ = str(n.get("ty", ""))
                    inner_ = ty_[len("core::option::Option<"):-1] if ty_.startswith("core::option::Option<") else ""
                    if val is not None and inner_ in INT_BITS:
                        bits_, signed_ = INT_BITS[inner_]
                        lo_, hi_ = (-(1 << (bits_ - 1)), (1 << (bits_ - 1)) - 1) if signed_ else (0, (1 << bits_) - 1)
                        if not (lo_ <= val <= hi_):
                            val = None
                    return NONE if val is None else some(val)
                if val is not None:
                    if m.startswith("saturating_") and str(n.get("ty", "")).startswith("u"):
                        val = max(val, 0)
                    return val
        if isinstance(recv, float) and not n["args"] and m in ("fract", "floor", "ceil", "abs", "sqrt", "trunc", "round", "is_nan", "is_finite"):
            import math
            try:
                return {"fract": lambda: math.copysign(abs(recv) - math.floor(abs(recv)), recv), "floor": lambda: float(math.floor(recv)), "ceil": lambda: float(math.ceil(recv)),
                        "abs": lambda: abs(recv), "sqrt": lambda: math.sqrt(recv), "trunc": lambda: float(math.trunc(recv)), "round": lambda: float(round(recv)),
                        "is_nan": lambda: recv != recv, "is_finite": lambda: math.isfinite(recv)}[m]()
            except (ValueError, OverflowError):
                raise Undecided("float method %s on %r" % (m, recv))
        if isinstance(recv, int) and not isinstance(recv, bool) and not n["args"] and m in ("abs", "saturating_abs", "unsigned_abs", "wrapping_abs", "signum", "is_negative", "is_positive"):
            return {"signum": (recv > 0) - (recv < 0), "is_negative": recv < 0, "is_positive": recv > 0}.get(m, abs(recv))
        if isinstance(recv, int) and not isinstance(recv, bool) and len(n["args"]) == 1 and m in ("min", "max", "pow", "abs_diff"):
            a = self.ev(n["args"][0], env)
            if isinstance(a, int) and not isinstance(a, bool):
                return {"min": min, "max": max, "pow": lambda x, y: x ** y, "abs_diff": lambda x, y: abs(x - y)}[m](recv, a)
        if isinstance(recv, float) and len(n["args"]) == 1 and m in ("powi", "powf", "min", "max"):
            a = self.ev(n["args"][0], env)
            if isinstance(a, (int, float)) and not isinstance(a, bool):
                return {"powi": lambda: recv ** a, "powf": lambda: recv ** a, "min": lambda: min(recv, a), "max": lambda: max(recv, a)}[m]()
        if isinstance(recv, set) and len(n["args"]) == 1 and m == "extend":
            a = self.ev(n["args"][0], env)
            if isinstance(a, (set, list)):
                for x in a:
                    recv.add(x)
                return ()
        if isinstance(recv, set) and not n["args"] and m in ("iter", "into_iter", "len", "is_empty"):
            return sorted(recv, key=repr) if m in ("iter", "into_iter") else (len(recv) if m == "len" else not recv)
        if isinstance(recv, list) and len(n["args"]) == 1 and m == "extend":
            a = self.ev(n["args"][0], env)
            if isinstance(a, (set, list)):
                recv.extend(sorted(a, key=repr) if isinstance(a, set) else a)
                return ()
        if isinstance(recv, list) and len(n["args"]) == 1 and m in ("push", "push_back"):
            recv.append(self.ev(n["args"][0], env))
            return ()
        if isinstance(recv, list) and not n["args"] and m == "collect":
            ty = str(n.get("ty", ""))
            if "HashSet" in ty or "BTreeSet" in ty:
                return set(recv)
            return recv
        if isinstance(recv, set) and len(n["args"]) == 1 and m in ("contains", "insert", "remove"):
            a = self.ev(n["args"][0], env)
            if isinstance(a, (int, str, tuple)):
                if m == "contains":
                    return a in recv
                if m == "insert":
                    new_ = a not in recv
                    recv.add(a)
                    return new_
                had = a in recv
                recv.discard(a)
                return had
        if isinstance(recv, V) and recv.name in ("Option::Some", "Option::None", "Result::Ok", "Result::Err"):
            present = recv.name in ("Option::Some", "Result::Ok")
            if m in ("unwrap_or",) and len(n["args"]) == 1:
                return recv.args[0] if present else self.ev(n["args"][0], env)
            if m in ("unwrap_or_else",) and len(n["args"]) == 1:
                return recv.args[0] if present else self.apply(self.ev(n["args"][0], env), [] if recv.name == "Option::None" else [recv.args[0]])
            if m == "or" and len(n["args"]) == 1 and recv.name.startswith("Option"):
                return recv if present else self.ev(n["args"][0], env)
            if m == "or_else" and len(n["args"]) == 1 and recv.name.startswith("Option"):
                return recv if present else self.apply(self.ev(n["args"][0], env), [])
            if m in ("ok_or", "ok_or_else") and len(n["args"]) == 1 and recv.name.startswith("Option"):
                if present:
                    return V("Result::Ok", [recv.args[0]])
                e = self.ev(n["args"][0], env)
                return V("Result::Err", [self.apply(e, []) if m == "ok_or_else" else e])
            if m == "map" and len(n["args"]) == 1 and recv.name.startswith("Result"):
                return V("Result::Ok", [self.apply(self.ev(n["args"][0], env), [recv.args[0]])]) if present else recv
            if m == "and_then" and len(n["args"]) == 1 and recv.name.startswith("Result"):
                return self.apply(self.ev(n["args"][0], env), [recv.args[0]]) if present else recv
            if m in ("map_or", "map_or_else") and len(n["args"]) == 2 and recv.name.startswith("Result"):
                if present:
                    return self.apply(self.ev(n["args"][1], env), [recv.args[0]])
                d = self.ev(n["args"][0], env)
                return self.apply(d, [recv.args[0]]) if m == "map_or_else" else d
            if m in ("map_err",) and len(n["args"]) == 1 and recv.name.startswith("Result"):
                return recv if present else V("Result::Err", [self.apply(self.ev(n["args"][0], env), [recv.args[0]])])
            if m == "ok" and not n["args"] and recv.name.startswith("Result"):
                return some(recv.args[0]) if present else NONE
            if m == "unwrap_or_default" and not n["args"] and present:
                return recv.args[0]
            if m == "unwrap_or_default" and not n["args"] and not present:
                d_ = default_of_type(n.get("ty"), render(n))
                if not isinstance(d_, Opaque):
                    return d_
        if m in ("map", "and_then", "filter", "is_some_and", "is_none_or", "map_or") and isinstance(recv, V) and recv.name in ("Option::Some", "Option::None"):
            if m == "is_none_or":
                return True if recv == NONE else self._bool(self.apply(self.ev(n["args"][0], env), [recv.args[0]]), n)
            if m == "map_or":
                d = self.ev(n["args"][0], env)
                return d if recv == NONE else self.apply(self.ev(n["args"][1], env), [recv.args[0]])
            f = self.ev(n["args"][0], env)
            if recv == NONE:
                return False if m == "is_some_and" else NONE
            r = self.apply(f, [recv.args[0]])
            if m == "map":
                return some(r)
            if m == "and_then":
                return r
            if m == "is_some_and":
                return self._bool(r, n)
            return recv if self._bool(r, n) else NONE
        if isinstance(recv, (list, ListIter)) and len(n["args"]) == 1 and m in ("any", "all", "map", "filter", "for_each", "find", "position", "filter_map", "take_while", "skip_while", "map_while", "find_map", "flat_map"):
            items = recv if isinstance(recv, list) else recv.items[recv.pos:]
            f = self.ev(n["args"][0], env)
            if isinstance(f, Closure) or (isinstance(f, Opaque) and self.prog is not None and f.what in self.prog.fns):
                if m == "any":
                    for x in items:
                        if self._bool(self.apply(f, [x]), n):
                            return True
                    return False
                if m == "all":
                    for x in items:
                        if not self._bool(self.apply(f, [x]), n):
                            return False
                    return True
                if m == "map":
                    return [self.apply(f, [x]) for x in items]
                if m == "filter":
                    return [x for x in items if self._bool(self.apply(f, [x]), n)]
                if m == "filter_map":
                    out = []
                    for x in items:
                        r = self.apply(f, [x])
                        if isinstance(r, V) and r.name == "Option::Some":
                            out.append(r.args[0])
                        elif r != NONE:
                            raise Undecided("filter_map closure result %r" % (r,))
                    return out
                if m == "for_each":
                    for x in items:
                        self.apply(f, [x])
                    return ()
                if m == "map_while":
                    out = []
                    for x in items:
                        r = self.apply(f, [x])
                        if isinstance(r, V) and r.name == "Option::Some":
                            out.append(r.args[0])
                        else:
                            break
                    return out
                if m == "take_while":
                    out = []
                    for x in items:
                        if not self._bool(self.apply(f, [x]), n):
                            break
                        out.append(x)
                    return out
                if m == "skip_while":
                    out = list(items)
                    while out and self._bool(self.apply(f, [out[0]]), n):
                        out.pop(0)
                    return out
                if m == "find_map":
                    for x in items:
                        r = self.apply(f, [x])
                        if isinstance(r, V) and r.name == "Option::Some":
                            return r
                    return NONE
                if m == "flat_map":
                    out = []
                    for x in items:
                        r = self.apply(f, [x])
                        if isinstance(r, V) and r.name == "Option::Some":
                            out.append(r.args[0])
                        elif isinstance(r, V) and r.name in ("Option::None", "Result::Err"):
                            pass
                        elif isinstance(r, V) and r.name == "Result::Ok":
                            out.append(r.args[0])
                        elif isinstance(r, list):
                            out.extend(r)
                        else:
                            raise Undecided("flat_map closure result %r" % (r,))
                    return out
                if m == "find":
                    for x in items:
                        if self._bool(self.apply(f, [x]), n):
                            return some(x)
                    return NONE
                if m == "position":
                    for i, x in enumerate(items):
                        if self._bool(self.apply(f, [x]), n):
                            return some(i)
                    return NONE
        if isinstance(recv, list) and m == "contains" and len(n["args"]) == 1:
            a = self.ev(n["args"][0], env)
            if not isinstance(a, Opaque) and all(not isinstance(x, Opaque) for x in recv):
                return a in recv
        if isinstance(recv, (list, ListIter)) and m == "nth" and len(n["args"]) == 1:
            items = recv if isinstance(recv, list) else recv.items[recv.pos:]
            i = self.ev(n["args"][0], env)
            if isinstance(i, int) and not isinstance(i, bool):
                return some(items[i]) if 0 <= i < len(items) else NONE
        if isinstance(recv, list) and m == "get" and len(n["args"]) == 1:
            i = self.ev(n["args"][0], env)
            if isinstance(i, int):
                return some(recv[i]) if 0 <= i < len(recv) else NONE
        if isinstance(recv, (list, ListIter)) and len(n["args"]) == 2 and m in ("fold", "try_fold"):
            items = recv if isinstance(recv, list) else recv.items[recv.pos:]
            acc = self.ev(n["args"][0], env)
            f = self.ev(n["args"][1], env)
            for x in items:
                acc = self.apply(f, [acc, x])
                if m == "try_fold":
                    if isinstance(acc, V) and acc.name in ("Option::Some", "Result::Ok", "ControlFlow::Continue"):
                        acc = acc.args[0]
                    else:
                        return acc
            return acc if m == "fold" else some(acc)
        if isinstance(recv, (list, ListIter)) and not n["args"] and m in ("next_back", "last") and not (isinstance(recv, list) and m == "last" and False):
            items = recv if isinstance(recv, list) else recv.items[recv.pos:]
            if m == "next_back" or isinstance(recv, ListIter):
                return some(items[-1]) if items else NONE
        if isinstance(recv, list) and not n["args"] and m == "next" and n["recv"]["k"] in ("MCall", "Call"):
            # the first element of a temporary iterator (`x.iter().next()`)
            return some(recv[0]) if recv else NONE
        if isinstance(recv, list) and len(n["args"]) == 1 and m in ("remove", "swap_remove") and "Vec" in str(n.get("callee", "")):
            i_ = self.ev(n["args"][0], env)
            if isinstance(i_, int) and 0 <= i_ < len(recv):
                return recv.pop(i_)
            raise Undecided("Vec::remove out of range (a panic in the analysed code)")
        if isinstance(recv, list) and len(n["args"]) == 2 and m == "insert" and "Vec" in str(n.get("callee", "")):
            i_, v_ = self.ev(n["args"][0], env), self.ev(n["args"][1], env)
            if isinstance(i_, int) and 0 <= i_ <= len(recv):
                recv.insert(i_, v_)
                return ()
        if isinstance(recv, list) and len(n["args"]) == 1 and m in ("sort_by", "sort_unstable_by", "sort_by_key", "sort_by_cached_key"):
            import functools
            f = self.ev(n["args"][0], env)
            if m in ("sort_by", "sort_unstable_by"):
                def cmp(a_, b_):
                    r = self.apply(f, [a_, b_])
                    if isinstance(r, V) and r.name.endswith(("Ordering::Less", "Ordering::Equal", "Ordering::Greater")):
                        return {"Less": -1, "Equal": 0, "Greater": 1}[r.name.rsplit("::", 1)[-1]]
                    raise Undecided("comparator result %r" % (r,))
                recv.sort(key=functools.cmp_to_key(cmp))
            else:
                keys = [self.apply(f, [x]) for x in recv]
                if any(isinstance(k_, Opaque) for k_ in keys):
                    raise Undecided("opaque sort key")
                order_ = sorted(range(len(recv)), key=lambda i_: keys[i_])
                recv[:] = [recv[i_] for i_ in order_]
            return ()
        if isinstance(recv, list) and not n["args"] and m in ("sort", "sort_unstable"):
            recv.sort()
            return ()
        if m == "total_cmp" and len(n["args"]) == 1 and isinstance(recv, float):
            b_ = self.ev(n["args"][0], env)
            if isinstance(b_, float):
                # IEEE 754 totalOrder: -NaN < -inf < .. < -0.0 < +0.0 < .. < +inf < +NaN (not the numeric comparison)
                import struct

                def key(x):
                    bits = struct.unpack("<q", struct.pack("<d", x))[0]
                    return bits ^ ((bits >> 63) & 0x7FFFFFFFFFFFFFFF)
                ka, kb = key(recv), key(b_)
                return V("Ordering::Less" if ka < kb else ("Ordering::Greater" if ka > kb else "Ordering::Equal"))
        if m == "partial_cmp" and len(n["args"]) == 1 and isinstance(recv, float):
            b_ = self.ev(n["args"][0], env)
            if isinstance(b_, float) and (recv != recv or b_ != b_):
                return NONE         # NaN is unordered
        if m in ("cmp", "partial_cmp") and len(n["args"]) == 1 and isinstance(recv, PathStr):
            o_ = self.ev(n["args"][0], env)
            if isinstance(o_, str):
                a_, b_ = recv.comps(), PathStr(o_).comps()
                r_ = V("Ordering::" + ("Less" if a_ < b_ else "Greater" if a_ > b_ else "Equal"))
                return r_ if m == "cmp" else some(r_)
        if m in ("cmp", "partial_cmp") and len(n["args"]) == 1 and isinstance(recv, (int, float, str)) and not isinstance(recv, bool):
            b_ = self.ev(n["args"][0], env)
            if type(b_) == type(recv) or (isinstance(b_, (int, float)) and isinstance(recv, (int, float)) and not isinstance(b_, bool)):
                o = V("Ordering::Less" if recv < b_ else ("Ordering::Greater" if recv > b_ else "Ordering::Equal"))
                return o if m == "cmp" else some(o)
        if isinstance(recv, V) and recv.name.endswith(("Ordering::Less", "Ordering::Equal", "Ordering::Greater")):
            nm = recv.name.rsplit("::", 1)[-1]
            if m == "reverse" and not n["args"]:
                return V("Ordering::" + {"Less": "Greater", "Greater": "Less", "Equal": "Equal"}[nm])
            if m == "then" and len(n["args"]) == 1:
                return recv if nm != "Equal" else self.ev(n["args"][0], env)
            if m == "then_with" and len(n["args"]) == 1:
                return recv if nm != "Equal" else self.apply(self.ev(n["args"][0], env), [])
            if m in ("is_eq", "is_ne", "is_lt", "is_gt", "is_le", "is_ge") and not n["args"]:
                return {"is_eq": nm == "Equal", "is_ne": nm != "Equal", "is_lt": nm == "Less", "is_gt": nm == "Greater", "is_le": nm != "Greater", "is_ge": nm != "Less"}[m]
        if isinstance(recv, list) and len(n["args"]) == 1 and m in ("truncate", "drain", "split_off", "resize"):
            k_ = self.ev(n["args"][0], env)
            if m == "truncate" and isinstance(k_, int) and not isinstance(k_, bool):
                del recv[k_:]
                return ()
            if m == "drain" and isinstance(k_, tuple) and len(k_) == 4 and k_[0] in ("range", "slice"):
                lo = 0 if k_[1] is None else k_[1]
                hi = len(recv) if k_[2] is None else (k_[2] + 1 if k_[3] else k_[2])
                if isinstance(lo, int) and isinstance(hi, int) and 0 <= lo <= hi <= len(recv):
                    out_ = recv[lo:hi]
                    del recv[lo:hi]
                    return out_
            if m == "split_off" and isinstance(k_, int) and not isinstance(k_, bool) and 0 <= k_ <= len(recv):
                out_ = recv[k_:]
                del recv[k_:]
                return out_
        if isinstance(recv, list) and len(n["args"]) == 1 and m in ("take", "skip", "step_by"):
            k_ = self.ev(n["args"][0], env)
            if isinstance(k_, int) and not isinstance(k_, bool):
                return recv[:k_] if m == "take" else (recv[k_:] if m == "skip" else recv[::max(k_, 1)])
        if isinstance(recv, list) and not n["args"] and m == "clear":
            del recv[:]
            return ()
        if isinstance(recv, list) and not n["args"] and m == "pop":
            return some(recv.pop()) if recv else NONE
        if isinstance(recv, list) and not n["args"] and m in ("first_mut", "last_mut") and recv and isinstance(recv[0 if m == "first_mut" else -1], (bool, int, float, str)):
            return some(ElemRef(recv, 0 if m == "first_mut" else len(recv) - 1))
        if isinstance(recv, list) and not n["args"] and m in ("first", "last", "first_mut", "last_mut"):
            return (some(recv[0] if m.startswith("first") else recv[-1])) if recv else NONE
        if isinstance(recv, list) and not n["args"] and m in ("first", "last"):
            return (some(recv[0] if m == "first" else recv[-1])) if recv else NONE
        if isinstance(recv, (list, ListIter)) and not n["args"]:
            items = recv if isinstance(recv, list) else recv.items[recv.pos:]
            if m == "iter_mut" and isinstance(recv, list) and recv and all(isinstance(x, (bool, int, float, str)) or isinstance(x, V) for x in recv):
                return [ElemRef(recv, i) for i in range(len(recv))]        # `&mut` to each plain element: writes reach the list
            if m in ("as_slice", "as_mut_slice", "to_vec", "as_ref") and isinstance(recv, list):
                return recv
            if m in ("iter", "into_iter", "iter_mut", "by_ref", "cloned", "copied"):
                return list(items)
            if m == "enumerate":
                return [(i, x) for i, x in enumerate(items)]
            if m == "len" or m == "count":
                return len(items)
            if m in ("min", "max") and all(isinstance(x, (int, float)) and not isinstance(x, bool) for x in items):
                return some(min(items) if m == "min" else max(items)) if items else NONE
            if m in ("sum", "product") and all(isinstance(x, (int, float)) and not isinstance(x, bool) for x in items):
                acc = (0.0 if "f64" in str(n.get("ty", "")) or "f32" in str(n.get("ty", "")) else 0) if m == "sum" else 1
                for x in items:
                    acc = acc + x if m == "sum" else acc * x
                return acc
            if m == "flatten":
                out = []
                for x in items:
                    if isinstance(x, V) and x.name in ("Option::Some", "Result::Ok"):
                        out.append(x.args[0])
                    elif isinstance(x, V) and x.name in ("Option::None", "Result::Err"):
                        pass
                    elif isinstance(x, list):
                        out.extend(x)
                    else:
                        raise Undecided("flatten of %r" % (x,))
                return out
            if m == "is_empty":
                return len(items) == 0
            if m == "rev":
                return list(reversed(items))
            if m == "next" and isinstance(recv, ListIter):
                return recv.next()
        if isinstance(recv, tuple) and recv and recv[0] == "range" and not n["args"] and m in ("into_iter", "iter"):
            return list(range(recv[1], recv[2] + (1 if recv[3] else 0)))
        if m == "contains" and len(n["args"]) == 1 and isinstance(recv, tuple) and recv and recv[0] == "range":
            x = self.ev(n["args"][0], env)
            return recv[1] <= x and (x <= recv[2] if recv[3] else x < recv[2])
        argv = None
        if self.call is not None:
            argv = [self.ev(a, env) for a in n["args"]]
            r = self.call(n, recv, argv, self, env)
            if r is not None:
                return r[0]
        if self.prog is not None:
            if argv is None:
                argv = [self.ev(a, env) for a in n["args"]]
            r = self.crate_call(n, [recv] + argv)
            if r is not None:
                return r[0]
        if self.effect is not None:
            r = self.effect(n, self, env)
            if r is not None:
                return r[0]
        raise Undecided("method %s on %r (%s)" % (m, recv, render(n)[:80]))

    def format_macro(self, n, env):
        """value of a `format!(..)` expansion whose arguments evaluate to text / numbers (only `{}` placeholders)"""
        from hirq import fmt_templates, walk
        ts = fmt_templates(n)
        if len(ts) != 1 or "{:" in ts[0][0]:
            return None
        tup = None
        for x in walk(n):
            if x["k"] == "Let" and x.get("init") is not None and x["init"]["k"] == "Tup":
                tup = x["init"]
                break
        vals = [self.ev(e, env) for e in tup["es"]] if tup is not None else []
        # a value with a textual stand-in (a tagged Variant of a scenario) is displayed as that text
        vals = [v["__variant"] if isinstance(v, dict) and "__variant" in v else (v["string_value"] if isinstance(v, dict) and isinstance(v.get("string_value"), str) and "value_type" in v else v) for v in vals]
        if not all(isinstance(v, (str, int, float)) and not isinstance(v, bool) for v in vals):
            return None
        out, i = "", 0
        parts = ts[0][0].split("{}")
        if len(parts) - 1 != len(vals):
            return None
        for k, part in enumerate(parts):
            out += part
            if k < len(vals):
                out += rust_float_str(vals[k]) if isinstance(vals[k], float) else str(vals[k])
        return out

    def fcall(self, n, env):
        if str(n.get("callee", "")).endswith("hint::must_use") and len(n["args"]) == 1:
            return self.ev(n["args"][0], env)
        if str(n.get("mac", "")) == "vec" and not str(n.get("callee", "")).endswith("from_elem"):
            # vec![a, b, ..]: the array literal inside the expansion, whatever allocation idiom the standard library uses
            from hirq import walk_exprs as _we
            arrs = [y for y in _we(n) if y["k"] == "Array"]
            if arrs:
                return [self.ev(e, env) for e in arrs[0]["es"]]
            if str(n.get("callee", "")).endswith("Vec::new"):
                return []
        cal = str(n.get("callee", ""))
        if cal.endswith("IntoIterator::into_iter") and len(n["args"]) == 1:
            v = self.ev(n["args"][0], env)
            if isinstance(v, tuple) and v and v[0] == "range":
                v = list(range(v[1], v[2] + (1 if v[3] else 0)))
            if isinstance(v, list):
                return ListIter(v)
            if isinstance(v, ListIter):
                return v
            raise Undecided("iteration over %r" % (v,))
        if cal.endswith("Iterator::next") and len(n["args"]) == 1:
            v = self.ev(n["args"][0], env)
            if isinstance(v, ListIter):
                return v.next()
            raise Undecided("next on %r" % (v,))
        if cal.endswith("Try::branch") and len(n["args"]) == 1:
            v = self.ev(n["args"][0], env)
            if isinstance(v, V) and v.name in ("Result::Ok", "Option::Some"):
                return V("ControlFlow::Continue", [v.args[0] if v.args else ()])
            if isinstance(v, V) and v.name in ("Result::Err", "Option::None"):
                return V("ControlFlow::Break", [v])
            raise Undecided("`?` on %r" % (v,))
        if cal.endswith("FromResidual::from_residual") and len(n["args"]) == 1:
            return self.ev(n["args"][0], env)
        if n.get("mac") == "format" and str(n.get("callee", "")).endswith("fmt::format"):
            v = self.format_macro(n, env)
            if v is not None:
                return v
        if str(n.get("callee", "")).endswith("RangeInclusive::new"):
            a, b = [self.ev(x, env) for x in n["args"]]
            return ("range", a, b, True)
        if n.get("exp") and not str(n.get("mac", "")).startswith("desugar:") and self.effect is not None:
            r = self.effect(n, self, env)
            if r is not None:
                return r[0]
        if n.get("ctor"):
            return V(vname(n["callee"]), [self.ev(a, env) for a in n["args"]])
        if short(n.get("callee", ""), 2) in ("String::new", "String::with_capacity"):
            return ""
        if short(n.get("callee", ""), 2) in ("HashSet::new", "BTreeSet::new", "HashSet::with_capacity", "HashSet::default"):
            return set()
        if short(n.get("callee", ""), 2) in ("BTreeMap::new", "BTreeMap::default"):
            return BMap()
        if short(n.get("callee", ""), 2) in ("HashMap::new", "HashMap::with_capacity", "HashMap::default"):
            return HMap()
        if short(n.get("callee", ""), 2) in ("Vec::new", "Vec::with_capacity", "VecDeque::new"):
            return []
        if len(n["args"]) == 1 and (str(n.get("callee", "")).endswith("From<&str>>::from") or short(n.get("callee", ""), 2) in ("String::from", "From::from", "ToOwned::to_owned", "ToString::to_string", "PathBuf::from")):
            a = self.ev(n["args"][0], env)
            if isinstance(a, str):
                return a
            if short(n.get("callee", ""), 2) == "From::from" and "Box<" in str(n.get("ty", "")) and not isinstance(a, Opaque):
                return a        # Box::from(x): the box is its content
        if str(n.get("callee", "")).endswith(("iter::once", "once::once", "sources::once::once")) and len(n["args"]) == 1:
            return [self.ev(n["args"][0], env)]
        if str(n.get("callee", "")).endswith("path::Path::new") and len(n["args"]) == 1:
            a_ = self.ev(n["args"][0], env)
            if isinstance(a_, str):
                return PathStr(a_)
        if str(n.get("callee", "")).endswith("successors::successors") and len(n["args"]) == 2:
            cur, f_ = self.ev(n["args"][0], env), self.ev(n["args"][1], env)
            out = []
            while isinstance(cur, V) and cur.name == "Option::Some":
                out.append(cur.args[0])
                if len(out) > 500:
                    raise Undecided("successors does not end")
                cur = self.apply(f_, [cur.args[0]])
            if cur == NONE:
                return out
            raise Undecided("successors over %r" % (cur,))
        if str(n.get("callee", "")).endswith(("iter::empty", "empty::empty")) and not n["args"]:
            return []
        if str(n.get("callee", "")).endswith(("mem::drop", "mem::forget")) and len(n["args"]) == 1:
            self.ev(n["args"][0], env)
            return ()
        if str(n.get("callee", "")).endswith(("mem::take", "mem::replace")) and n["args"]:
            # std::mem::take(&mut place) / replace(&mut place, v): the place gets the default / v, the old value returns
            r = n["args"][0]
            while r["k"] in ("Ref",) or (r["k"] == "Un" and r["op"] == "*"):
                r = r["e"]
            take = str(n["callee"]).endswith("mem::take")
            newv = default_of_type(str(r.get("ty", "")), render(r)) if take else self.ev(n["args"][1], env)
            if not (take and isinstance(newv, Opaque)):
                if r["k"] == "Path" and r.get("rk") == "Local" and r["res"] in env:
                    old_ = env[r["res"]]
                    env[r["res"]] = newv
                    return old_
                if r["k"] == "Field":
                    base = self.ev(r["e"], env)
                    if isinstance(base, dict) and r["name"] in base:
                        old_ = base[r["name"]]
                        base[r["name"]] = newv
                        return old_
        if len(n["args"]) == 1 and str(n.get("callee", "")).rsplit("::", 1)[-1] in ("from_le_bytes", "from_be_bytes", "from_ne_bytes"):
            a = self.ev(n["args"][0], env)
            if isinstance(a, list) and all(isinstance(x, int) and 0 <= x < 256 for x in a):
                big = str(n["callee"]).endswith("from_be_bytes")
                return int.from_bytes(bytes(a), "big" if big else "little", signed=str(n.get("ty", "")).startswith("i"))
        if len(n["args"]) == 1 and short(n.get("callee", ""), 2) in ("Box::new", "Rc::new", "Arc::new", "Box::from", "Rc::from", "RefCell::new", "Cell::new"):
            return self.ev(n["args"][0], env)
        f = n["f"]
        if f["k"] == "Path" and f.get("rk") == "Local":
            return self.apply(self.ev(f, env), [self.ev(a, env) for a in n["args"]])
        argv = None
        if self.call is not None:
            argv = [self.ev(a, env) for a in n["args"]]
            r = self.call(n, None, argv, self, env)
            if r is not None:
                return r[0]
        if self.prog is not None:
            if argv is None:
                argv = [self.ev(a, env) for a in n["args"]]
            r = self.crate_call(n, argv)
            if r is not None:
                return r[0]
        if self.effect is not None:
            r = self.effect(n, self, env)
            if r is not None:
                return r[0]
        raise Undecided("call %s" % render(n)[:80])

    def crate_call(self, n, args):
        """interpret a call to a function of the analysed crate (bounded depth)"""
        callee = n.get("callee")
        if self.prog is not None and callee and callee not in self.prog.fns and str(callee).endswith("FromStr::from_str"):
            # a trait call `T::from_str(s)`: the implementation is chosen by the type it returns (Result<T, _>)
            ty = str(n.get("ty", ""))
            impls = [k for k in self.prog.fns if k.endswith("FromStr>::from_str") and k.startswith("<") and k[1:].split(" as ")[0] in ty]
            if len(impls) == 1:
                callee = impls[0]
        if self.prog is None or not callee or callee not in self.prog.fns or self.depth > 12:
            return None
        f = self.prog.fns[callee]
        h = self.prog.hir(callee)
        if h is None or "params" not in f or len(f["params"]) != len(args) or not all(p.get("k") == "Bind" for p in f["params"]):
            return None
        env = {p["id"]: a for p, a in zip(f["params"], args)}
        self.depth += 1
        try:
            try:
                return (self.ev(h, env),)
            except _Return as r:
                return (r.v,)
        finally:
            self.depth -= 1

    def run(self, body, env):
        try:
            return self.ev(body, env)
        except _Return as r:
            return r.v


class LazyEnv(dict):
    """environment for evaluating an expression in the middle of a function: a local named in `by_name` takes the given
    value, another single-assignment local is evaluated from its definition on demand (`locs` = hirq.Locals of the
    function), anything else is Opaque(name)"""

    def __init__(self, it, locs, by_name=None, opaque_rest=True):
        dict.__init__(self)
        self.it, self.locs, self.by_name, self.opaque_rest = it, locs, dict(by_name or {}), opaque_rest

    def child(self):
        c = LazyEnv(self.it, self.locs, self.by_name, self.opaque_rest)
        dict.update(c, dict.items(self))
        return c

    @staticmethod
    def _name(key):
        parts = key.split(":")
        return parts[1] if len(parts) > 1 else key

    def __contains__(self, key):
        if dict.__contains__(self, key):
            return True
        try:
            self[key]
            return True
        except KeyError:
            return False

    def __missing__(self, key):
        nm = self._name(key)
        if nm in self.by_name:
            v = self.by_name[nm]
        elif key in self.locs.defs:
            try:
                v = self.it.ev(self.locs.defs[key], self)
            except Undecided:
                if not self.opaque_rest:
                    raise KeyError(key)
                v = Opaque(nm)
        elif self.opaque_rest:
            v = Opaque(nm)
        else:
            raise KeyError(key)
        dict.__setitem__(self, key, v)
        return v


def eval_in(hir, node, by_name, call=None, effect=None, prog=None):
    """evaluate `node` (an expression inside function body `hir`) with the named locals bound as given"""
    from hirq import Locals
    it = Interp(call=call, effect=effect, prog=prog)
    env = LazyEnv(it, Locals(hir), by_name)
    return it.run(node, env)
