"""P — panic-site analysis over MIR: enumeration of panicking constructs, local discharge rules, reviewed table.

Sound relative to the frozen panicking-API table below: a std/3rd-party function that panics internally and is not
listed is not seen.  Discharge rules are computed on every run; what they cannot discharge must be listed, by a
line-number-free key with a reason, in rules/panic_sites.json — otherwise it is reported."""
import json
import os
import re

from mirq import place_str, op_place, op_const, const_val, render_op

HERE = os.path.dirname(os.path.abspath(__file__))

PANIC_CALLS = {
    "core::option::Option::unwrap": "unwrap", "core::option::Option::expect": "expect",
    "core::result::Result::unwrap": "unwrap", "core::result::Result::expect": "expect",
    "core::result::Result::unwrap_err": "unwrap_err", "core::result::Result::expect_err": "expect_err",
    "alloc::string::String::remove": "String::remove", "alloc::vec::Vec::remove": "Vec::remove",
    "alloc::vec::Vec::swap_remove": "Vec::swap_remove", "alloc::vec::Vec::insert": "Vec::insert",
    "alloc::vec::Vec::drain": "Vec::drain", "alloc::vec::Vec::split_off": "Vec::split_off",
    "core::slice::copy_from_slice": "copy_from_slice", "core::str::split_at": "split_at",
    "core::slice::split_at": "split_at",
    "std::io::stdio::_print": "print", "std::process::exit": None,
    "core::panicking::panic": "panic", "core::panicking::panic_fmt": "panic", "core::panicking::panic_display": "panic",
    "core::panicking::unreachable_display": "panic", "core::panicking::assert_failed": "panic",
    "core::panicking::panic_explicit": "panic", "std::rt::begin_panic": "panic", "std::rt::panic_fmt": "panic",
    "core::option::unwrap_failed": "panic", "core::option::expect_failed": "panic",
    "core::result::unwrap_failed": "panic",
    "rand::rng::Rng::random_range": "random_range",
    "core::cell::RefCell::borrow_mut": "borrow_mut", "core::cell::RefCell::borrow": "borrow",
    "core::num::<impl u32>::pow": None,
}
INDEX_RE = re.compile(r"(^|[ <])(core::ops::index::Index(Mut)?(<[^>]*>)?>?::index(_mut)?)$|Index<.*>>::index$|IndexMut<.*>>::index_mut$")


def callee_kind(t):
    for c in (t.get("inst"), t.get("f")):
        if not c:
            continue
        if c in PANIC_CALLS:
            return PANIC_CALLS[c]
        if c.endswith("::index") or c.endswith("::index_mut"):
            if "core::ops::index::Index" in c:
                return "index"
    return None


class Site:
    def __init__(self, fn, bb, kind, desc, sp, term, exp=False, mac=None):
        self.fn, self.bb, self.kind, self.desc, self.sp, self.term = fn, bb, kind, desc, sp, term
        self.exp, self.mac = exp, mac
        self.ordinal = 0
        self.discharged = None   # rule id + note
        self.key = None

    def finish_key(self):
        self.key = "%s|%s|%s|%d" % (self.fn, self.kind, self.desc, self.ordinal)


class Describer:
    """renders the origin of an operand as a source-like expression (local names, callee short names)"""

    def __init__(self, body):
        self.b = body

    def short(self, c):
        c = re.sub(r"<[^<>]*>", "", c or "?")
        c = re.sub(r"<[^<>]*>", "", c)
        segs = [s for s in c.replace(" as ", "::").split("::") if s and not s.startswith("{")]
        return "::".join(segs[-2:]) if len(segs) >= 2 else c

    def place(self, p):
        name = self.b.local_name(p["l"]) or "_%d" % p["l"]
        s = name
        for x in p["pr"]:
            if x == "*":
                continue
            s += x if x.startswith((".", "[", "@")) else "." + x
        return s

    def op(self, o, depth=3):
        if o is None:
            return "?"
        c = op_const(o)
        if c is not None:
            v = const_val(o)
            if v is not None:
                return repr(v)
            if "fn" in c:
                return self.short(c["fn"])
            if "named" in c:
                return self.short(c["named"])
            return c.get("d", "const")[:40]
        p = op_place(o)
        if p is None:
            return "?"
        if p["pr"] and p["pr"] != ["*"]:
            # projection of a temp: describe the base, keep the projection
            base = {"p": {"l": p["l"], "pr": []}}
            if self.b.local_name(p["l"]) is None and depth > 0:
                inner = self.op(base, depth - 1)
                proj = "".join(x if x.startswith((".", "[", "@")) else "" for x in p["pr"])
                return inner + proj
            return self.place(p)
        if self.b.local_name(p["l"]) is not None:
            return self.place(p)
        ds = self.b.defs_of(p["l"])
        if len(ds) != 1 or depth <= 0:
            return self.place(p)
        rv = ds[0][3]
        k = rv.get("k")
        if k == "Use":
            return self.op(rv["o"], depth)
        if k == "Ref":
            return self.op({"p": rv["p"]}, depth)
        if k == "Cast":
            return self.op(rv["o"], depth)
        if k == "Call":
            f = self.short(rv.get("inst") or rv.get("f") or "?")
            return "%s(%s)" % (f, ", ".join(self.op(a, depth - 1) for a in rv["args"]))
        if k == "Bin":
            return "(%s %s %s)" % (self.op(rv["a"], depth - 1), rv["op"], self.op(rv["b"], depth - 1))
        if k == "Discr":
            return "discr(%s)" % self.place(rv["p"])
        if k == "Agg":
            return rv["ak"].split(":")[0]
        return self.place(p)


def enumerate_sites(prog, fns):
    sites = []
    for fn in sorted(fns):
        b = prog.body(fn)
        if b is None:
            continue
        d = Describer(b)
        reach = b.reachable()
        counts = {}
        local = []
        for i, blk in enumerate(b.blocks):
            if i not in reach or blk.get("cleanup"):
                continue
            t = blk["term"]
            if t["k"] == "Assert":
                m = t["msg"]
                if m["k"] == "Other" and ("PointerDereference" in m.get("d", "")):
                    continue    # debug-build UB checks on Box/reference derefs of safe code, not semantic panics
                kind = "assert:" + m["k"] + (":" + m["op"] if "op" in m else "")
                desc = "%s, %s" % (d.op(m.get("a")), d.op(m.get("b"))) if "b" in m else d.op(m.get("a"))
                local.append(Site(fn, i, kind, desc, t["sp"], t, t.get("exp", False), t.get("mac")))
            elif t["k"] == "Call":
                kind = callee_kind(t)
                if kind is None:
                    continue
                if kind == "print":
                    desc = t.get("mac") or "print"
                elif kind == "panic":
                    desc = t.get("mac") or "panic"
                else:
                    desc = ", ".join(d.op(a) for a in t["args"][:2])
                local.append(Site(fn, i, "call:" + kind, desc, t["sp"], t, t.get("exp", False), t.get("mac")))
        for s in local:
            k = (s.kind, s.desc)
            s.ordinal = counts.get(k, 0)
            counts[k] = s.ordinal + 1
            s.finish_key()
        sites.extend(local)
    return sites


# ------------------------------------------------------------------------------------------ discharge rules

GUARD_TRUE = {"is_some": ("Option", True), "is_ok": ("Result", True), "is_none": ("Option", False), "is_err": ("Result", False)}


def _bool_switch_targets(t):
    """(true_target, false_target) of a SwitchInt on a bool"""
    if t["k"] != "Sw":
        return None
    vals = dict((v, bb) for v, bb in t["vals"])
    if 0 in vals:
        return t["else"], vals[0]
    if 1 in vals:
        return vals[1], t["else"]
    return None


def _same_place(a, b):
    return a is not None and b is not None and a["l"] == b["l"] and [x for x in a["pr"] if x != "*"] == [x for x in b["pr"] if x != "*"]


def _root_place(body, o, depth=6):
    """follow copies/refs of temporaries to the named or projected place they stand for"""
    while depth > 0:
        p = op_place(o)
        if p is None:
            return None
        if p["pr"] and p["pr"] != ["*"]:
            return p
        if body.local_name(p["l"]) is not None:
            return p
        ds = body.defs_of(p["l"])
        if len(ds) != 1:
            return p
        rv = ds[0][3]
        if rv.get("k") == "Use":
            o = rv["o"]
        elif rv.get("k") == "Ref":
            o = {"p": rv["p"]}
        else:
            return p
        depth -= 1
    return op_place(o)


def d1_guarded_receiver(body, site):
    """unwrap/expect whose receiver is dominated by the succeeding edge of is_some/is_ok (or the failing edge of
    is_none/is_err) on the same place, incl. `r.is_err()` -> `r.err().unwrap()`"""
    if site.kind not in ("call:unwrap", "call:expect", "call:unwrap_err"):
        return None
    recv = site.term["args"][0]
    target = _root_place(body, recv)
    want = None   # which variant the receiver must be in
    if target is not None and not target["pr"] and body.local_name(target["l"]) is None:
        ds = body.defs_of(target["l"])
        if len(ds) == 1 and ds[0][3].get("k") == "Call":
            c = ds[0][3]
            cal = c.get("inst") or c.get("f") or ""
            if cal.endswith("Result::err") or cal.endswith("Result::ok") or cal.endswith("Option::as_ref") or cal.endswith("Result::as_ref") \
                    or cal.endswith("Option::as_mut") or cal.endswith("Clone>::clone") or cal.endswith("Option::take"):
                inner = _root_place(body, c["args"][0])
                if cal.endswith("Result::err"):
                    want = ("Result", False)
                elif cal.endswith("Result::ok"):
                    want = ("Result", True)
                target = inner
    if target is None:
        return None
    if site.kind == "call:unwrap_err":
        want = ("Result", False)
    for i, t in body.calls():
        cal = t.get("inst") or t.get("f") or ""
        m = cal.rsplit("::", 1)[-1]
        if m not in GUARD_TRUE or not (cal.startswith("core::option::Option::") or cal.startswith("core::result::Result::")):
            continue
        gp = _root_place(body, t["args"][0])
        if not _same_place(gp, target):
            continue
        fam, positive = GUARD_TRUE[m]
        need_positive = True if want is None else want[1]
        # find the switch on the guard's result
        nxt = t.get("t")
        if nxt is None:
            continue
        sw = body.blocks[nxt]["term"]
        # allow a chain of gotos / negation
        hops = 0
        cur = nxt
        negated = False
        while sw["k"] != "Sw" and hops < 3:
            if sw["k"] == "Goto":
                cur = sw["t"]
                sw = body.blocks[cur]["term"]
                hops += 1
            else:
                break
        if sw["k"] != "Sw":
            continue
        # is the switch on (the negation of) the guard's destination?
        sp = op_place(sw["o"])
        if sp is None:
            continue
        if not _same_place(sp, t["dest"]):
            ds = body.defs_of(sp["l"])
            if len(ds) == 1 and ds[0][3].get("k") == "Un" and ds[0][3]["op"] == "Not" and _same_place(op_place(ds[0][3]["a"]), t["dest"]):
                negated = True
            else:
                continue
        tt = _bool_switch_targets(sw)
        if tt is None:
            continue
        true_t, false_t = tt
        if negated:
            true_t, false_t = false_t, true_t
        safe = true_t if positive == need_positive else false_t
        other = false_t if safe == true_t else true_t
        if safe == other:
            continue
        if body.dominates(safe, site.bb) and len(body.pred[safe]) == 1:
            return "D1 guarded by %s() on %s" % (m, place_str(target))
    return None


SAFE_CONST_CALLS = {
    "and_hms_opt": lambda a: len(a) == 3 and a[0] < 24 and a[1] < 60 and a[2] < 60,
    "with_hour": lambda a: len(a) == 1 and a[0] < 24,
    "with_minute": lambda a: len(a) == 1 and a[0] < 60,
    "with_second": lambda a: len(a) == 1 and a[0] < 60,
    "try_days": lambda a: len(a) == 1 and abs(a[0]) < 10 ** 6,
}
REGEX_SAFE_TOKENS = re.compile(r"^(?:\\[dswDSWbB.*+?()\[\]{}|^$\\/-]|\(\?P<\w+>|\(\?i\)|\(\?:|[()|?*+^$.]|\{\d+(?:,\d*)?\}|\[\^?(?:\\.|[^\]\\])+\]|[A-Za-z0-9 %_:/,;=<>!~@#&'\"-])*$")


def regex_literal_ok(s):
    """literal regex accepted by regex-syntax: checked with Python's re on a token subset where both agree"""
    if not REGEX_SAFE_TOKENS.match(s):
        return False
    try:
        re.compile(s)
        return True
    except re.error:
        return False


def d2_valid_constant(body, site):
    if site.kind not in ("call:unwrap", "call:expect"):
        return None
    recv = site.term["args"][0]
    p = op_place(recv)
    if p is None or p["pr"]:
        return None
    ds = body.defs_of(p["l"])
    if len(ds) != 1 or ds[0][3].get("k") != "Call":
        return None
    c = ds[0][3]
    cal = c.get("inst") or c.get("f") or ""
    m = cal.rsplit("::", 1)[-1]
    if cal.endswith("Regex::new"):
        v = const_val(body.trace(c["args"][0])) if c["args"] else None
        if isinstance(v, str) and regex_literal_ok(v):
            return "D2 Regex::new of the valid literal %r" % v
        return None
    if m in SAFE_CONST_CALLS:
        vals = [const_val(a) for a in c["args"][1:]]
        if all(isinstance(v, int) for v in vals) and SAFE_CONST_CALLS[m](vals):
            return "D2 %s with in-range constants %s" % (m, vals)
    return None


def _len_guards(body):
    """facts `len(P) cmp N` established on branch edges: list of (block that is entered only when the fact holds, place, lower bound)"""
    facts = []
    for i, blk in enumerate(body.blocks):
        t = blk["term"]
        if t["k"] != "Sw":
            continue
        sp = op_place(t["o"])
        if sp is None or sp["pr"]:
            continue
        ds = body.defs_of(sp["l"])
        if len(ds) != 1 or ds[0][3].get("k") != "Bin":
            continue
        rv = ds[0][3]
        tt = _bool_switch_targets(t)
        if tt is None:
            continue
        true_t, false_t = tt
        a, b = rv["a"], rv["b"]
        op = rv["op"]

        def len_of(o):
            q = op_place(o)
            if q is None or q["pr"]:
                return None
            d2 = body.defs_of(q["l"])
            if len(d2) != 1:
                return None
            r2 = d2[0][3]
            if r2.get("k") == "Call" and (r2.get("inst") or r2.get("f") or "").rsplit("::", 1)[-1] == "len":
                return _root_place(body, r2["args"][0])
            if r2.get("k") == "Use":
                return len_of(r2["o"])
            # a named local holding a len()
            return None

        la, lb = len_of(a), len_of(b)
        ca, cb = const_val(a), const_val(b)
        # named local `length` = x.len(): follow one more step
        for (lp, cv, flipped) in ((la, cb, False), (lb, ca, True)):
            if lp is None or not isinstance(cv, int):
                continue
            o = op
            if flipped:
                o = {"Lt": "Gt", "Le": "Ge", "Gt": "Lt", "Ge": "Le", "Eq": "Eq", "Ne": "Ne"}.get(op, op)
            # on true edge: len o cv ; on false edge: negation
            if o == "Gt":
                facts.append((true_t, lp, cv + 1))
            elif o == "Ge":
                facts.append((true_t, lp, cv))
            elif o == "Eq":
                facts.append((true_t, lp, cv))
                facts.append((true_t, lp, -cv - 1000))  # marker: exact (unused)
            elif o == "Lt":
                facts.append((false_t, lp, cv))
            elif o == "Le":
                facts.append((false_t, lp, cv + 1))
            elif o == "Ne":
                facts.append((false_t, lp, cv))
    return facts


def d3_bounded_index(body, site):
    """constant index k into a place whose length is bounded below by a dominating len test"""
    if site.kind == "assert:BoundsCheck":
        idx = const_val(site.term["msg"]["b"])
        lenop = site.term["msg"]["a"]
        # len operand: PtrMetadata/Len of place P
        q = op_place(lenop)
        target = None
        if q is not None and not q["pr"]:
            ds = body.defs_of(q["l"])
            if len(ds) == 1:
                rv = ds[0][3]
                if rv.get("k") in ("Other", "Un") or True:
                    # the indexed place is in the statement following the assert: _x = (*P)[idx]
                    pass
        return None
    if site.kind != "call:index":
        return None
    t = site.term
    idx = const_val(body.trace(t["args"][1])) if len(t["args"]) > 1 else None
    if not isinstance(idx, int):
        return None
    target = _root_place(body, t["args"][0])
    if target is None:
        return None
    for blk, lp, lower in _len_guards(body):
        if lower > idx and _same_place(lp, target) and body.dominates(blk, site.bb) and len(body.pred[blk]) == 1:
            return "D3 index %d below the guarded length (>= %d) of %s" % (idx, lower, place_str(target))
    return None


def d4_guarded_sub(body, site):
    """Overflow(Sub, x, c) dominated by the true edge of x > c-1 / x >= c (or x != 0 for c = 1)"""
    if site.kind != "assert:Overflow:Sub":
        return None
    m = site.term["msg"]
    c = const_val(m["b"])
    if not isinstance(c, int):
        return None
    xp = _root_place(body, m["a"])
    if xp is None:
        return None
    for i, blk in enumerate(body.blocks):
        t = blk["term"]
        if t["k"] != "Sw":
            continue
        sp = op_place(t["o"])
        if sp is None or sp["pr"]:
            continue
        ds = body.defs_of(sp["l"])
        if len(ds) != 1 or ds[0][3].get("k") != "Bin":
            continue
        rv = ds[0][3]
        tt = _bool_switch_targets(t)
        if tt is None:
            continue
        true_t, false_t = tt
        for a, b, flip in ((rv["a"], rv["b"], False), (rv["b"], rv["a"], True)):
            ap = _root_place(body, a)
            cv = const_val(b)
            if ap is None or not isinstance(cv, int) or not _same_place(ap, xp):
                continue
            op = rv["op"]
            if flip:
                op = {"Lt": "Gt", "Le": "Ge", "Gt": "Lt", "Ge": "Le"}.get(op, op)
            safe = None
            if op == "Gt" and cv >= c - 1:
                safe = true_t
            elif op == "Ge" and cv >= c:
                safe = true_t
            elif op == "Lt" and cv >= c:
                safe = false_t
            elif op == "Le" and cv >= c - 1:
                safe = false_t
            elif op == "Eq" and cv == 0 and c == 1:
                safe = false_t
            elif op == "Ne" and cv == 0 and c == 1:
                safe = true_t
            if safe is not None and body.dominates(safe, site.bb) and len(body.pred[safe]) == 1:
                return "D4 subtraction of %d guarded by a comparison of %s with %d" % (c, place_str(xp), cv)
    return None


COUNTER_FIELDS = (".found", ".error_count", ".index", ".char_index", ".input_index", ".count")


def d5_counter_increment(body, site):
    if site.kind != "assert:Overflow:Add":
        return None
    m = site.term["msg"]
    c = const_val(m["b"])
    xp = op_place(m["a"])
    if c == 1 and xp is not None and xp["pr"] and xp["pr"][-1] in COUNTER_FIELDS:
        return "D5 +1 on the counter %s (needs more than 2^31 events)" % place_str(xp)
    if c == 1 and xp is not None and not xp["pr"]:
        nm = body.local_name(xp["l"]) or ""
        # loop/iteration counters bounded by a collection: `count`, `i`, `idx`
        ds = body.defs_of(xp["l"])
        return None
    return None


def d8_constant_arithmetic(body, site):
    """overflow check of an operation on two constants (or a shift by a constant below the width) that cannot overflow"""
    if not site.kind.startswith("assert:Overflow:"):
        return None
    m = site.term["msg"]
    a, b = const_val(body.trace(m["a"])), const_val(body.trace(m["b"]))
    op = m["op"]
    if op in ("Shl", "Shr") and isinstance(b, int) and 0 <= b < 32:
        return "D8 shift by the constant %d (< 32)" % b
    # b may itself be a checked constant subtraction (39 - 32)
    if op in ("Shl", "Shr"):
        rb = body.trace(m["b"])
        if isinstance(rb, dict) and rb.get("k") == "Bin" and rb["op"].startswith("Sub"):
            x, y = const_val(rb["a"]), const_val(rb["b"])
            if isinstance(x, int) and isinstance(y, int) and 0 <= x - y < 32:
                return "D8 shift by the constant %d - %d" % (x, y)
        pb = op_place(m["b"])
        if pb is not None and pb["pr"] == [".0"]:
            ds = body.defs_of(pb["l"])
            if len(ds) == 1 and ds[0][3].get("k") == "Bin" and ds[0][3]["op"].startswith("Sub"):
                x, y = const_val(ds[0][3]["a"]), const_val(ds[0][3]["b"])
                if isinstance(x, int) and isinstance(y, int) and 0 <= x - y < 32:
                    return "D8 shift by the constant %d - %d" % (x, y)
    if isinstance(a, int) and isinstance(b, int):
        r = {"Add": a + b, "Sub": a - b, "Mul": a * b}.get(op)
        if r is not None and 0 <= r < 2 ** 31:
            return "D8 constant operands %d %s %d" % (a, op, b)
    if op == "Mul":
        pa = op_place(m["a"])
        if pa is not None and pa["pr"] == [".0"] and isinstance(b, int):
            ds = body.defs_of(pa["l"])
            if len(ds) == 1 and ds[0][3].get("k") == "Bin":
                x, y = const_val(ds[0][3]["a"]), const_val(ds[0][3]["b"])
                if isinstance(x, int) and isinstance(y, int) and x * y * b < 2 ** 31:
                    return "D8 constant product %d * %d * %d" % (x, y, b)
    return None


def d7_macro_glue(body, site):
    """formatting / debug-assert glue produced by std macros"""
    if site.exp and site.mac in ("debug_assert_eq", "debug_assert_ne", "debug_assert"):
        return "D7 debug assertion (not compiled into release builds; asserts an internal invariant)"
    return None


RULES = [d1_guarded_receiver, d2_valid_constant, d3_bounded_index, d4_guarded_sub, d5_counter_increment, d8_constant_arithmetic, d7_macro_glue]


def discharge(prog, sites):
    for s in sites:
        body = prog.body(s.fn)
        for r in RULES:
            try:
                note = r(body, s)
            except Exception as e:  # a discharge rule must never hide a site by crashing
                note = None
            if note:
                s.discharged = note
                break
    return sites


def load_table():
    p = os.path.join(HERE, "panic_sites.json")
    if not os.path.exists(p):
        return {}
    with open(p) as fh:
        return {e["key"]: e for e in json.load(fh)["sites"]}
