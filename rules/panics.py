"""P — panic-site analysis over MIR: enumeration of panicking constructs, local discharge rules, reviewed table.

Sound relative to the frozen panicking-API table below: a std/3rd-party function that panics internally and is not
listed is not seen.  Discharge rules are computed on every run; what they cannot discharge must be listed, by a
line-number-free key with a reason, in rules/panic_sites.json — otherwise it is reported."""
import json
import os
import re

from mirq import place_str, op_place, op_const, const_val, render_op

HERE = os.path.dirname(os.path.abspath(__file__))

PANIC_CALLS = {
    "core::option::Option::unwrap": "unwrap", "core::option::Option::expect": "expect",
    "core::result::Result::unwrap": "unwrap", "core::result::Result::expect": "expect",
    "core::result::Result::unwrap_err": "unwrap_err", "core::result::Result::expect_err": "expect_err",
    "alloc::string::String::remove": "String::remove", "alloc::vec::Vec::remove": "Vec::remove",
    "alloc::vec::Vec::swap_remove": "Vec::swap_remove", "alloc::vec::Vec::insert": "Vec::insert",
    "alloc::vec::Vec::drain": "Vec::drain", "alloc::vec::Vec::split_off": "Vec::split_off",
    "core::slice::copy_from_slice": "copy_from_slice", "core::str::split_at": "split_at",
    "core::slice::split_at": "split_at",
    "std::io::stdio::_print": "print", "std::process::exit": None,
    "core::panicking::panic": "panic", "core::panicking::panic_fmt": "panic", "core::panicking::panic_display": "panic",
    "core::panicking::unreachable_display": "panic", "core::panicking::assert_failed": "panic",
    "core::panicking::panic_explicit": "panic", "std::rt::begin_panic": "panic", "std::rt::panic_fmt": "panic",
    "core::option::unwrap_failed": "panic", "core::option::expect_failed": "panic",
    "core::result::unwrap_failed": "panic",
    "rand::rng::Rng::random_range": "random_range",
    "core::cell::RefCell::borrow_mut": "borrow_mut", "core::cell::RefCell::borrow": "borrow",
    "core::num::<impl u32>::pow": None,
    "core::num::pow": "int::pow", "core::num::abs": "int::abs", "core::num::next_power_of_two": "int::next_power_of_two",
    # integer powers, absolute values and negations of a query-controlled value overflow (a panic in debug builds, a wrapped
    # value in release builds); checked_* / saturating_* / wrapping_* or f64::powf are the total forms
    "core::num::<impl i8>::pow": "int::pow", "core::num::<impl i8>::abs": "int::abs", "core::num::<impl i8>::next_power_of_two": "int::next_power_of_two",
    "core::num::<impl i16>::pow": "int::pow", "core::num::<impl i16>::abs": "int::abs", "core::num::<impl i16>::next_power_of_two": "int::next_power_of_two",
    "core::num::<impl i32>::pow": "int::pow", "core::num::<impl i32>::abs": "int::abs", "core::num::<impl i32>::next_power_of_two": "int::next_power_of_two",
    "core::num::<impl i64>::pow": "int::pow", "core::num::<impl i64>::abs": "int::abs", "core::num::<impl i64>::next_power_of_two": "int::next_power_of_two",
    "core::num::<impl i128>::pow": "int::pow", "core::num::<impl i128>::abs": "int::abs", "core::num::<impl i128>::next_power_of_two": "int::next_power_of_two",
    "core::num::<impl isize>::pow": "int::pow", "core::num::<impl isize>::abs": "int::abs", "core::num::<impl isize>::next_power_of_two": "int::next_power_of_two",
    "core::num::<impl u8>::pow": "int::pow", "core::num::<impl u8>::abs": "int::abs", "core::num::<impl u8>::next_power_of_two": "int::next_power_of_two",
    "core::num::<impl u16>::pow": "int::pow", "core::num::<impl u16>::abs": "int::abs", "core::num::<impl u16>::next_power_of_two": "int::next_power_of_two",
    "core::num::<impl u64>::pow": "int::pow", "core::num::<impl u64>::abs": "int::abs", "core::num::<impl u64>::next_power_of_two": "int::next_power_of_two",
    "core::num::<impl u128>::pow": "int::pow", "core::num::<impl u128>::abs": "int::abs", "core::num::<impl u128>::next_power_of_two": "int::next_power_of_two",
    "core::num::<impl usize>::pow": "int::pow", "core::num::<impl usize>::abs": "int::abs", "core::num::<impl usize>::next_power_of_two": "int::next_power_of_two",

    # documented "Panics" sections of further std APIs reachable from query-controlled values
    "core::time::Duration::from_secs_f64": "Duration::from_secs_f64", "core::time::Duration::from_secs_f32": "Duration::from_secs_f32",
    "core::time::Duration::mul_f64": "Duration::mul_f64", "core::time::Duration::mul_f32": "Duration::mul_f32",
    "core::time::Duration::div_f64": "Duration::div_f64", "core::time::Duration::div_f32": "Duration::div_f32",
    "core::str::<impl str>::split_at": "split_at", "alloc::string::String::insert": "String::insert",
    "alloc::string::String::insert_str": "String::insert_str", "alloc::string::String::truncate": "String::truncate",
    "alloc::string::String::drain": "String::drain", "alloc::string::String::replace_range": "String::replace_range",
    "alloc::string::String::split_off": "String::split_off",
    "core::slice::<impl [T]>::split_at": "split_at", "core::slice::<impl [T]>::copy_from_slice": "copy_from_slice",
    "core::slice::<impl [T]>::chunks": "chunks", "core::slice::<impl [T]>::windows": "windows", "core::slice::<impl [T]>::swap": "swap",
    "core::iter::traits::iterator::Iterator::step_by": "step_by",
    "core::char::from_digit": "from_digit", "core::char::methods::<impl char>::to_digit": "to_digit",
    "core::num::<impl i64>::abs": None, "alloc::vec::Vec::truncate": None,
}
INDEX_RE = re.compile(r"(^|[ <])(core::ops::index::Index(Mut)?(<[^>]*>)?>?::index(_mut)?)$|Index<.*>>::index$|IndexMut<.*>>::index_mut$")


def callee_kind(t):
    for c in (t.get("inst"), t.get("f")):
        if not c:
            continue
        if c in PANIC_CALLS:
            return PANIC_CALLS[c]
        if c.endswith("::index") or c.endswith("::index_mut"):
            if "core::ops::index::Index" in c:
                return "index"
    return None


_ADAPTER = re.compile(r"(?:[A-Za-z_]\w*)?::(clone|as_ref|as_mut|deref|deref_mut|borrow|to_owned|as_deref)\(([^(),]*)\)")
_LOCAL = re.compile(r"(?<![:.\w])[a-z_][a-z0-9_]*\b(?!\s*\(|::)")


def signature(kind, desc):
    """function-, name- and position-independent shape of a site: the kind and the operand expression with local variable
    names and compiler temporaries abstracted (callee names, field names and constants kept).  Used to recognise a reviewed
    site after a behaviour-preserving move (extracted helper, renamed local, renumbered closure)."""
    d = desc
    for _ in range(6):
        d2 = _ADAPTER.sub(lambda m: m.group(2), d)
        if d2 == d:
            break
        d = d2
    d = _LOCAL.sub("$", d)
    d = re.sub(r"\$(\.\d+)+", "$", d)      # positional projections of closure captures / tuples
    return kind + "|" + d


def coarse_signature(sig):
    """kind + outermost callee of the operand (`call:unwrap|::with_hour`), or kind + operand shape when there is no call"""
    kind, d = sig.split("|", 1)
    m = re.match(r"\s*([A-Za-z_:$][\w:$<>]*)\(", d)
    return kind + "|" + (m.group(1) if m else re.sub(r"\d+", "#", d))


def key_signature(key):
    fn, kind, rest = key.split("|", 2)
    desc = rest.rsplit("|", 1)[0]
    return signature(kind, desc)


class Site:
    def __init__(self, fn, bb, kind, desc, sp, term, exp=False, mac=None):
        self.fn, self.bb, self.kind, self.desc, self.sp, self.term = fn, bb, kind, desc, sp, term
        self.exp, self.mac = exp, mac
        self.ordinal = 0
        self.discharged = None   # rule id + note
        self.key = None

    def finish_key(self):
        self.key = "%s|%s|%s|%d" % (self.fn, self.kind, self.desc, self.ordinal)
        self.sig = signature(self.kind, self.desc)


class Describer:
    """renders the origin of an operand as a source-like expression (local names, callee short names)"""

    def __init__(self, body):
        self.b = body

    def short(self, c):
        c = re.sub(r"<[^<>]*>", "", c or "?")
        c = re.sub(r"<[^<>]*>", "", c)
        segs = [s for s in c.replace(" as ", "::").split("::") if s and not s.startswith("{")]
        return "::".join(segs[-2:]) if len(segs) >= 2 else c

    def place(self, p):
        name = self.b.local_name(p["l"]) or "_%d" % p["l"]
        s = name
        for x in p["pr"]:
            if x == "*":
                continue
            s += x if x.startswith((".", "[", "@")) else "." + x
        return s

    def op(self, o, depth=3):
        if o is None:
            return "?"
        c = op_const(o)
        if c is not None:
            v = const_val(o)
            if v is not None:
                return repr(v)
            if "fn" in c:
                return self.short(c["fn"])
            if "named" in c:
                return self.short(c["named"])
            return c.get("d", "const")[:40]
        p = op_place(o)
        if p is None:
            return "?"
        if p["pr"] and p["pr"] != ["*"]:
            # projection of a temp: describe the base, keep the projection
            base = {"p": {"l": p["l"], "pr": []}}
            if self.b.local_name(p["l"]) is None and depth > 0:
                inner = self.op(base, depth - 1)
                proj = "".join(x if x.startswith((".", "[", "@")) else "" for x in p["pr"])
                return inner + proj
            return self.place(p)
        if self.b.local_name(p["l"]) is not None:
            return self.place(p)
        ds = self.b.defs_of(p["l"])
        if len(ds) != 1 or depth <= 0:
            return self.place(p)
        rv = ds[0][3]
        k = rv.get("k")
        if k == "Use":
            return self.op(rv["o"], depth)
        if k == "Ref":
            return self.op({"p": rv["p"]}, depth)
        if k == "Cast":
            return self.op(rv["o"], depth)
        if k == "Call":
            f = self.short(rv.get("inst") or rv.get("f") or "?")
            return "%s(%s)" % (f, ", ".join(self.op(a, depth - 1) for a in rv["args"]))
        if k == "Bin":
            return "(%s %s %s)" % (self.op(rv["a"], depth - 1), rv["op"], self.op(rv["b"], depth - 1))
        if k == "Discr":
            return "discr(%s)" % self.place(rv["p"])
        if k == "Agg":
            return rv["ak"].split(":")[0]
        return self.place(p)


def enumerate_sites(prog, fns):
    sites = []
    for fn in sorted(fns):
        b = prog.body(fn)
        if b is None:
            continue
        d = Describer(b)
        reach = b.reachable()
        counts = {}
        local = []
        for i, blk in enumerate(b.blocks):
            if i not in reach or blk.get("cleanup"):
                continue
            t = blk["term"]
            if t["k"] == "Assert":
                m = t["msg"]
                if m["k"] == "Other" and ("PointerDereference" in m.get("d", "")):
                    continue    # debug-build UB checks on Box/reference derefs of safe code, not semantic panics
                kind = "assert:" + m["k"] + (":" + m["op"] if "op" in m else "")
                desc = "%s, %s" % (d.op(m.get("a")), d.op(m.get("b"))) if "b" in m else d.op(m.get("a"))
                local.append(Site(fn, i, kind, desc, t["sp"], t, t.get("exp", False), t.get("mac")))
            elif t["k"] == "Call":
                kind = callee_kind(t)
                if kind is None:
                    continue
                if kind == "print":
                    desc = t.get("mac") or "print"
                elif kind == "panic":
                    desc = t.get("mac") or "panic"
                else:
                    desc = ", ".join(d.op(a) for a in t["args"][:2])
                local.append(Site(fn, i, "call:" + kind, desc, t["sp"], t, t.get("exp", False), t.get("mac")))
        for s in local:
            k = (s.kind, s.desc)
            s.ordinal = counts.get(k, 0)
            counts[k] = s.ordinal + 1
            s.finish_key()
        sites.extend(local)
    return sites


# ------------------------------------------------------------------------------------------ discharge rules

GUARD_TRUE = {"is_some": ("Option", True), "is_ok": ("Result", True), "is_none": ("Option", False), "is_err": ("Result", False)}


def _bool_switch_targets(t):
    """(true_target, false_target) of a SwitchInt on a bool"""
    if t["k"] != "Sw":
        return None
    vals = dict((v, bb) for v, bb in t["vals"])
    if 0 in vals:
        return t["else"], vals[0]
    if 1 in vals:
        return vals[1], t["else"]
    return None


def _same_place(a, b):
    return a is not None and b is not None and a["l"] == b["l"] and [x for x in a["pr"] if x != "*"] == [x for x in b["pr"] if x != "*"]


def _root_place(body, o, depth=6):
    """follow copies/refs of temporaries to the named or projected place they stand for"""
    while depth > 0:
        p = op_place(o)
        if p is None:
            return None
        if p["pr"] and p["pr"] != ["*"]:
            return p
        if body.local_name(p["l"]) is not None:
            # a pattern binding `x = copy (scrutinee as Variant).0` stands for that payload place
            ds = body.defs_of(p["l"])
            if len(ds) == 1 and ds[0][3].get("k") == "Use" and "p" in ds[0][3]["o"] and \
                    any(x.startswith("@") for x in ds[0][3]["o"]["p"]["pr"]):
                return ds[0][3]["o"]["p"]
            if len(ds) == 1 and ds[0][3].get("k") == "Ref" and p["pr"] == ["*"] and \
                    any(x.startswith("@") for x in ds[0][3]["p"]["pr"]):
                return ds[0][3]["p"]      # `ref x` binding of a match guard, read through `*x`
            return p
        ds = body.defs_of(p["l"])
        if len(ds) != 1:
            return p
        rv = ds[0][3]
        if rv.get("k") == "Use":
            o = rv["o"]
        elif rv.get("k") == "Ref":
            o = {"p": rv["p"]}
        elif rv.get("k") == "Call" and (rv.get("f") or "").rsplit("::", 1)[-1] in ("deref", "deref_mut", "as_ref", "as_slice", "as_mut", "borrow") \
                and len(rv["args"]) == 1:
            o = rv["args"][0]   # a view of the same collection
        else:
            return p
        depth -= 1
    return op_place(o)


def d1_guarded_receiver(body, site):
    """unwrap/expect whose receiver is dominated by the succeeding edge of is_some/is_ok (or the failing edge of
    is_none/is_err) on the same place, incl. `r.is_err()` -> `r.err().unwrap()`"""
    if site.kind not in ("call:unwrap", "call:expect", "call:unwrap_err"):
        return None
    recv = site.term["args"][0]
    target = _root_place(body, recv)
    want = None   # which variant the receiver must be in
    if target is not None and not target["pr"] and body.local_name(target["l"]) is None:
        ds = body.defs_of(target["l"])
        if len(ds) == 1 and ds[0][3].get("k") == "Call":
            c = ds[0][3]
            cal = c.get("inst") or c.get("f") or ""
            if cal.endswith("Result::err") or cal.endswith("Result::ok") or cal.endswith("Option::as_ref") or cal.endswith("Result::as_ref") \
                    or cal.endswith("Option::as_mut") or cal.endswith("Clone>::clone") or cal.endswith("Option::take"):
                inner = _root_place(body, c["args"][0])
                if cal.endswith("Result::err"):
                    want = ("Result", False)
                elif cal.endswith("Result::ok"):
                    want = ("Result", True)
                target = inner
    if target is None:
        return None
    if site.kind == "call:unwrap_err":
        want = ("Result", False)
    for i, t in body.calls():
        cal = t.get("inst") or t.get("f") or ""
        m = cal.rsplit("::", 1)[-1]
        if m not in GUARD_TRUE or not (cal.startswith("core::option::Option::") or cal.startswith("core::result::Result::")):
            continue
        gp = _root_place(body, t["args"][0])
        if not _same_place(gp, target):
            continue
        fam, positive = GUARD_TRUE[m]
        need_positive = True if want is None else want[1]
        # find the switch on the guard's result
        nxt = t.get("t")
        if nxt is None:
            continue
        sw = body.blocks[nxt]["term"]
        # allow a chain of gotos / negation
        hops = 0
        cur = nxt
        negated = False
        while sw["k"] != "Sw" and hops < 3:
            if sw["k"] == "Goto":
                cur = sw["t"]
                sw = body.blocks[cur]["term"]
                hops += 1
            else:
                break
        if sw["k"] != "Sw":
            continue
        # is the switch on (the negation of) the guard's destination?
        sp = op_place(sw["o"])
        if sp is None:
            continue
        if not _same_place(sp, t["dest"]):
            ds = body.defs_of(sp["l"])
            if len(ds) == 1 and ds[0][3].get("k") == "Un" and ds[0][3]["op"] == "Not" and _same_place(op_place(ds[0][3]["a"]), t["dest"]):
                negated = True
            else:
                continue
        tt = _bool_switch_targets(sw)
        if tt is None:
            continue
        true_t, false_t = tt
        if negated:
            true_t, false_t = false_t, true_t
        safe = true_t if positive == need_positive else false_t
        other = false_t if safe == true_t else true_t
        if safe == other:
            continue
        if body.dominates(safe, site.bb) and len(body.pred[safe]) == 1:
            return "D1 guarded by %s() on %s" % (m, place_str(target))
    return None


SAFE_CONST_CALLS = {
    "and_hms_opt": lambda a: len(a) == 3 and a[0] < 24 and a[1] < 60 and a[2] < 60,
    "with_hour": lambda a: len(a) == 1 and a[0] < 24,
    "with_minute": lambda a: len(a) == 1 and a[0] < 60,
    "with_second": lambda a: len(a) == 1 and a[0] < 60,
    "try_days": lambda a: len(a) == 1 and abs(a[0]) < 10 ** 6,
}
REGEX_SAFE_TOKENS = re.compile(r"^(?:\\[dswDSWbB.*+?()\[\]{}|^$\\/-]|\(\?P<\w+>|\(\?i\)|\(\?:|[()|?*+^$.]|\{\d+(?:,\d*)?\}|\[\^?(?:\\.|[^\]\\])+\]|[A-Za-z0-9 %_:/,;=<>!~@#&'\"-])*$")


def regex_literal_ok(s):
    """literal regex accepted by regex-syntax: checked with Python's re on a token subset where both agree"""
    if not REGEX_SAFE_TOKENS.match(s):
        return False
    try:
        re.compile(s)
        return True
    except re.error:
        return False


def d2_valid_constant(body, site):
    if site.kind not in ("call:unwrap", "call:expect"):
        return None
    recv = site.term["args"][0]
    p = op_place(recv)
    if p is None or p["pr"]:
        return None
    ds = body.defs_of(p["l"])
    if len(ds) != 1 or ds[0][3].get("k") != "Call":
        return None
    c = ds[0][3]
    cal = c.get("inst") or c.get("f") or ""
    m = cal.rsplit("::", 1)[-1]
    if cal.endswith("Regex::new"):
        v = const_val(body.trace(c["args"][0])) if c["args"] else None
        if isinstance(v, str) and regex_literal_ok(v):
            return "D2 Regex::new of the valid literal %r" % v
        return None
    if m in SAFE_CONST_CALLS:
        vals = [const_val(a) for a in (c["args"] if m == "try_days" else c["args"][1:])]
        if all(isinstance(v, int) for v in vals) and SAFE_CONST_CALLS[m](vals):
            return "D2 %s with in-range constants %s" % (m, vals)
    return None


def _len_guards(body):
    """facts `len(P) cmp N` established on branch edges: list of (block that is entered only when the fact holds, place, lower bound)"""
    facts = []
    for i, blk in enumerate(body.blocks):
        t = blk["term"]
        if t["k"] != "Sw":
            continue
        sp = op_place(t["o"])
        if sp is None or sp["pr"]:
            continue
        ds = body.defs_of(sp["l"])
        if len(ds) != 1 or ds[0][3].get("k") != "Bin":
            continue
        rv = ds[0][3]
        tt = _bool_switch_targets(t)
        if tt is None:
            continue
        true_t, false_t = tt
        a, b = rv["a"], rv["b"]
        op = rv["op"]

        def len_of(o):
            q = op_place(o)
            if q is None or q["pr"]:
                return None
            d2 = body.defs_of(q["l"])
            if len(d2) != 1:
                return None
            r2 = d2[0][3]
            if r2.get("k") == "Call" and (r2.get("inst") or r2.get("f") or "").rsplit("::", 1)[-1] == "len":
                return _root_place(body, r2["args"][0])
            if r2.get("k") == "Use":
                return len_of(r2["o"])
            # a named local holding a len()
            return None

        la, lb = len_of(a), len_of(b)
        ca, cb = const_val(a), const_val(b)
        # named local `length` = x.len(): follow one more step
        for (lp, cv, flipped) in ((la, cb, False), (lb, ca, True)):
            if lp is None or not isinstance(cv, int):
                continue
            o = op
            if flipped:
                o = {"Lt": "Gt", "Le": "Ge", "Gt": "Lt", "Ge": "Le", "Eq": "Eq", "Ne": "Ne"}.get(op, op)
            # on true edge: len o cv ; on false edge: negation
            if o == "Gt":
                facts.append((true_t, lp, cv + 1))
            elif o == "Ge":
                facts.append((true_t, lp, cv))
            elif o == "Eq":
                facts.append((true_t, lp, cv))
                facts.append((true_t, lp, -cv - 1000))  # marker: exact (unused)
            elif o == "Lt":
                facts.append((false_t, lp, cv))
            elif o == "Le":
                facts.append((false_t, lp, cv + 1))
            elif o == "Ne":
                facts.append((false_t, lp, cv))
    return facts


def d3_bounded_index(body, site):
    """constant index k into a place whose length is bounded below by a dominating len test"""
    if site.kind == "assert:BoundsCheck":
        idx = const_val(site.term["msg"]["b"])
        lenop = site.term["msg"]["a"]
        # len operand: PtrMetadata/Len of place P
        q = op_place(lenop)
        target = None
        if q is not None and not q["pr"]:
            ds = body.defs_of(q["l"])
            if len(ds) == 1:
                rv = ds[0][3]
                if rv.get("k") in ("Other", "Un") or True:
                    # the indexed place is in the statement following the assert: _x = (*P)[idx]
                    pass
        return None
    if site.kind != "call:index":
        return None
    t = site.term
    idx = const_val(body.trace(t["args"][1])) if len(t["args"]) > 1 else None
    if not isinstance(idx, int):
        return None
    target = _root_place(body, t["args"][0])
    if target is None:
        return None
    for blk, lp, lower in _len_guards(body):
        if lower > idx and _same_place(lp, target) and body.dominates(blk, site.bb) and len(body.pred[blk]) == 1:
            return "D3 index %d below the guarded length (>= %d) of %s" % (idx, lower, place_str(target))
    return None


def d4_guarded_sub(body, site):
    """Overflow(Sub, x, c) dominated by the true edge of x > c-1 / x >= c (or x != 0 for c = 1)"""
    if site.kind != "assert:Overflow:Sub":
        return None
    m = site.term["msg"]
    c = const_val(m["b"])
    if not isinstance(c, int):
        return None
    xp = _root_place(body, m["a"])
    if xp is None:
        return None
    for i, blk in enumerate(body.blocks):
        t = blk["term"]
        if t["k"] != "Sw":
            continue
        sp = op_place(t["o"])
        if sp is None or sp["pr"]:
            continue
        ds = body.defs_of(sp["l"])
        if len(ds) != 1 or ds[0][3].get("k") != "Bin":
            continue
        rv = ds[0][3]
        tt = _bool_switch_targets(t)
        if tt is None:
            continue
        true_t, false_t = tt
        for a, b, flip in ((rv["a"], rv["b"], False), (rv["b"], rv["a"], True)):
            ap = _root_place(body, a)
            cv = const_val(b)
            if ap is None or not isinstance(cv, int) or not _same_place(ap, xp):
                continue
            op = rv["op"]
            if flip:
                op = {"Lt": "Gt", "Le": "Ge", "Gt": "Lt", "Ge": "Le"}.get(op, op)
            safe = None
            if op == "Gt" and cv >= c - 1:
                safe = true_t
            elif op == "Ge" and cv >= c:
                safe = true_t
            elif op == "Lt" and cv >= c:
                safe = false_t
            elif op == "Le" and cv >= c - 1:
                safe = false_t
            elif op == "Eq" and cv == 0 and c == 1:
                safe = false_t
            elif op == "Ne" and cv == 0 and c == 1:
                safe = true_t
            if safe is not None and body.dominates(safe, site.bb) and len(body.pred[safe]) == 1:
                return "D4 subtraction of %d guarded by a comparison of %s with %d" % (c, place_str(xp), cv)
    return None


COUNTER_FIELDS = (".found", ".error_count", ".index", ".char_index", ".input_index", ".count")


def d5_counter_increment(body, site):
    if site.kind != "assert:Overflow:Add":
        return None
    m = site.term["msg"]
    c = const_val(m["b"])
    xp = op_place(m["a"])
    if c == 1 and xp is not None and xp["pr"] and xp["pr"][-1] in COUNTER_FIELDS:
        return "D5 +1 on the counter %s (needs more than 2^31 events)" % place_str(xp)
    if c == 1 and xp is not None and not xp["pr"]:
        nm = body.local_name(xp["l"]) or ""
        # loop/iteration counters bounded by a collection: `count`, `i`, `idx`
        ds = body.defs_of(xp["l"])
        return None
    return None


def d8_constant_arithmetic(body, site):
    """overflow check of an operation on two constants (or a shift by a constant below the width) that cannot overflow"""
    if not site.kind.startswith("assert:Overflow:"):
        return None
    m = site.term["msg"]
    a, b = const_val(body.trace(m["a"])), const_val(body.trace(m["b"]))
    op = m["op"]
    if op in ("Shl", "Shr") and isinstance(b, int) and 0 <= b < 32:
        return "D8 shift by the constant %d (< 32)" % b
    # b may itself be a checked constant subtraction (39 - 32)
    if op in ("Shl", "Shr"):
        rb = body.trace(m["b"])
        if isinstance(rb, dict) and rb.get("k") == "Bin" and rb["op"].startswith("Sub"):
            x, y = const_val(rb["a"]), const_val(rb["b"])
            if isinstance(x, int) and isinstance(y, int) and 0 <= x - y < 32:
                return "D8 shift by the constant %d - %d" % (x, y)
        pb = op_place(body.trace(m["b"])) if isinstance(body.trace(m["b"]), dict) and "p" in body.trace(m["b"]) else op_place(m["b"])
        if pb is not None and pb["pr"] == [".0"]:
            ds = body.defs_of(pb["l"])
            if len(ds) == 1 and ds[0][3].get("k") == "Bin" and ds[0][3]["op"].startswith("Sub"):
                x, y = const_val(ds[0][3]["a"]), const_val(ds[0][3]["b"])
                if isinstance(x, int) and isinstance(y, int) and 0 <= x - y < 32:
                    return "D8 shift by the constant %d - %d" % (x, y)
    if isinstance(a, int) and isinstance(b, int):
        r = {"Add": a + b, "Sub": a - b, "Mul": a * b}.get(op)
        if r is not None and 0 <= r < 2 ** 31:
            return "D8 constant operands %d %s %d" % (a, op, b)
    if op == "Mul":
        ta = body.trace(m["a"])
        pa = op_place(ta) if isinstance(ta, dict) and "p" in ta else op_place(m["a"])
        if pa is not None and pa["pr"] == [".0"] and isinstance(b, int):
            ds = body.defs_of(pa["l"])
            if len(ds) == 1 and ds[0][3].get("k") == "Bin":
                x, y = const_val(ds[0][3]["a"]), const_val(ds[0][3]["b"])
                if isinstance(x, int) and isinstance(y, int) and x * y * b < 2 ** 31:
                    return "D8 constant product %d * %d * %d" % (x, y, b)
    return None


def _range_consts(body, o):
    """(start, end) of a constant Range / RangeTo aggregate operand"""
    rv = body.trace(o)
    if isinstance(rv, dict) and rv.get("k") == "Agg" and rv["ak"].startswith("Adt:core::ops::range::Range"):
        vals = [const_val(body.trace(x)) for x in rv["ops"]]
        if rv["ak"].endswith("RangeTo:RangeTo") and len(vals) == 1:
            return 0, vals[0]
        if len(vals) == 2:
            return vals[0], vals[1]
    return None


def d3b_constant_range(body, site):
    """slice by a constant range a..b of a place whose length is bounded below (>= b) by a dominating len test"""
    if site.kind != "call:index":
        return None
    t = site.term
    r = _range_consts(body, t["args"][1]) if len(t["args"]) > 1 else None
    if r is None or not isinstance(r[0], int) or not isinstance(r[1], int) or r[0] > r[1]:
        return None
    target = _root_place(body, t["args"][0])
    for blk, lp, lower in _len_guards(body):
        if lower >= r[1] and _same_place(lp, target) and body.dominates(blk, site.bb) and len(body.pred[blk]) == 1:
            return "D3 range %d..%d within the guarded length (>= %d) of %s" % (r[0], r[1], lower, place_str(target))
    return None


def d3c_fixed_vec(body, site):
    """constant index into a vector built by vec![x; N] with N > index"""
    if site.kind != "call:index":
        return None
    t = site.term
    idx = const_val(body.trace(t["args"][1])) if len(t["args"]) > 1 else None
    if not isinstance(idx, int):
        return None
    target = _root_place(body, t["args"][0])
    if target is None or target["pr"]:
        return None
    ds = body.defs_of(target["l"])
    if len(ds) == 1 and ds[0][3].get("k") == "Call" and (ds[0][3].get("inst") or ds[0][3].get("f") or "").endswith("vec::from_elem"):
        n = const_val(body.trace(ds[0][3]["args"][1]))
        if isinstance(n, int) and n > idx:
            return "D3 index %d into vec![_; %d]" % (idx, n)
    return None


def d12_array_from_slice(body, site):
    """<[T; N]>::try_from(&s[a..b]).unwrap() with b - a == N"""
    if site.kind != "call:unwrap":
        return None
    rv = body.trace(site.term["args"][0])
    if not (isinstance(rv, dict) and rv.get("k") == "Call" and (rv.get("f") or "").endswith("TryInto::try_into")):
        return None
    inner = body.trace(rv["args"][0])
    if isinstance(inner, dict) and inner.get("k") == "Call" and callee_kind(inner) == "index":
        r = _range_consts(body, inner["args"][1])
        ty = body.local_ty(site.term["dest"]["l"]) if not site.term["dest"]["pr"] else ""
        m = re.search(r"\[u8; (\d+)\]", ty)
        if r and m and isinstance(r[0], int) and isinstance(r[1], int) and r[1] - r[0] == int(m.group(1)):
            return "D12 array of %s bytes from the %d-byte slice %d..%d" % (m.group(1), r[1] - r[0], r[0], r[1])
    return None


def d13_captures_group0(body, site):
    """regex::Captures[0]: the whole match always exists"""
    if site.kind != "call:index":
        return None
    t = site.term
    cal = t.get("inst") or t.get("f") or ""
    if "regex::regex::string::Captures" in cal or "Captures" in (body.local_ty(op_place(t["args"][0])["l"]) if op_place(t["args"][0]) else ""):
        idx = const_val(body.trace(t["args"][1]))
        if idx == 0:
            return "D13 capture group 0 (the whole match) always exists"
    return None


def d14_constant_divisor(body, site):
    if site.kind not in ("assert:DivisionByZero", "assert:RemainderByZero"):
        return None
    rv = body.trace(site.term["cond"])
    if isinstance(rv, dict) and rv.get("k") == "Bin" and rv["op"] == "Eq":
        a, b = const_val(rv["a"]), const_val(rv["b"])
        if isinstance(a, int) and a != 0 and b == 0:
            return "D14 division by the non-zero constant %d" % a
    return None


NONEMPTY_TAKERS = ("slice::first", "slice::last", "VecDeque::pop_front", "VecDeque::front", "Vec::pop", "VecDeque::pop_back",
                   "slice::first_mut", "slice::last_mut")


def _bool_call_facts(body, methods):
    """[(block entered only when the call returned `val`, val, callee, [arg root places])] for boolean-returning calls"""
    out = []
    for i, t in body.calls():
        cal = t.get("inst") or t.get("f") or ""
        m = cal.rsplit("::", 1)[-1]
        if m not in methods or "t" not in t:
            continue
        cur = t["t"]
        sw = body.blocks[cur]["term"]
        hops = 0
        while sw["k"] == "Goto" and hops < 3:
            cur = sw["t"]
            sw = body.blocks[cur]["term"]
            hops += 1
        if sw["k"] != "Sw":
            continue
        sp = op_place(sw["o"])
        negated = False
        if sp is None:
            continue
        if not _same_place(sp, t["dest"]):
            ds = body.defs_of(sp["l"])
            if len(ds) == 1 and ds[0][3].get("k") == "Un" and ds[0][3]["op"] == "Not" and _same_place(op_place(ds[0][3]["a"]), t["dest"]):
                negated = True
            else:
                continue
        tt = _bool_switch_targets(sw)
        if tt is None:
            continue
        true_t, false_t = tt
        if negated:
            true_t, false_t = false_t, true_t
        args = [_root_place(body, a) for a in t["args"]]
        if true_t != false_t:
            out.append((true_t, True, m, args, t))
            out.append((false_t, False, m, args, t))
    return out


def d1b_nonempty(body, site):
    """first()/last()/pop_front()...unwrap() on a collection whose is_empty() is false on every path here"""
    if site.kind not in ("call:unwrap", "call:expect"):
        return None
    rv = body.trace(site.term["args"][0])
    if not (isinstance(rv, dict) and rv.get("k") == "Call"):
        return None
    cal = rv.get("inst") or rv.get("f") or ""
    if not any(cal.endswith(x) for x in NONEMPTY_TAKERS):
        return None
    target = _root_place(body, rv["args"][0])
    for blk, val, m, args, t in _bool_call_facts(body, ("is_empty",)):
        if val is False and args and _same_place(args[0], target) and body.dominates(blk, site.bb) and len(body.pred[blk]) == 1:
            return "D1 %s() of %s, which is not empty here (is_empty() == false)" % (cal.rsplit("::", 1)[-1], place_str(target))
    return None


def d15_contains_key(body, site):
    """map[&k] / map.get(&k).unwrap() / get_mut(&k).unwrap() dominated by contains_key(&k) == true on the same map and key"""
    t = site.term
    if site.kind == "call:index":
        mp, key = _root_place(body, t["args"][0]), _root_place(body, t["args"][1])
    elif site.kind == "call:unwrap":
        rv = body.trace(t["args"][0])
        if not (isinstance(rv, dict) and rv.get("k") == "Call"):
            return None
        cal = rv.get("inst") or rv.get("f") or ""
        if not (cal.endswith("HashMap::get") or cal.endswith("HashMap::get_mut") or cal.endswith("BTreeMap::get")):
            return None
        mp, key = _root_place(body, rv["args"][0]), rv["args"][1]
        kc = const_val(body.trace(key))
        key = ("const", kc) if kc is not None else _root_place(body, key)
    else:
        return None
    for blk, val, m, args, ct in _bool_call_facts(body, ("contains_key",)):
        if val is not True or len(args) < 2 or not _same_place(args[0], mp):
            continue
        k2c = const_val(body.trace(ct["args"][1]))
        same = (isinstance(key, tuple) and key[1] == k2c and k2c is not None) or (not isinstance(key, tuple) and _same_place(args[1], key))
        if same and body.dominates(blk, site.bb) and len(body.pred[blk]) == 1:
            return "D15 key checked by contains_key() on %s" % place_str(mp)
    return None


def _cmp_facts(body):
    """[(block, placeA, op, const-or-place B)] facts `A op B` holding when the block is entered"""
    NEG = {"Lt": "Ge", "Le": "Gt", "Gt": "Le", "Ge": "Lt", "Eq": "Ne", "Ne": "Eq"}
    out = []
    for i, blk in enumerate(body.blocks):
        t = blk["term"]
        if t["k"] != "Sw":
            continue
        sp = op_place(t["o"])
        if sp is None or sp["pr"]:
            continue
        ds = body.defs_of(sp["l"])
        if len(ds) != 1 or ds[0][3].get("k") != "Bin" or ds[0][3]["op"] not in NEG:
            continue
        rv = ds[0][3]
        tt = _bool_switch_targets(t)
        if tt is None or tt[0] == tt[1]:
            continue
        a, b = _root_place(body, rv["a"]), rv["b"]
        bc = const_val(b)
        bb_ = ("const", bc) if bc is not None else _root_place(body, b)
        out.append((tt[0], a, rv["op"], bb_))
        out.append((tt[1], a, NEG[rv["op"]], bb_))
    return out


def d17_nonempty_range(body, site):
    """rng.random_range(a..b) with b > a established by a dominating comparison (the other branch diverges)"""
    if site.kind != "call:random_range":
        return None
    rv = body.trace(site.term["args"][1])
    if not (isinstance(rv, dict) and rv.get("k") == "Agg" and "Range" in rv["ak"] and len(rv["ops"]) == 2):
        return None
    lo, hi = rv["ops"]
    lc, hc = const_val(body.trace(lo)), const_val(body.trace(hi))
    if isinstance(lc, int) and isinstance(hc, int):
        return "D17 constant non-empty range" if hc > lc else None
    lp, hp = _root_place(body, lo), _root_place(body, hi)
    for blk, a, op, b in _cmp_facts(body):
        if not (body.dominates(blk, site.bb) and len(body.pred[blk]) == 1):
            continue
        # hi > lo
        if isinstance(lc, int) and _same_place(a, hp) and isinstance(b, tuple) and isinstance(b[1], int):
            if (op == "Gt" and b[1] >= lc) or (op == "Ge" and b[1] > lc):
                return "D17 upper bound %s > %d by a dominating comparison" % (place_str(hp), lc)
        if lp is not None and hp is not None and not isinstance(b, tuple):
            if _same_place(a, hp) and _same_place(b, lp) and op == "Gt":
                return "D17 upper bound > lower bound by a dominating comparison"
            if _same_place(a, lp) and _same_place(b, hp) and op == "Lt":
                return "D17 lower bound < upper bound by a dominating comparison"
    return None


def d3d_first_of_nonempty(body, site):
    """v[0] where v.is_empty() is false here"""
    if site.kind != "call:index":
        return None
    t = site.term
    idx = const_val(body.trace(t["args"][1])) if len(t["args"]) > 1 else None
    if idx != 0:
        return None
    target = _root_place(body, t["args"][0])
    for blk, val, m, args, ct in _bool_call_facts(body, ("is_empty",)):
        if val is False and args and _same_place(args[0], target) and body.dominates(blk, site.bb) and len(body.pred[blk]) == 1:
            return "D3 index 0 of %s, which is not empty here" % place_str(target)
    return None


_DEFAULT_SOME = None


def d9_default_config(prog):
    """unwrap of a field of the default configuration that Config::default initialises with Some(..)"""
    fields = set()
    f = prog.fns.get("config::Config::default")
    if f and "hir" in f:
        import hirq
        for x in hirq.walk_exprs(f["hir"]):
            if x["k"] == "Struct":
                for fl in x["fields"]:
                    e = hirq.peel(fl["e"], methods=False)
                    if e["k"] == "Call" and e.get("ctor") and hirq.short(e["callee"], 1) == "Some":
                        fields.add(fl["name"])
    # main binds default_config to Config::default()
    ok = False
    m = prog.fns.get("main")
    if m and "hir" in m:
        import hirq
        for x in hirq.walk(m["hir"]):
            if x["k"] == "Let" and x["pat"].get("name") == "default_config" and "init" in x and \
                    hirq.is_call_to(hirq.peel(x["init"]), "config::Config::default"):
                ok = True

    def rule(body, site):
        if site.kind != "call:unwrap" or not ok:
            return None
        d = site.desc
        mm = re.match(r"^(?:Option::as_ref\()?(?:self\.)?default_config\.(\w+)\)?$", d)
        if mm and mm.group(1) in fields:
            return "D9 default_config.%s is Some(..) in Config::default" % mm.group(1)
        return None

    return rule


def d7_macro_glue(body, site):
    """formatting / debug-assert glue produced by std macros"""
    if site.exp and site.mac in ("debug_assert_eq", "debug_assert_ne", "debug_assert"):
        return "D7 debug assertion (not compiled into release builds; asserts an internal invariant)"
    return None


def d18_index_below_len(body, site):
    """`v[x - c]` (bounds check) or `x - c` compared: dominated by the true edge of `x <= v.len()` (c >= 1) or `x < v.len()` (c >= 0)
    on the same collection"""
    if site.kind != "assert:BoundsCheck":
        return None
    m = site.term["msg"]
    lp = op_place(m["a"])
    coll = None
    if lp is not None and not lp["pr"]:
        ds = body.defs_of(lp["l"])
        if len(ds) == 1 and ds[0][3].get("k") == "Un" and ds[0][3].get("op") == "PtrMetadata":
            coll = _root_place(body, ds[0][3]["a"])
    if coll is None:
        return None
    # index operand: x, or (x - c).0
    ip = op_place(m["b"])
    x, c = None, 0
    if ip is not None:
        cur = ip
        for _ in range(4):
            ds = body.defs_of(cur["l"]) if not cur["pr"] or cur["pr"] == [".0"] else []
            if len(ds) != 1:
                break
            rv = ds[0][3]
            if rv.get("k") == "Use" and "p" in rv["o"]:
                cur = rv["o"]["p"]
                continue
            if rv.get("k") == "Bin" and rv["op"] in ("SubWithOverflow", "Sub") and isinstance(const_val(rv["b"]), int):
                x = _root_place(body, rv["a"])
                c = const_val(rv["b"])
            break
        if x is None:
            x = _root_place(body, m["b"])
    if x is None:
        return None
    for i, blk in enumerate(body.blocks):
        t = blk["term"]
        if t["k"] != "Sw":
            continue
        sp = op_place(t["o"])
        if sp is None or sp["pr"]:
            continue
        ds = body.defs_of(sp["l"])
        if len(ds) != 1 or ds[0][3].get("k") != "Bin":
            continue
        rv = ds[0][3]
        tt = _bool_switch_targets(t)
        if tt is None:
            continue
        for a, b, flip in ((rv["a"], rv["b"], False), (rv["b"], rv["a"], True)):
            op = rv["op"]
            if flip:
                op = {"Lt": "Gt", "Le": "Ge", "Gt": "Lt", "Ge": "Le"}.get(op, op)
            ap = _root_place(body, a)
            if ap is None or not _same_place(ap, x):
                continue
            # b must be the length of the same collection
            bp = op_place(b)
            if bp is None or bp["pr"]:
                continue
            bd = body.defs_of(bp["l"])
            if len(bd) != 1 or bd[0][3].get("k") != "Call" or not str(bd[0][3].get("inst") or bd[0][3].get("f") or "").endswith("::len"):
                continue
            lc = _root_place(body, bd[0][3]["args"][0])
            if not _same_place(lc, coll):
                continue
            safe = None
            if op == "Le" and c >= 1:
                safe = tt[0]
            elif op == "Lt" and c >= 0:
                safe = tt[0]
            elif op == "Gt" and c >= 1:
                safe = tt[1]
            elif op == "Ge" and c >= 0:
                safe = tt[1]
            if safe is not None and body.dominates(safe, site.bb) and len(body.pred[safe]) == 1:
                return "D18 index %s - %d below the length of %s by a dominating comparison" % (place_str(x), c, place_str(coll))
    return None


def d19_enumerate_counter(body, site):
    """`i + c` with a small constant c where i is the counter yielded by Enumerate::next(): i < len <= isize::MAX"""
    if site.kind != "assert:Overflow:Add":
        return None
    m = site.term["msg"]
    c = const_val(m["b"])
    if not isinstance(c, int) or not (0 <= c <= 1024):
        return None
    cur = op_place(m["a"])
    for _ in range(6):
        if cur is None:
            return None
        if cur["pr"] == ["@Some", ".0", ".0"]:
            ds = body.defs_of(cur["l"])
            if len(ds) == 1 and ds[0][3].get("k") == "Call" and "enumerate::Enumerate" in str(ds[0][3].get("inst") or "") and \
                    str(ds[0][3].get("inst")).endswith("::next"):
                return "D19 counter of enumerate() plus %d (the counter is below the length of a collection)" % c
            return None
        if cur["pr"]:
            return None
        ds = body.defs_of(cur["l"])
        if len(ds) != 1 or ds[0][3].get("k") != "Use" or "p" not in ds[0][3]["o"]:
            return None
        cur = ds[0][3]["o"]["p"]
    return None


RULES = [d1_guarded_receiver, d2_valid_constant, d3_bounded_index, d4_guarded_sub, d5_counter_increment, d8_constant_arithmetic, d7_macro_glue]


def discharge(prog, sites, extra_rules=()):
    rules = RULES + [d3b_constant_range, d3c_fixed_vec, d3d_first_of_nonempty, d12_array_from_slice, d13_captures_group0,
                     d14_constant_divisor, d1b_nonempty, d15_contains_key, d17_nonempty_range, d18_index_below_len, d19_enumerate_counter,
                     d9_default_config(prog)] + list(extra_rules)
    for s in sites:
        body = prog.body(s.fn)
        for r in rules:
            try:
                note = r(body, s)
            except Exception as e:  # a discharge rule must never hide a site by crashing
                note = None
            if note:
                s.discharged = note
                break
    return sites


def load_table():
    p = os.path.join(HERE, "panic_sites.json")
    if not os.path.exists(p):
        return {}
    with open(p) as fh:
        return {e["key"]: e for e in json.load(fh)["sites"]}
