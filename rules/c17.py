"""C17 — one failing directory, file or reader never spoils the rest of the search (static necessary conditions)."""
from hirq import *  # noqa: F401,F403
import c10
from core import Abort

VISIT_DIR = "searcher::Searcher::visit_dir"
LSR = "searcher::Searcher::list_search_results"
CHECK_FILE = "searcher::Searcher::check_file"
READERS = ["util::get_line_count", "util::get_sha1_file_hash", "util::get_sha256_file_hash", "util::get_sha512_file_hash",
           "util::get_sha3_512_file_hash", "util::is_shebang", "util::is_dir_empty", "util::get_exif_metadata",
           "util::get_mp3_metadata", "util::get_metadata", "function::get_value", "util::canonical_path"]


WALK_OPS = ("canonical_path", "read_dir", "file_type", "visit_dir", "entry")


def error_branches(hir):
    """(kind, node, body) for every branch that handles a failure of a walking operation (canonicalisation, read_dir, a
    listed entry, file_type, a nested visit_dir): match arm Err(..), `if x.is_err()`, `if let Err(..) = x`, else of
    `if let Ok(..) = x`.  Failures of writing the output are C17-R4's business and are not collected here."""
    locs = Locals(hir)

    def subject(n):
        r = render(locs.chase(peel(n, methods=False)))
        r2 = render(n)
        if any(w in r or w in r2 for w in ("write", "stdout", "results_writer")):
            return None
        return r if any(w in r for w in WALK_OPS) else (r2 if any(w in r2 for w in WALK_OPS) else None)

    out = []
    for x in walk_exprs(hir):
        if x["k"] == "Match" and x.get("src") == "Normal":
            sj = subject(x["scrut"])
            for a in x["arms"]:
                if sj and any(render_pat(p).lstrip("&").startswith("Result::Err") for p in pat_alts(a["pat"])):
                    if str(x.get("ty", "()")) not in ("()", "!") and not any(y["k"] in ("Continue", "Break", "Ret", "InlRet") for y in walk_exprs(a["body"])):
                        # the arm supplies a fallback value and the flow goes on with it: no entry is skipped here
                        continue
                    out.append(("err-arm of `%s`" % render(x["scrut"])[:40], a["body"], a["body"]))
        if x["k"] == "If":
            c = peel(x["c"], methods=False)
            if c["k"] == "MCall" and c["m"] == "is_err" and subject(c["recv"]):
                out.append(("`%s`" % render(c)[:40], x["t"], x["t"]))
            if c["k"] == "LetE" and render_pat(c["pat"]).lstrip("&").startswith("Result::Err") and subject(c["init"]):
                out.append(("`if let Err` of `%s`" % render(c["init"])[:40], x["t"], x["t"]))
            if c["k"] == "LetE" and render_pat(c["pat"]).startswith("Result::Ok") and "e" in x and subject(c["init"]) and \
                    any(w in render(c["init"]) for w in ("result", "file_type", "read_dir")):
                out.append(("else of `%s`" % render(c)[:40], x["e"], x["e"]))
    return out


def r1(ctx):
    n = 0
    for fn in (VISIT_DIR, LSR):
        hir = ctx.anchor_hir(fn)
        for kind, node, body in error_branches(hir):
            n += 1
            counts = [y for y in walk_exprs(body) if y["k"] == "AssignOp" and y["op"] == "+=" and render(y["l"]) == "self.error_count" and render(y["r"]) == "1"]
            reports = [y for y in walk_exprs(body) if y["k"] == "Call" and (str(y.get("callee", "")).endswith("path_error_message") or str(y.get("callee", "")).endswith("error_message"))]
            leaves = [y for y in walk_exprs(body) if y["k"] in ("Break",) or (y["k"] == "Ret" and "Err" in render(y.get("e")))]
            rets = [y for y in walk_exprs(body) if y["k"] == "Ret"]
            ok = len(counts) == 1 and len(reports) >= 1 and not leaves
            # a plain `return Ok(())` is allowed only where nothing can be listed (the directory itself is unusable)
            if rets and "canonical_path" not in kind:
                ok = False
            ctx.obligation(ok)
            if not ok:
                ctx.violation("error-arm/%s/%s" % (short(fn, 1), kind), ctx.where(fn, node),
                              "the failure branch %s must count the error once, name the path on stderr and let the search go on "
                              "(error_count += 1: %d, report: %d, break/return: %d)" % (kind, len(counts), len(reports), len(leaves) + len(rets)))
    ctx.covered("failure branches of visit_dir / list_search_results (count, report, continue)", n, distinct_keys=["branches:%d" % n])
    ctx.floor(n, 6, "failure branches in the walker", VISIT_DIR)
    # `?` inside the directory loop would abort the remaining entries: only check_file's result may be propagated
    hir = ctx.anchor_hir(VISIT_DIR)
    qs = [x for x in walk_exprs(hir) if x["k"] == "Match" and x.get("src") == "TryDesugar(HirId(DefId(0:0 ~ x).0))" or (x["k"] == "Match" and str(x.get("src", "")).startswith("TryDesugar"))]
    def is_try(x):
        return x["k"] == "Match" and str(x.get("src", "")).startswith("TryDesugar")

    def only_check_file_errors(e, depth=0):
        """the failure a `?` propagates can only be check_file's (a closed or failing output): the operand is the check_file call,
        or a helper (inlined by the normaliser) whose every result is Ok(..) or itself such a propagation"""
        e = peel(e, methods=False)
        if e["k"] == "Call" and str(e.get("callee", "")).endswith("Try::branch") and e["args"]:
            e = peel(e["args"][0], methods=False)
        if e["k"] in ("MCall", "Call") and (e.get("m") == "check_file" or str(e.get("callee", "")).endswith("::check_file")):
            return True
        if e["k"] == "Block" and e.get("inl") and depth < 4:
            inner = [x for x in walk_exprs(e) if is_try(x)]
            if not all(only_check_file_errors(x["scrut"], depth + 1) for x in inner):
                return False
            for leaf, _holder in leaf_results(e):
                l_ = peel(leaf, methods=False)
                if is_try(l_) or any(l_ is y for x in inner for y in walk_exprs(x)):
                    continue
                if not (l_["k"] == "Call" and l_.get("ctor") and str(l_.get("callee", "")).endswith("Result::Ok")):
                    return False
            return True
        return False
    bad = [render(q["scrut"])[:60] for q in qs if not only_check_file_errors(q["scrut"])]
    ctx.obligation(not bad)
    ctx.covered("`?` propagation sites in visit_dir", len(qs), distinct_keys=["try:%d" % len(qs)])
    if bad:
        ctx.violation("error-arm/question-mark", ctx.where(VISIT_DIR), "visit_dir propagates a failure with `?` (%s): one failing entry would end the listing of its directory" % bad)
    # the error count is the only status input: single writer kind (+= 1)
    ws = []
    for b in ctx.prog.bodies():
        for i, j, p, rv in b.assigns():
            if p["pr"] and p["pr"][-1] == ".error_count":
                ws.extend(ctx.prog.owners(b.name))
    ok = set(ws) <= {VISIT_DIR, LSR, "searcher::Searcher::new"}
    ctx.obligation(ok)
    if not ok:
        ctx.violation("error-arm/counter-writers", "crate", "error_count is written outside the walker: %s" % sorted(set(ws)))


def r3(ctx):
    """content readers are total: no panic site, no `?`, failures map to the empty value"""
    c10.r1(ctx, only=lambda s: s.fn in READERS or any(s.fn.startswith(r + "::") for r in READERS), rule_prefix="reader-")
    n = 0
    for fn in READERS:
        if fn not in ctx.prog.fns:
            continue
        h = ctx.prog.hir(fn)
        if fn == "function::get_value":
            continue
        tr = [x for x in walk_exprs(h) if x["k"] == "Match" and str(x.get("src", "")).startswith("TryDesugar")]
        # in a reader that returns an Option, `?` on an Option (`File::open(..).ok()?`) *is* the empty-value fallback: nothing is
        # propagated to the caller but `None`
        returns_option = " -> core::option::Option<" in str(ctx.prog.fns[fn].get("sig") or "")
        if returns_option:
            tr = [x for x in tr if not str(peel(x["scrut"]).get("ty", "")).startswith("core::ops::control_flow::ControlFlow<core::option::Option<")]
        n += 1
        ctx.obligation(not tr)
        if tr:
            ctx.violation("reader/question-mark/%s" % short(fn, 1), ctx.where(fn, tr[0]), "%s propagates an I/O error with `?`" % short(fn, 1))
    # get_line_count evaluated (finite interpreter; the file is a stand-in that yields given chunks): the count of a file that
    # cannot be opened, or whose reading fails part-way, is None - not the lines counted so far -, and Some(newlines) otherwise
    import interp
    LC = "util::get_line_count"
    if LC in ctx.prog.fns:
        OK, ERR = (lambda x: interp.V("Result::Ok", [x])), interp.V("Result::Err", [interp.Opaque("EIO")])
        NL = 10
        scen = {"open fails": (False, [], None), "empty file": (True, [OK([])], 0), "two chunks": (True, [OK([97, NL, 98]), OK([NL, 99, NL]), OK([])], 3),
                "read fails at once": (True, [ERR], None), "read fails after a chunk": (True, [OK([97, NL]), ERR], None)}
        lc_bad, lc_n = [], 0
        for label, (opens, chunks, want) in scen.items():
            state = {"chunks": list(chunks), "pending": None}

            def call(node, recv, args, it, env, opens=opens, state=state):
                callee = str(node.get("callee", ""))
                m_ = node.get("m")
                if callee.endswith("File::open"):
                    return (OK({"__file": True}) if opens else ERR,)
                if "BufReader" in callee and ("::new" in callee or "with_capacity" in callee):
                    return ({"__reader": True},)
                if isinstance(recv, dict) and ("__reader" in recv or "__file" in recv):
                    if m_ == "fill_buf":
                        if state["pending"] is None:
                            state["pending"] = state["chunks"].pop(0) if state["chunks"] else OK([])
                        return (state["pending"],)
                    if m_ == "consume":
                        state["pending"] = None
                        return ((),)
                if callee.endswith("bytecount::count") and len(args) == 2 and isinstance(args[0], list):
                    return (sum(1 for b_ in args[0] if b_ == args[1]),)
                if isinstance(recv, interp.Opaque) and node.get("k") == "MCall":
                    return (interp.Opaque("%s.%s()" % (recv.what, m_)),)
                return None
            ps_ = ctx.prog.fns[LC]["params"]
            try:
                got = interp.Interp(call=call, prog=ctx.prog, max_steps=40000).run(ctx.anchor_hir(LC), {ps_[0]["id"]: interp.Opaque("entry")})
            except interp.Undecided:
                lc_bad = None       # another way of reading: the structural rules below apply
                break
            lc_n += 1
            g = got.args[0] if isinstance(got, interp.V) and got.name == "Option::Some" else (None if got == interp.NONE else repr(got))
            if g != want:
                lc_bad.append("%s: get_line_count gives %s, expected %s" % (label, got, "Some(%d)" % want if want is not None else "None"))
        if lc_bad is not None:
            ctx.obligation(not lc_bad)
            ctx.covered("get_line_count evaluated on 5 file behaviours (open fails, empty, two chunks, read fails at once / after a chunk)", lc_n, distinct_keys=list(scen), exhaustive=True)
            if lc_bad:
                ctx.violation("reader/line-count", ctx.where(LC), "a file that cannot be read to its end has no line count (an empty value), a readable one has its number of newline bytes: %s" % "; ".join(lc_bad[:3]))
    # fallbacks
    fall = {"util::get_line_count": "Option::None", "util::get_sha1_file_hash": "String::new()", "util::get_sha256_file_hash": "String::new()",
            "util::get_sha512_file_hash": "String::new()", "util::get_sha3_512_file_hash": "String::new()", "util::is_shebang": "false",
            "util::get_exif_metadata": "Option::None"}
    for fn, val in fall.items():
        h = ctx.anchor_hir(fn)
        leaves = [render(peel_result(l)) for l, _ in leaf_results(h)]
        tail = render(peel_result(h["expr"])) if "expr" in h else None
        # the empty value is among the function's results, and the open is consumed by a pattern / is_err test (so that its
        # failure reaches that result; an unwrap or `?` would be reported by the panic / propagation rules above)
        opens = [c for c in walk_exprs(h) if c["k"] == "Call" and str(c.get("callee", "")).endswith("File::open")]
        consumed = True
        for o in opens:
            chain = path_to(h, o) or []
            consumed = consumed and any((a["k"] == "LetE") or (a["k"] == "Match" and a.get("src") == "Normal") or
                                        (a["k"] == "MCall" and a["m"] in ("is_err", "is_ok", "ok")) or (a["k"] == "Let") for a, _ in chain)
        ok = val in leaves and consumed
        if not ok and val == "Option::None" and consumed and any("from_residual" in l_ for l_ in leaves) and \
                " -> core::option::Option<" in str(ctx.prog.fns[fn].get("sig") or ""):
            ok = True       # the None comes out of `?` on an Option
        n += 1
        ctx.obligation(ok)
        if not ok:
            ctx.violation("reader/fallback/%s" % short(fn, 1), ctx.where(fn), "%s must fall back to %s when the file cannot be opened or read; its results are %s" % (short(fn, 1), val, sorted(set(leaves))[:6]))
    ctx.covered("content readers: no `?`, empty-value fallback, open consumed by `if let Ok`", n, distinct_keys=READERS)


def r4(ctx):
    """standard output: a closed or failing standard output never panics and ends in a stop or a propagated error.  Decided
    by evaluation: check_file on its scenario table (X-PIPELINE: closed output -> Ok(false)), the output phase of
    list_search_results with each of its writes failing in turn (rules/lsr.py), and exec_search's status table"""
    import lsr
    lsr.output_phase(ctx)
    # a propagated error reaches exec_search, which treats BrokenPipe as a normal stop
    tbl, _why = c10.exec_search_table(ctx)
    ok = tbl is not None and all(tbl[(True, "pipe", c)][0] == (0 if c == 0 else 1) and "PANIC" not in tbl[(True, "pipe", c)][1] for c in (0, 1, 5)) and \
        all("PANIC" not in tbl[(True, "other", c)][1] for c in (0, 1, 5))
    ctx.obligation(ok)
    if not ok:
        ctx.violation("stdout/exec_search", ctx.where("exec_search"), "exec_search must not treat a closed output pipe as a failure (and must not unwrap the search result)")
    # check_file: closed pipe -> Ok(false); the walker stops on false at both call sites
    import cfile
    import interp
    try:
        got, ev, _sv = cfile.Run(ctx).run(buffered=False, found=2, stdout="pipe")
        ok = isinstance(got, interp.V) and got.name == "Result::Ok" and got.args[0] is False
        why = "returns %s" % (got,)
    except interp.Undecided as e:
        ok, why = False, "cannot evaluate check_file: %s" % e
    ctx.obligation(ok)
    if not ok:
        ctx.violation("stdout/check_file", ctx.where(CHECK_FILE), "check_file must return Ok(false) when standard output is closed (%s)" % why)
    vh = ctx.anchor_hir(VISIT_DIR)
    vlocs = Locals(vh)

    def stops_on_false(x):
        # `if !checked { return Ok(()) }` with checked = self.check_file(..)?  (or the call inlined into the test)
        if x["k"] != "If" or x["c"]["k"] == "LetE":
            return False
        pos_, neg_ = guard_atoms([("if", x["c"], True)])
        return any(c_["k"] == "MCall" and c_["m"] == "check_file" for a_ in neg_ for c_ in walk_exprs(vlocs.chase(a_))) and \
            any(y["k"] == "Ret" and render(y["e"]) == "Result::Ok(())" for y in walk_exprs(x["t"]))
    stops = [x for x in walk_exprs(vh) if stops_on_false(x)]
    sites = [c for c in walk_exprs(vh) if c["k"] == "MCall" and c["m"] == "check_file"]
    ok = len(stops) == len(sites) == 2
    ctx.obligation(ok)
    if not ok:
        ctx.violation("stdout/walker-stop", ctx.where(VISIT_DIR), "the walker must stop quietly when check_file reports a closed pipe, at both call sites")
    # println!/print! are not reachable from the search
    search = ctx.prog.reachable_fns(["searcher::Searcher::list_search_results"])
    bad = []
    for fn in search:
        b = ctx.prog.body(fn)
        if b:
            for i, t in b.calls():
                if b.callee(t) == "std::io::stdio::_print":
                    bad.append(fn)
    ctx.obligation(not bad)
    ctx.covered("functions reachable from list_search_results scanned for println!/print!", len(search), distinct_keys=["fns:%d" % len(search)])
    if bad:
        ctx.violation("stdout/println", "crate", "print!/println! (which panic on a closed pipe) are reachable from the search: %s" % sorted(set(bad)))


RULES = [
    ("C17-R1", "failure branches of the walker count, report and continue", r1),
    ("C17-R3", "content readers are total", r3),
    ("C17-R4", "closed standard output is handled at every write", r4),
    ("C04-R5", "metadata is read without following links: a link whose target is missing keeps its own attributes [shared with C04]", lambda ctx: __import__("c04").r5(ctx)),
    ("C10-R3", "exit status mapping: no failure -> 0, failures -> 1 [shared with C10]", lambda ctx: c10.r3(ctx)),
    ("C04-R4", "per-entry memo: an unreadable entry keeps nothing of the previous entry [shared with C04]", lambda ctx: __import__("c04").r4(ctx)),
    ("C04-R8", "the byte count of Read::read bounds the data examined [shared with C04]", lambda ctx: __import__("extra2").read_amount_used(ctx)),
    ("C07-R6", "an aggregate ranges over the readable data: empty cells of unreadable entries take no part in MIN / MAX [shared with C07]", lambda ctx: __import__("c07").r6(ctx)),
    ("X-PIPELINE", "the per-entry pipeline of check_file evaluated on its scenario table (filter, count, row, buffer key, separator, closed output) [shared]", lambda ctx: __import__("cfile").pipeline(ctx)),
    ("C01-R8", "every search root is walked: a failing root is not skipped before the walker counts it [shared with C01]", lambda ctx: __import__("c01").r8(ctx)),
    ("C19-R1", "archive member loop: every member is visited, a member that cannot be opened is skipped alone [shared with C19]", lambda ctx: __import__("c19").r1(ctx)),
    ("C05-R1", "sort keys: the comparison of two buffer keys is a consistent order also for empty values of unreadable entries (an inconsistent one makes the ordered buffer panic) [shared with C05]", lambda ctx: __import__("c05").r1(ctx)),
    ("C01-R5", "the gate in front of every descent refuses a directory only for a reviewed reason (link without the option, seen before): a directory that cannot be stat'ed is tried or counted, never dropped silently [shared with C01]", lambda ctx: __import__("c01").r5(ctx)),
    ("C01-R7", "no entry is skipped silently: every way out of a round of the entry loop is a reviewed one (an entry whose path cannot be resolved is still listed) [shared with C01]", lambda ctx: __import__("c01").r7(ctx)),
]

EXPLANATION = (
    "Static structural necessary conditions of C17: every failure branch of visit_dir/list_search_results (Err arm of "
    "read_dir / entry, is_err of canonical_path / nested visit_dir, else of `if let Ok(file_type)`) increments "
    "error_count exactly once, names the path through path_error_message/error_message and neither breaks the loop "
    "nor returns an error; no `?` other than check_file's result inside visit_dir; error_count is written only by "
    "the walker (status mapping is C10-R3); content readers (line count, digests, shebang, exif, mp3, CONTAINS, "
    "xattr) have no undischarged panic site, no `?`, and fall back to the empty value; every write to standard "
    "output in the search path stops on BrokenPipe, is deliberately ignored, or is propagated to exec_search, which "
    "treats BrokenPipe as a normal stop; check_file returns Ok(false) on a closed pipe and the walker stops at both "
    "call sites; println!/print! are not reachable from the search. Real faults are not injected."
    ' The per-entry memo is reset field by field and each update_* stores its value on every path that raises its flag.')
ASSUMPTIONS = ["rustc's HIR/MIR faithfully represent the source; exporter and rule scripts are correct",
               "the panicking-API table of rules/panics.py (see C10)"]
NOT_DECIDED = ["behaviour under real faults (permission changes during the walk, vanishing files)", "content of stderr messages",
               "rows of entries outside a failing directory on a real tree"]
