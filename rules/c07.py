"""C07 — aggregate functions return the mathematical aggregate (static necessary conditions)."""
from hirq import *  # noqa: F401,F403
import oracles
import tables
from core import Abort

AGG = "function::get_aggregate_value"
MEAN = "function::get_mean"
VARIANCE = "function::get_variance"
SUM = "function::get_buffer_sum"
CHECK_FILE = "searcher::Searcher::check_file"
GFV = "searcher::Searcher::get_function_value"
GCEV = "searcher::Searcher::get_column_expr_value"


def agg_arms(ctx):
    hir = ctx.anchor_hir(AGG)
    ms = find_matches(hir, min_arms=5)
    if not ms:
        ctx.violation("anchor/aggregate-match", AGG, "per-function match of get_aggregate_value not found")
        raise Abort()
    return {key_name(k).split("::")[-1]: a for a in match_arms(ms[0]) for k in a["keys"]}, ms[0]


def r1(ctx):
    """AVG is a real division"""
    arms, m = agg_arms(ctx)
    avg = arms.get("Avg")
    if avg is None:
        ctx.violation("avg/missing", ctx.where(AGG, m), "no arm for AVG")
        return
    callees = [c["callee"] for c in walk_exprs(avg["body"]) if c["k"] == "Call" and c.get("callee", "").startswith("function::")]
    fns = set(callees)
    todo = list(fns)
    while todo:
        f = todo.pop()
        h = ctx.prog.hir(f)
        if h:
            for c in walk_exprs(h):
                if c["k"] == "Call" and str(c.get("callee", "")).startswith("function::") and c["callee"] not in fns:
                    fns.add(c["callee"])
                    todo.append(c["callee"])
    divs = []
    for f in sorted(fns) + [None]:
        h = ctx.prog.hir(f) if f else avg["body"]
        if not h:
            continue
        for x in walk_exprs(h):
            if x["k"] == "Bin" and x["op"] == "/":
                divs.append((f or AGG, x))
    ctx.floor(len(divs), 1, "divisions reachable from the AVG arm", AGG)
    for f, x in divs:
        lt, rt = x["l"].get("ty"), x["r"].get("ty")
        ok = lt in ("f64", "f32") and rt in ("f64", "f32")
        ctx.obligation(ok)
        if not ok:
            ctx.violation("avg/integer-division/%s" % short(f, 1), ctx.where(f, x),
                          "the mean is computed by `%s` on %s / %s: the quotient is truncated before it becomes a real "
                          "number (avg of 23 over 6 rows prints 3)" % (render(x), lt, rt))
    ctx.covered("divisions on the path of AVG (operand types)", len(divs), distinct_keys=[render(x) for _, x in divs],
                sample=[(f, render(x), x["l"].get("ty")) for f, x in divs])



def _accumulation(ctx, fn, h):
    """the per-row accumulation of an aggregate helper over its buffer parameter: (added expression, is_row_value(node) ->
    bool, Locals).  Recognises `for row in buffer { .. acc += e .. }`, `buffer.iter().for_each(..)` and `..fold(init, |acc, v| acc + e)`."""
    import sem
    params = ctx.prog.fns[fn]["params"]
    buf_id = params[0]["id"]
    locs = Locals(h)
    for it in find_iterations(h):
        if sem.root_res(it["iter"], locs) != buf_id:
            continue
        row_ids = set(pat_binders(it["pat"]))
        adds = [x for x in walk_exprs(it["body"]) if x["k"] == "AssignOp" and x["op"] == "+="]
        if len(adds) != 1:
            return None

        def is_row_value(n, row_ids=row_ids):
            return sem.root_res(n, locs) in row_ids
        return adds[0]["r"], is_row_value, locs
    for c in walk_exprs(h):
        if c["k"] == "MCall" and c["m"] == "fold" and len(c["args"]) == 2 and sem.root_res(c["recv"], locs) == buf_id:
            cl = peel(c["args"][1], methods=False)
            if cl["k"] != "Closure" or len(cl.get("params") or []) != 2:
                return None
            acc_id, v_id = [pat_binders(p_)[0] if pat_binders(p_) else None for p_ in cl["params"]]
            body = peel(cl["body"], methods=False)
            if body["k"] == "Bin" and body["op"] == "+":
                sides = [body["l"], body["r"]]
                accs = [x for x in sides if peel(x).get("res") == acc_id]
                if len(accs) == 1:
                    rhs = [x for x in sides if x is not accs[0]][0]
                    chain = render(c["recv"])

                    def is_row_value(n, v_id=v_id, chain=chain):
                        return sem.root_res(n, locs) == v_id and "get(" in chain and "parse" in chain
                    return rhs, is_row_value, locs
    return None

def aggregates_by_evaluation(ctx):
    """get_aggregate_value evaluated (finite interpreter, helpers included) for every variant of Function on 12 buffers and
    compared with the textbook value: COUNT = rows, SUM / MIN / MAX exact over the integer cells (values beyond 2^53
    included), AVG = SUM / COUNT as a real number, VAR_* / STDDEV_* by the population / sample formulas (relative 1e-9).
    Conventions the property does not fix are left out: empty buffer, sample statistics of one row, AVG and the
    variance family over buffers with missing cells.  Returns False when the function cannot be evaluated."""
    import interp
    import math
    h = ctx.anchor_hir(AGG)
    ps = ctx.prog.fns[AGG]["params"]
    if len(ps) != 4:
        return False
    B = 2 ** 53
    full = {"one": [5], "two": [3, 7], "dup": [4, 4, 4], "mixed": [10, 1, 6, 2], "unsorted": [9, 2, 11, 2, 5], "big": [B + 1, B + 1, 3],
            "zero": [0, 0, 12], "near": [1000000001, 1000000002, 1000000003]}
    holes = {"hole-middle": [3, None, 7], "hole-first": ["", 8, 2]}
    # values below zero (MIN(-size), MAX(size - 300)): decided for COUNT / MIN / MAX only - what SUM and the moments make of a
    # negative cell is not fixed by the property (an integer column has none)
    signed = {"negative": [-5, 3, -250], "all-negative": [-7, -2]}
    variants = sorted(ctx.prog.adt_variants("function::Function") or [])
    if len(variants) < 40:
        return False
    bad, n, isagg_bad = [], 0, []
    ISAGG = "function::Function::is_aggregate_function"
    for v in variants:
        try:
            ia = interp.Interp(prog=ctx.prog, max_steps=4000).run(ctx.anchor_hir(ISAGG), {ctx.prog.fns[ISAGG]["params"][0]["id"]: interp.V("Function::" + v, [])})
        except interp.Undecided:
            return False
        n += 1
        if bool(ia) != (v in oracles.AGGREGATES):
            isagg_bad.append("%s: %s" % (v, ia))
        for label, vals in list(full.items()) + list(holes.items()) + list(signed.items()):
            if label in signed and v in oracles.AGGREGATES and v not in ("Count", "Min", "Max"):
                continue
            ints = [x for x in vals if isinstance(x, int)]
            if v in oracles.AGGREGATES:
                cnt = len(vals)
                if v == "Count":
                    want = cnt
                elif v == "Sum":
                    want = sum(ints)
                elif v == "Min":
                    want = min(ints)
                elif v == "Max":
                    want = max(ints)
                elif v == "Avg":
                    want = sum(ints) / cnt          # SUM / COUNT, as the property states it
                elif label in holes:
                    continue
                else:
                    mean = sum(ints) / cnt
                    if True:
                        samp = v.endswith("Samp")
                        if samp and cnt < 2:
                            continue
                        var = sum((x - mean) ** 2 for x in ints) / (cnt - 1 if samp else cnt)
                        want = math.sqrt(var) if v.startswith("StdDev") else var
            else:
                want = "DEFAULT"
            buf = [interp.HMap({"k": str(x), "other": "1"} if x is not None else {"other": "1"}) for x in vals]
            env = {ps[0]["id"]: interp.some(interp.V("Function::" + v, [])), ps[1]["id"]: buf, ps[2]["id"]: "k", ps[3]["id"]: interp.some("DEFAULT")}
            try:
                got = interp.Interp(prog=ctx.prog, max_steps=40000).run(h, env)
            except interp.Undecided as e:
                ctx.covered("evaluation of get_aggregate_value gave up (%s over %s: %s); the structural rules apply" % (v, label, str(e)[:160]), 0)
                return False
            n += 1
            if isinstance(want, float):
                try:
                    ok = abs(float(got) - want) <= 1e-9 * max(1.0, abs(want))
                except (TypeError, ValueError):
                    ok = False
            else:
                ok = got == str(want)
            ctx.obligation(ok)
            if not ok:
                bad.append((v, "%s over the rows %s is `%s`, expected %s" % (v.upper(), vals, got, want)))
    ctx.covered("get_aggregate_value evaluated for every Function variant on 12 buffers against the textbook value; is_aggregate_function on every variant",
                n, distinct_keys=variants, exhaustive=True)
    seen = set()
    for v, msg in bad:
        if v not in seen:
            seen.add(v)
            ctx.violation("aggregate-value/%s" % v, ctx.where(AGG), msg + " (exact for COUNT / SUM / MIN / MAX, SUM / COUNT for AVG, the population / sample formulas for the variance family; a non-aggregate gives the default)")
    ctx.obligation(not isagg_bad)
    if isagg_bad:
        ctx.violation("aggregate-set", ctx.where(ISAGG), "is_aggregate_function differs from the documented aggregates on %s" % ", ".join(isagg_bad))
    return True


def r2(ctx):
    if aggregates_by_evaluation(ctx):
        return
    arms, m = agg_arms(ctx)
    n = 0

    def names(body):
        s = []
        for x in walk_exprs(body):
            if x["k"] == "MCall":
                s.append(x["m"])
            elif x["k"] == "Call" and x.get("callee") and not x.get("ctor"):
                s.append(short(x["callee"], 1))
        return s

    want = {"Min": (["min"], ["max"]), "Max": (["max"], ["min"]), "Sum": (["get_buffer_sum"], ["get_mean", "len"]),
            "Count": (["len"], ["get_buffer_sum"]), "Avg": (["get_mean"], [])}
    for fn, (need, forbid) in want.items():
        a = arms.get(fn)
        if a is None:
            ctx.violation("primitive/%s/missing" % fn, ctx.where(AGG, m), "no arm for %s" % fn)
            continue
        ns = names(a["body"])
        n += 1
        ok = all(x in ns for x in need) and not any(x in ns for x in forbid)
        ctx.obligation(ok)
        if not ok:
            ctx.violation("primitive/%s" % fn, ctx.where(AGG, a["body"]), "%s must be computed with %s (and not %s); its arm uses %s" % (fn, need, forbid, ns))
    # every buffered row takes part: no iterator adaptor that ends the pass early or selects by position may stand between
    # the buffer and the aggregate (filter_map / flatten over the parse result only drop rows without a value)
    stops = ("map_while", "take_while", "skip_while", "take", "skip", "step_by", "nth", "find", "find_map", "position", "last", "scan",
             "try_fold", "try_for_each", "peekable", "fuse", "zip", "rev_take", "next", "dedup", "chunks", "windows", "first", "split_first", "split_last")
    for fn in (AGG, SUM, VARIANCE, MEAN):
        hh = ctx.anchor_hir(fn)
        for x in walk_exprs(hh):
            if x["k"] == "MCall":
                n += 1
                bad = x["m"] in stops and ("iter" in str(x.get("callee", "")).lower() or "slice" in str(x.get("callee", "")).lower() or
                                           "Vec" in str(x["recv"].get("ty", "")))
                ctx.obligation(not bad)
                if bad:
                    ctx.violation("rows/adaptor/%s/%s" % (short(fn, 1), x["m"]), ctx.where(fn, x),
                                  "`%s` in the pass over the buffered rows ends it early or selects rows by position: an aggregate is "
                                  "a function of every buffered row that has a value" % x["m"])
    # variance family: divisor and sqrt
    for fn, (samp, sqrt) in {"StdDevPop": (False, True), "StdDevSamp": (True, True), "VarPop": (False, False), "VarSamp": (True, False)}.items():
        a = arms.get(fn)
        if a is None:
            ctx.violation("primitive/%s/missing" % fn, ctx.where(AGG, m), "no arm for %s" % fn)
            continue
        ns = names(a["body"])
        locs = Locals(a["body"])
        cs = calls_to(a["body"], VARIANCE)
        n += 1
        ok = len(cs) == 1
        div = None
        if ok:
            d = locs.chase(cs[0]["args"][2])
            div = render(peel(d, methods=False))
            if samp:
                ok = "(size - 1)" in div or "len() - 1" in div
            else:
                ok = div.endswith(".len()") and "- 1" not in div
        ok = ok and (("sqrt" in ns) == sqrt)
        ctx.obligation(ok)
        if not ok:
            ctx.violation("primitive/%s" % fn, ctx.where(AGG, a["body"]),
                          "%s must divide the squared deviations by %s and %s take the square root; divisor `%s`, sqrt %s" %
                          (fn, "n - 1" if samp else "n", "" if sqrt else "not", div, "sqrt" in ns))
    # get_variance: sum of (mean - value)^2 / n over all rows; get_buffer_sum: sum of the parsed values
    import sem
    for fn, what in ((VARIANCE, "variance"), (SUM, "sum")):
        h = ctx.anchor_hir(fn)
        acc = _accumulation(ctx, fn, h)
        n += 1
        if acc is None:
            ctx.obligation(False)
            ctx.violation("primitive/%s-formula" % what, ctx.where(fn), "%s must accumulate over every row of the buffer with `+=` (or a fold); no such accumulation found" % short(fn, 1))
            continue
        rhs, is_row_value, locs = acc
        rr = render(rhs)
        if what == "sum":
            ok = is_row_value(rhs) and peel(locs.chase(rhs), methods=False)["k"] == "Path"
            why = "get_buffer_sum must add each value once; found `%s`" % rr
            # SUM of an integer column is exact: the values are added as integers (a float accumulator rounds above 2^53)
            INTS = ("u64", "usize", "u128", "i64", "i128", "isize")
            ty = str(peel(rhs).get("ty", "")).lstrip("&")
            n += 1
            ok_int = ty in INTS
            ctx.obligation(ok_int)
            if not ok_int:
                ctx.violation("primitive/sum-exact", ctx.where(fn, rhs),
                              "get_buffer_sum adds its values as `%s`: the SUM of an integer column must be exact (integer accumulation); "
                              "a floating-point accumulator silently rounds totals above 2^53" % ty)
        else:
            ok = False
            d = peel(locs.chase(rhs), methods=False)
            if d["k"] == "Bin" and d["op"] == "/":
                sq = peel(locs.chase(d["l"]), methods=False)
                dev = None
                if sq["k"] == "MCall" and sq["m"] == "powi" and render(sq["args"][0]) == "2":
                    dev = peel(locs.chase(sq["recv"]), methods=False)
                elif sq["k"] == "Bin" and sq["op"] == "*" and render(locs.chase(sq["l"])) == render(locs.chase(sq["r"])):
                    dev = peel(locs.chase(sq["l"]), methods=False)
                divisor = render(locs.chase(peel(d["r"], methods=False)))
                params = [p_["name"] for p_ in ctx.prog.fns[fn]["params"]]
                n_ok = any(divisor.replace("(", "").replace(")", "").split(" as ")[0].strip() == p_ for p_ in params[2:3])
                if dev is not None and dev["k"] == "Bin" and dev["op"] == "-":
                    sides = [dev["l"], dev["r"]]
                    mean_side = [x for x in sides if calls_to(locs.chase(peel(x, methods=False)), MEAN) or is_call_to(peel(locs.chase(peel(x, methods=False))), MEAN)]
                    val_side = [x for x in sides if is_row_value(x)]
                    ok = len(mean_side) == 1 and len(val_side) == 1 and mean_side[0] is not val_side[0] and n_ok
            why = "get_variance must accumulate (mean - value)^2 / n; found `%s`" % rr
        ctx.obligation(bool(ok))
        if not ok:
            ctx.violation("primitive/%s-formula" % what, ctx.where(fn, rhs), why)
    # MIN / MAX of an integer column are exact: the extremum is taken over integers, not over floats (which merge
    # neighbouring values above 2^53 and print them rounded)
    for fn in ("Min", "Max"):
        a = arms.get(fn)
        for x in (walk_exprs(a["body"]) if a else []):
            if x["k"] == "MCall" and x["m"] in ("min", "max", "min_by", "max_by", "min_by_key", "max_by_key"):
                ty = str(x.get("ty", ""))
                inner = ty[len("core::option::Option<"):-1].lstrip("&") if ty.startswith("core::option::Option<") else ty
                n += 1
                ok_int = inner in ("u64", "usize", "u128", "i64", "i128", "isize")
                ctx.obligation(ok_int)
                if not ok_int:
                    ctx.violation("primitive/%s-exact" % fn.lower(), ctx.where(AGG, x),
                                  "%s takes the extremum over values of type `%s`: the MIN / MAX of an integer column must be exact (integer comparison)" % (fn, inner))
    # all of them read the column named by buffer_key
    for fn in ("Min", "Max"):
        a = arms.get(fn)
        if a and "item.get(&buffer_key)" not in " ".join(render(x) for x in walk_exprs(a["body"]) if x["k"] == "MCall" and x["m"] == "get"):
            ctx.violation("primitive/%s/key" % fn, ctx.where(AGG, a["body"]), "%s does not read the aggregated column" % fn)
    ctx.covered("aggregate arms: primitive, divisor, sqrt, formulas", n, distinct_keys=sorted(arms), sample={k: names(v["body"])[:6] for k, v in arms.items() if k != "_"})
    # the three tables agree
    isagg = tables.variant_set(ctx, "function::Function::is_aggregate_function")
    have = {k for k in arms if k not in ("_",)}
    ok = isagg == oracles.AGGREGATES == have
    ctx.obligation(ok)
    if not ok:
        ctx.violation("aggregate-set", ctx.where("function::Function::is_aggregate_function"),
                      "is_aggregate_function (%s), the arms of get_aggregate_value (%s) and the documented aggregates differ" %
                      (sorted(isagg ^ oracles.AGGREGATES), sorted(have ^ oracles.AGGREGATES)))


def r3(ctx):
    """only rows accepted by WHERE reach the aggregation buffer, once each"""
    pushes = []
    for b in ctx.prog.bodies():
        for i, t in b.calls():
            if b.callee(t).endswith("Vec::push") and t["args"] and t["args"][0].get("p"):
                tr = b.trace(t["args"][0])
                s = str(tr)
                if "raw_output_buffer" in s:
                    pushes.extend((o, i) for o in sorted(ctx.prog.owners(b.name)))
    ok = len(pushes) == 1 and pushes[0][0] == CHECK_FILE
    ctx.obligation(ok)
    ctx.covered("writers of raw_output_buffer in the whole crate (MIR)", len(pushes), distinct_keys=[p[0] for p in pushes])
    if not ok:
        ctx.violation("buffer/writers", ctx.where(CHECK_FILE), "the aggregation buffer must be filled at exactly one place, in check_file; found %s" % pushes)
        return
    # one row per accepted entry, after the WHERE filter, only when the query aggregates: decided by the evaluation of
    # check_file on its scenario table (X-PIPELINE, rule list below)
    # the aggregate reads that buffer (or the group's partition), keyed by the text of its argument, and the argument is
    # evaluated into the entry's row first: get_function_value evaluated (rules/gcev.py) on MIN(ARG) with and without a partition
    import gcev
    import interp
    try:
        fr = gcev.FunRun(ctx)
        part = [interp.HMap({"<ARG>": "2"})]
        for partition in (None, part):
            got, ev, memo = fr.run(aggregate=True, partition=partition, extra=())
            ag = [e for e in ev if e[0] == "aggregate"]
            ok = len(ag) == 1 and ag[0][1] == ("partition" if partition is not None else "whole")
            ctx.obligation(ok)
            if not ok:
                ctx.violation("buffer/reader", ctx.where(GFV), "get_function_value must aggregate over the group's rows or, without grouping, the whole buffer (%s)" % ag)
            ok = len(ag) == 1 and ag[0][2] == "<ARG>"
            ctx.obligation(ok)
            if not ok:
                ctx.violation("buffer/key", ctx.where(GFV), "the aggregated column must be looked up by the text of the aggregate's argument (%s)" % ag)
            ok = ("eval", "ARG", True) in ev and memo.get("<ARG>") == "val:ARG" and (not ag or ev.index(("eval", "ARG", True)) < ev.index(ag[0]))
            ctx.obligation(ok)
            if not ok:
                ctx.violation("buffer/argument-materialised", ctx.where(GFV),
                              "the argument of an aggregate (e.g. LENGTH(name) in MIN(LENGTH(name))) must be evaluated into the entry's row "
                              "before the row is buffered; otherwise no buffered row has a value under the aggregate's key")
    except interp.Undecided as e:
        ctx.obligation(False)
        ctx.violation("buffer/reader", ctx.where(GFV), "cannot evaluate get_function_value on an aggregate: %s" % e)
    # function, column and arithmetic values are stored in the row under the expression's text: C15-R5 (shared, rule list below)
    ctx.covered("aggregation buffer discipline (single writer after the filter; reader; key; argument materialised; write-through)", 6,
                distinct_keys=["writer", "order", "reader", "key", "argument", "write-through"])


def _before(root, a, b):
    """a is evaluated before b in a pre-order walk of root (statement order)"""
    ia = ib = None
    for i, x in enumerate(walk_exprs(root)):
        if x is a:
            ia = i
        if x is b:
            ib = i
    return ia is not None and ib is not None and ia < ib


RULES = [
    ("C07-R1", "AVG is computed by real division", r1),
    ("C07-R2", "aggregate -> primitive / divisor / sqrt table; formulas; aggregate set", r2),
    ("C07-R3", "the WHERE filter is applied before aggregation; one buffer row per accepted entry", r3),
    ("X-BUFFER", "buffering predicates (ordered or aggregate) and recursive expression predicates [shared]", lambda ctx: __import__("extra").buffering_predicates(ctx)),
    ("C06-R2", "no early stop while rows are buffered for aggregation [shared with C06]", lambda ctx: __import__("c06").r2(ctx)),
    ("C15-R5", "the expression evaluator stores every computed value in the row under the expression's text [shared with C15]", lambda ctx: __import__("c15").r5(ctx)),
    ("C07-R6", "MIN / MAX range over the rows that have a value (empty and absent cells take no part)", lambda ctx: r6(ctx)),
    ("X-PIPELINE", "the per-entry pipeline of check_file evaluated on its scenario table (filter, count, row, buffer key, separator, closed output) [shared]", lambda ctx: __import__("cfile").pipeline(ctx)),
    ("X-OUTPUT", "the output phase of list_search_results evaluated on its scenario table (drain order, aggregate row, groups, failing output) [shared]", lambda ctx: __import__("lsr").output_phase(ctx)),
    ("C08-R4", "inside a group, function arguments are evaluated over that group's rows (nested aggregates) [shared with C08]", lambda ctx: __import__("gcev").nested_scope(ctx)),
    ("X-EXPRWALK", "recursive walks of an expression's value layer visit left, right and the further arguments [shared]", lambda ctx: __import__("extra2").value_walks_reach_arguments(ctx)),
]

EXPLANATION = (
    "Static necessary conditions of C07: every division on the path of the AVG arm has floating-point "
    "operands; get_aggregate_value is interpreted from the source (helpers included) for every Function variant on twelve "
    "discriminating buffers and must give the textbook value (COUNT = rows, SUM / MIN / MAX exact - values beyond 2^53 and, for "
    "MIN / MAX, below zero -, AVG = SUM / COUNT, the variance family by the population / sample formulas to 1e-9), a "
    "non-aggregate the default; is_aggregate_function agrees with the documentation on every variant (only when the function "
    "cannot be interpreted: each arm uses its primitive, divisor n or n-1, square root exactly for STDDEV, accumulation of "
    "(mean - value)^2 / n); the aggregation buffer has "
    "one writer (check_file, after the WHERE filter, outside any loop) and the aggregate reads that buffer keyed by "
    "the text of its argument. Numeric exactness for large sums, empty-input conventions and rounding are not decided."
    " The aggregate's argument is evaluated into the entry's row before the key is read and the evaluator stores function/column/arithmetic values under the expression text.")
ASSUMPTIONS = ["rustc's HIR/MIR faithfully represent the source; exporter and rule scripts are correct",
               "Iterator::min/max, f64::sqrt/powi as documented"]
NOT_DECIDED = ["the aggregate's value on buffers other than the twelve of the table (the table discriminates families of formulas; it is not a proof for every buffer)",
               "exactness for sums beyond usize/i64, values that do not parse as integers, SUM / AVG / variance over negative cells", "empty-input conventions, sample statistics of one row", "floating-point rounding"]


def r6(ctx):
    """MIN / MAX are taken over the buffered rows that have a value: rows whose cell is empty (an unreadable entry, a
    directory's line_count) or absent neither end the pass nor count as 0.  The two arms of get_aggregate_value are
    evaluated (finite interpreter) on every buffer of up to three rows over {"3", "7", empty cell, no cell}."""
    import interp
    import itertools
    h = ctx.anchor_hir(AGG)
    ps = ctx.prog.fns[AGG]["params"]
    if len(ps) != 4:
        ctx.violation("empty-cells/anchor", ctx.where(AGG), "get_aggregate_value no longer takes (function, buffer, key, default)")
        return
    cells = {"3": {"k": "3"}, "7": {"k": "7"}, "empty": {"k": ""}, "none": {"other": "1"}}
    n = 0
    for fn in ("Min", "Max"):
        for ln in range(0, 4):
            for combo in itertools.product(sorted(cells), repeat=ln):
                buf = [interp.HMap(cells[c]) for c in combo]
                vals = [int(c) for c in combo if c in ("3", "7")]
                want = str((min(vals) if fn == "Min" else max(vals)) if vals else 0)
                env = {ps[0]["id"]: interp.some(interp.V("Function::" + fn, [])), ps[1]["id"]: buf, ps[2]["id"]: "k", ps[3]["id"]: interp.NONE}
                n += 1
                try:
                    got = interp.Interp(prog=ctx.prog, max_steps=20000).run(h, env)
                except interp.Undecided as e:
                    ctx.obligation(False)
                    ctx.violation("empty-cells/%s/unreadable" % fn, ctx.where(AGG), "cannot evaluate %s over the buffer %s: %s" % (fn.upper(), list(combo), e))
                    break
                ok = got == want
                ctx.obligation(ok)
                if not ok:
                    ctx.violation("empty-cells/%s" % fn, ctx.where(AGG),
                                  "%s over the rows %s is `%s`, expected `%s`: rows without a value (empty cell of an unreadable entry or of a "
                                  "directory) take no part in the aggregate and do not end the pass" % (fn.upper(), list(combo), got, want))
                    break
            else:
                continue
            break
    ctx.covered("MIN / MAX evaluated on all buffers of <= 3 rows over {3, 7, empty cell, no cell}", n, distinct_keys=["Min", "Max"], exhaustive=True)
