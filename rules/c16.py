"""C16 — every documented scalar function computes its documented value (static necessary conditions)."""
from hirq import *  # noqa: F401,F403
import oracles
import tables
from core import Abort

GET_VALUE = "function::get_value"
GFUNV = "searcher::Searcher::get_function_value"

# function -> names its arm must use; `not` lists names of siblings it must not use
PRIMITIVES = {
    "Lower": (["to_lowercase"], ["to_uppercase"]), "Upper": (["to_uppercase"], ["to_lowercase"]),
    "InitCap": (["split_whitespace", "capitalize", "to_lowercase", "join"], ["len"]),
    "Length": (["chars", "count"], ["len"]),
    "ToBase64": (["encode"], ["decode"]), "FromBase64": (["decode"], ["encode"]),
    "Concat": (["join"], []), "ConcatWs": (["join"], []),
    "Substring": (["chars", "skip", "take", "count"], ["len"]),
    "Replace": (["replace"], ["replacen"]),
    "Trim": (["trim"], ["trim_start", "trim_end"]), "LTrim": (["trim_start"], ["trim", "trim_end"]),
    "RTrim": (["trim_end"], ["trim", "trim_start"]),
    "Bin": (["new_binary"], ["new_lower_hex", "new_octal"]), "Hex": (["new_lower_hex"], ["new_binary", "new_octal"]),
    "Oct": (["new_octal"], ["new_binary", "new_lower_hex"]),
    "Abs": (["abs"], ["sqrt", "ln", "exp"]), "Power": (["powf"], ["log"]), "Sqrt": (["sqrt"], ["abs", "ln", "exp"]),
    "Log": (["log"], ["powf", "ln"]), "Ln": (["ln"], ["log", "exp", "sqrt"]), "Exp": (["exp"], ["ln", "sqrt"]),
    "Least": (["min"], ["max"]), "Greatest": (["max"], ["min"]),
    "ContainsJapanese": (["contains_japanese"], []), "ContainsHiragana": (["contains_hiragana"], []),
    "ContainsKatakana": (["contains_katakana"], []), "ContainsKana": (["contains_kana"], []),
    "ContainsKanji": (["contains_kanji"], []),
    "FormatSize": (["format_filesize"], []), "FormatTime": (["to_human_time_string", "from_secs"], []),
    "CurrentDate": (["now", "format_date"], []),
    "Year": (["parse_datetime", "year"], ["month", "day"]), "Month": (["parse_datetime", "month"], ["year", "day"]),
    "Day": (["parse_datetime", "day"], ["year", "month"]),
    "DayOfWeek": (["parse_datetime", "weekday", "number_from_sunday"], ["number_from_monday"]),
    "Coalesce": (["is_empty"], []),
    "Contains": (["read_to_string", "contains"], []),
}


def arms_of(ctx):
    hir = ctx.anchor_hir(GET_VALUE)
    ms = find_matches(hir, min_arms=20)
    if len(ms) != 1:
        ctx.violation("anchor/get_value-match", GET_VALUE, "per-function match of get_value not found")
        raise Abort()
    return {key_name(k).split("::")[-1]: a for a in match_arms(ms[0]) for k in a["keys"]}, ms[0], hir


def names_of(body):
    s = []
    for x in walk_exprs(body):
        if x["k"] == "MCall":
            s.append(x["m"])
        elif x["k"] == "Call" and x.get("callee") and not x.get("ctor"):
            s.append(short(x["callee"], 1))
    return s


def r1(ctx):
    arms, m, hir = arms_of(ctx)
    variants = ctx.prog.adt_variants("function::Function") or []
    scalar = [v for v in variants if v not in oracles.AGGREGATES]
    n = 0
    for v in scalar:
        n += 1
        ok = v in arms
        ctx.obligation(ok)
        if not ok:
            ctx.violation("dispatch/%s" % v, ctx.where(GET_VALUE, m), "scalar function %s has no arm in get_value: it silently yields an empty value" % v)
    ctx.covered("scalar Function variants with their own arm in get_value", n, distinct_keys=scalar, exhaustive=True)
    ctx.floor(n, 43, "scalar function variants", "function::Function")
    # the scrutinee is the function itself
    ok = render(peel(m["scrut"])) == "function"
    ctx.obligation(ok)
    if not ok:
        ctx.violation("dispatch/scrutinee", ctx.where(GET_VALUE, m), "get_value does not dispatch on its function parameter")


def r2(ctx):
    arms, m, hir = arms_of(ctx)
    n = 0
    for fn, (need, forbid) in PRIMITIVES.items():
        a = arms.get(fn)
        if a is None:
            continue   # reported by R1
        ns = names_of(a["body"])
        n += 1
        missing = [x for x in need if x not in ns]
        bad = [x for x in forbid if x in ns]
        ok = not missing and not bad
        ctx.obligation(ok)
        if not ok:
            ctx.violation("primitive/%s" % fn, ctx.where(GET_VALUE, a["body"]),
                          "%s must be computed with %s%s; its arm uses %s" %
                          (fn, need, " and not " + str(forbid) if forbid else "", ns[:12]))
    ctx.covered("function arms checked against the function -> primitive table", n, distinct_keys=list(PRIMITIVES),
                sample={"Length": names_of(arms["Length"]["body"]) if "Length" in arms else None})
    ctx.floor(n, 36, "function arms with a primitive row", GET_VALUE)
    # operand roles
    checks = {
        "Lower": "function_arg.to_lowercase()", "Upper": "function_arg.to_uppercase()",
        "Length": "function_arg.chars().count()", "Trim": "function_arg.trim()", "LTrim": "function_arg.trim_start()",
        "RTrim": "function_arg.trim_end()", "ConcatWs": "function_args.join(&function_arg)",
    }
    for fn, frag in checks.items():
        a = arms.get(fn)
        if a is None:
            continue
        ok = any(frag in render(x) for x in walk_exprs(a["body"]))
        ctx.obligation(ok)
        if not ok:
            ctx.violation("operand/%s" % fn, ctx.where(GET_VALUE, a["body"]), "%s must compute `%s`" % (fn, frag))
    a = arms.get("Replace")
    if a:
        locs = Locals(a["body"])
        cs = [c for c in walk_exprs(a["body"]) if c["k"] == "MCall" and c["m"] == "replace"]
        ok = len(cs) == 1
        if ok:
            src = render(locs.chase(cs[0]["recv"]))
            frm = render(locs.chase(cs[0]["args"][0]))
            to = render(locs.chase(cs[0]["args"][1]))
            ok = src == "function_arg" and "function_args[0]" in frm and "function_args[1]" in to
        # decided by evaluation when the arm can be read by the finite interpreter (any spelling of the argument checks)
        import interp

        def call(node, recv, args, it, env):
            callee = str(node.get("callee", ""))
            if callee.endswith("Variant::from_string") and args and isinstance(args[0], str):
                return (("text", args[0]),)
            if callee.endswith("Variant::empty"):
                return (("empty",),)
            return None
        try:
            r1_ = interp.eval_in(ctx.anchor_hir(GET_VALUE), a["body"], {"function_arg": "a-b-c", "function_args": ["-", "+"]}, call=call, prog=ctx.prog)
            r2_ = interp.eval_in(ctx.anchor_hir(GET_VALUE), a["body"], {"function_arg": "a-b-c", "function_args": ["-"]}, call=call, prog=ctx.prog)
            r3_ = interp.eval_in(ctx.anchor_hir(GET_VALUE), a["body"], {"function_arg": "xyx", "function_args": ["x", ""]}, call=call, prog=ctx.prog)
            ok = r1_ == ("text", "a+b+c") and r2_ == ("empty",) and r3_ == ("text", "y")
        except interp.Undecided:
            pass
        ctx.obligation(ok)
        if not ok:
            ctx.violation("operand/Replace", ctx.where(GET_VALUE, a["body"]), "REPLACE(str, from, to) must be str.replace(arg0, arg1)")
    a = arms.get("Substring")
    if a:
        allr = " ".join(render(x) for x in walk_exprs(a["body"]))
        flat = allr.replace("(", "").replace(")", "").replace("&", "")
        one_based = "- 1" in allr or "saturating_sub1" in flat or "checked_sub1" in flat
        first_arg = "function_args[0]" in allr or "function_args.first" in flat
        ok = one_based and "pos < 0" in flat and first_arg and "function_args.get1" in flat
        # decided by evaluation where the arm can be read by the finite interpreter: 1-based position, negative positions from
        # the end, optional length, characters not bytes
        try:
            ev_ = lambda s_, args_: interp.eval_in(ctx.anchor_hir(GET_VALUE), a["body"], {"function_arg": s_, "function_args": list(args_)}, call=call, prog=ctx.prog)
            ok = ev_("abcdef", ["2", "3"]) == ("text", "bcd") and ev_("abcdef", ["3"]) == ("text", "cdef") and ev_("abcdef", ["-2"]) == ("text", "ef") and \
                ev_("\u00e9\u00e8abc", ["2", "2"]) == ("text", "\u00e8a") and ev_("abc", ["1", "99"]) == ("text", "abc")
        except interp.Undecided:
            pass
        ctx.obligation(ok)
        if not ok:
            ctx.violation("operand/Substring", ctx.where(GET_VALUE, a["body"]),
                          "SUBSTR must be 1-based (pos - 1), count negative positions from the end, and take an optional length")
    a = arms.get("Coalesce")
    if a:
        rets = [render(x["e"]) for x in walk_exprs(a["body"]) if x["k"] == "Ret" and "e" in x]
        ok = len(rets) >= 2 and "function_arg" in rets[0] and "arg" in rets[1]
        try:
            ev_ = lambda s_, args_: interp.eval_in(ctx.anchor_hir(GET_VALUE), a["body"], {"function_arg": s_, "function_args": list(args_)}, call=call, prog=ctx.prog)
            ok = ev_("a", ["b"]) == ("text", "a") and ev_("", ["", "z", "y"]) == ("text", "z") and ev_("", ["b"]) == ("text", "b") and ev_("", ["", ""]) in (("text", ""), ("empty",))
        except interp.Undecided:
            pass
        ctx.obligation(ok)
        if not ok:
            ctx.violation("operand/Coalesce", ctx.where(GET_VALUE, a["body"]), "COALESCE must return its first non-empty argument, starting with the first")
    ctx.covered("operand roles of string functions", len(checks) + 3, distinct_keys=list(checks) + ["Replace", "Substring", "Coalesce"])
    # capitalize: first char upper-cased, rest unchanged
    # (evaluated, finite interpreter: words whose first letter is plain, accented, or has an upper-case form of several
    # characters - the whole upper-case mapping is kept -, the empty word, a one-letter word)
    import interp
    ch = ctx.anchor_hir("util::capitalize")
    cps = ctx.prog.fns["util::capitalize"]["params"]
    bad = []
    words = ("hello", "x", "", "\u00e9cole", "\u00dfeta", "\ufb01sh", "a b", "1abc")
    for w in words:
        try:
            got = interp.Interp(prog=ctx.prog, max_steps=5000).run(ch, {cps[0]["id"]: w})
        except interp.Undecided as e:
            bad.append("cannot evaluate capitalize(%r): %s" % (w, e))
            break
        want = w[:1].upper() + w[1:]
        if got != want:
            bad.append("capitalize(%r) gives %r, expected %r" % (w, got, want))
    ctx.obligation(not bad)
    if bad:
        ctx.violation("primitive/capitalize", ctx.where("util::capitalize"), "capitalize must upper-case the first character (its whole upper-case form) and keep the rest: %s" % "; ".join(bad[:3]))


def r4(ctx):
    """composition: the argument and every extra argument are evaluated through the expression evaluator, in order, and
    their values are what the function is applied to; the result is stored under the call's text: get_function_value
    evaluated (rules/gcev.py) on F(ARG), F(ARG, A1, A2)"""
    import gcev
    import interp
    run = gcev.FunRun(ctx)
    ok, why = True, ""
    n = 0
    for extra in ((), ("A1", "A2")):
        try:
            got, ev, memo = run.run(extra=extra)
        except interp.Undecided as e:
            ok, why = False, "cannot evaluate get_function_value: %s" % e
            break
        n += 1
        evals = [e[1] for e in ev if e[0] == "eval"]
        gv = [e for e in ev if e[0] == "get_value"]
        good = evals == ["ARG"] + list(extra) and len(gv) == 1 and gv[0][1:] == ("Function::Concat", "val:ARG", ["val:%s" % t for t in extra]) and \
            isinstance(got, dict) and got.get("__variant") == "result" and memo.get("f(<ARG>)") == "result"
        if not good:
            ok, why = False, "for F(ARG%s): evaluated %s, dispatched %s, returned %s, stored %s" % ("".join(", " + t for t in extra), evals, [g[1:] for g in gv], got, dict(memo))
            break
    ctx.obligation(ok)
    ctx.covered("argument evaluation of get_function_value (first argument, extra arguments, dispatch, result stored)", max(n, 1), distinct_keys=["first", "extra", "dispatch"], exhaustive=True)
    if not ok:
        ctx.violation("composition", ctx.where(GFUNV), "a function's argument and every extra argument must be evaluated as expressions (get_column_expr_value) before dispatch, so that F(G(x)) = F applied to the value of G(x): %s" % why)


RULES = [
    ("C16-R1", "dispatch is exhaustive over the scalar functions", r1),
    ("C16-R2", "function -> primitive table and operand roles", r2),
    ("C16-R4", "composition: arguments are evaluated before dispatch", r4),
    ("C16-R3", "argument handling never panics: panic sites of get_value and its helpers are guarded or reviewed [analysis P of C10]",
     lambda ctx: __import__("c10").r1(ctx, only=lambda s: s.fn.startswith("function::get_value") or s.fn in ("util::capitalize", "util::format_filesize", "util::format_filesize::{closure#0}", "searcher::Searcher::get_function_value") or s.fn.startswith("util::datetime::parse_datetime"), rule_prefix="fn-")),
    ("X-VARIANT", "Variant constructors, text renderings and coercion order [shared]", lambda ctx: __import__("extra").variant_constructors(ctx)),
    ("X-DATEALIKE", "unquoted date literals reach the functions whole (lexer look-ahead) [shared]", lambda ctx: __import__("extra").looks_like_date_rule(ctx)),
    ("X-LITVALUE", "a literal argument evaluates to the text written in the query [shared]", lambda ctx: __import__("extra2").literal_is_its_text(ctx)),
    ("C02-R4", "quoted literals are never resolved as column / function names [shared with C02]", lambda ctx: __import__("c02").r4(ctx)),
    ("X-LEXEMS", "every lexem but an empty quoted string reaches the grammar (a blank string is a value) [shared]", lambda ctx: __import__("extra2").lexems_are_kept(ctx)),
    ("X-NAMES", "column names and function names do not overlap (a bare word is tried as a column first) [shared]", lambda ctx: __import__("extra2").names_disjoint(ctx)),
    ("X-BRACKETS", "wherever the parser tests for a closing bracket of one style it provides for the other style as well [shared]", lambda ctx: __import__("extra2").bracket_styles_agree(ctx)),
    ("C13-R2", "date arguments: the interval table of parse_datetime on the extracted regex, days 30 / 31 included [shared with C13]", lambda ctx: __import__("c13").r2(ctx)),
    ("C15-R5", "a function value read a second time in the row (another column, a sort key, an aggregate) is the value returned the first time, sign included [shared with C15]", lambda ctx: __import__("c15").r5(ctx)),
    ("C15-R4", "a leading minus negates the function's value [shared with C15]", lambda ctx: __import__("c15").r4(ctx)),
]

EXPLANATION = (
    "Static structural necessary conditions of C16: every non-aggregate Function variant has its own arm in "
    "get_value; each arm uses the documented primitive and none of a sibling's (to_lowercase vs to_uppercase, "
    "chars().count() vs len, trim/trim_start/trim_end, {:b}/{:x}/{:o}, abs/sqrt/ln/exp/powf/log, min/max, "
    "year/month/day, number_from_sunday, encode/decode ...), with the documented operand roles for REPLACE, SUBSTR, "
    "CONCAT_WS, COALESCE; get_function_value evaluates the argument and every extra argument through the expression "
    "evaluator before dispatch. Argument-parsing panics are decided under C10 (panic-site analysis). The values "
    "computed by std/chrono/rbase64 are trusted."
    ' Variant::from_* store the value in the slot of their own type and render numbers plainly.')
ASSUMPTIONS = ["rustc's HIR faithfully represents the source; exporter and rule scripts are correct",
               "std, chrono, rbase64, human-time compute what their documentation says"]
NOT_DECIDED = ["the values computed by std / chrono / rbase64 on arbitrary strings", "Unicode edge cases of case conversion"]
