"""Scenario evaluation of the output phase of Searcher::list_search_results (header, grouped / aggregate / ordered rows,
separators, footer) by the finite interpreter: the query has no roots (the walking phase does nothing), the buffers hold
tagged rows, the expression evaluator, the results writer and standard output are recording stand-ins."""
import interp
from extra import _expr_dict

LSR = "searcher::Searcher::list_search_results"


def tagged(tag):
    d = _expr_dict(interp, val=interp.some(tag))
    d["__tag"] = tag
    return d


def _io(state):
    if state == "ok":
        return interp.V("Result::Ok", [()])
    return interp.V("Result::Err", [{"__kind": "ErrorKind::BrokenPipe" if state == "pipe" else "ErrorKind::Other"}])


class Run:
    def __init__(self, ctx):
        self.ctx = ctx
        self.hir = ctx.anchor_hir(LSR)
        self.ps = ctx.prog.fns[LSR]["params"]

    def run(self, mode, order=(), asc=(), out_fail_at=None, out_fail="pipe", group_values=None, buffered_rows=("r1", "r2", "r3"), group_fields=("g",), limit=0, roots=(), found_per_root=0):
        """mode: "grouped" | "aggregate" | "buffered" | "streamed".
        group_values: {group key tuple: {column tag: value}} for the grouped mode (value per selected column).
        out_fail_at: index of the standard-output operation that fails (None: none).
        -> (return value, events)"""
        ev = []
        nout = [0]
        bufs = []
        select = ("a", "b")
        group_values = group_values or {("g1",): {"a": "1", "b": "x"}, ("g2",): {"a": "2", "b": "y"}}
        parts = interp.HMap()
        for k, vals in group_values.items():
            dict.__setitem__(parts, tuple(k), [interp.HMap({"__part": k})])
        q = {"expr": interp.NONE, "fields": [tagged(t) for t in select], "ordering_fields": [tagged(t) for t in order], "ordering_asc": list(asc),
             "grouping_fields": [tagged(t) for t in group_fields] if mode == "grouped" else [],
             "roots": [{"path": r, "options": {"min_depth": 0, "max_depth": 0, "archives": False, "symlinks": False, "gitignore": interp.NONE, "hgignore": interp.NONE,
                                              "dockerignore": interp.NONE, "traversal": interp.V("TraversalMode::Bfs"), "regexp": False, "alias": interp.NONE}} for r in roots],
             "limit": limit}
        selfv = interp.LazySelf({"query": q, "results_writer": {"__rw": True}, "output_buffer": {"__ob": True}, "raw_output_buffer": [interp.HMap({"__part": "all"})],
                 "partitioned_output_buffer": parts, "config": {"debug": False, "gitignore": interp.NONE, "hgignore": interp.NONE, "dockerignore": interp.NONE}, "error_count": 0, "found": len(buffered_rows) if not roots else 0, "dir_queue": [], "default_config": {"gitignore": interp.NONE, "hgignore": interp.NONE, "dockerignore": interp.NONE},
                 "hgignore_filters": [], "dockerignore_filters": [], "visited_inodes": set(), "current_follow_symlinks": False})

        def stdout_op(what):
            i = nout[0]
            nout[0] += 1
            ev.append(("out", what))
            return _io(out_fail if out_fail_at == i else "ok")

        def call(node, recv, args, it, env):
            callee = str(node.get("callee", ""))
            m = node.get("m")
            if m == "visit_dir" or callee.endswith("::visit_dir"):
                ev.append(("visit", args[0] if args else None))
                selfv["found"] = selfv["found"] + found_per_root
                return (interp.V("Result::Ok", [()]),)
            if callee.endswith("Path::new") and args:
                return (args[0],)
            if callee.endswith("symlink_metadata") or m in ("metadata", "symlink_metadata"):
                return (interp.V("Result::Err", [interp.Opaque("no stat in the scenario")]),)
            if callee.endswith("Repository::discover") or callee.endswith("Repository::open"):
                return (interp.V("Result::Err", [interp.Opaque("no repository in the scenario")]),)
            if callee.endswith("env::current_dir"):
                return (interp.V("Result::Ok", [interp.Opaque("cwd")]),)
            if callee.endswith("Instant::now"):
                return (interp.Opaque("now"),)
            if m in ("duration_since", "as_millis"):
                return (interp.Opaque("t"),)
            if m == "has_aggregate_column" or callee.endswith("::has_aggregate_column"):
                return (mode in ("grouped", "aggregate"),)
            if m == "is_buffered" or callee.endswith("::is_buffered"):
                return (mode != "streamed",)
            if m in ("has_ordering", "is_ordered"):
                return (bool(order),)
            if m == "partition_output_buffer":
                return (parts,)
            if m == "to_string" and isinstance(recv, dict) and "__tag" in recv:
                return (recv["__tag"],)
            if m == "get_column_expr_value" or callee.endswith("::get_column_expr_value"):
                e = [a for a in args if isinstance(a, dict) and "__tag" in a]
                part = None
                for a in args:
                    if isinstance(a, interp.V) and a.name == "Option::Some" and isinstance(a.args[0], list) and a.args[0] and isinstance(a.args[0][0], interp.HMap):
                        part = a.args[0][0].get("__part")
                tag = e[0]["__tag"] if e else "?"
                maps = [a for a in args if isinstance(a, interp.HMap)]
                ev.append(("eval", tag, part, dict(maps[0]) if maps else None))
                if mode == "grouped" and part in group_values:
                    return ({"__variant": group_values[part].get(tag, "?")},)
                return ({"__variant": "val:%s" % tag},)
            if m == "to_string" and isinstance(recv, dict) and "__variant" in recv:
                return (recv["__variant"],)
            if isinstance(recv, dict) and "__rw" in recv:
                tgt = args[0] if args else None
                if isinstance(tgt, dict) and "__stdout" in tgt:
                    return (stdout_op(str(m)),)
                ev.append((str(m),) + tuple(args))
                return (interp.V("Result::Ok", [()]),)
            if isinstance(recv, dict) and "__ob" in recv and m == "values":
                return (["<%s>" % r for r in buffered_rows],)
            if callee.endswith("WritableBuffer::new"):
                b = {"__buf": len(bufs)}
                bufs.append(b)
                return (b,)
            if len(args) == 1 and isinstance(args[0], dict) and "__buf" in args[0] and (callee.endswith("::from") or callee.endswith("::into")):
                return ("<text of buffer %d>" % args[0]["__buf"],)
            if m == "kind" and isinstance(recv, dict) and "__kind" in recv:
                return (interp.V(recv["__kind"]),)
            if callee.endswith("io::stdio::stdout") or callee.endswith("io::stdout"):
                return ({"__stdout": True},)
            if callee.endswith("rc::Rc<T>::new") or callee.endswith("Rc::new"):
                return (args[0],)
            return None

        def effect(node, it, env):
            from hirq import walk_exprs, render
            if node["k"] == "MCall" and node["m"] == "write_fmt" and "stdout" in render(node["recv"]):
                texts = []
                for y in walk_exprs(node):
                    if y["k"] == "Path" and y.get("rk") == "Local":
                        try:
                            v = it.ev(y, env)
                            if isinstance(v, str):
                                texts.append(v)
                        except interp.Undecided:
                            pass
                    if y["k"] == "Call" and y is not node and not y.get("exp"):
                        try:
                            v = it.ev(y, env)
                            if isinstance(v, str):
                                texts.append(v)
                        except interp.Undecided:
                            pass
                return (stdout_op(("text",) + tuple(dict.fromkeys(texts))),)
            if node.get("mac") in ("eprintln", "eprint", "dbg"):
                return ((),)
            return None
        env = {self.ps[0]["id"]: selfv}
        got = interp.Interp(call=call, effect=effect, prog=self.ctx.prog, max_steps=200000).run(self.hir, env)
        return got, ev



def output_phase(ctx):
    """X-OUTPUT: the output phase of list_search_results on its scenario table"""
    run = Run(ctx)
    n = 0
    seen = set()

    def bad(key, msg):
        if key not in seen:
            seen.add(key)
            ctx.violation("output/" + key, ctx.where(LSR), msg)

    def outs(ev):
        return [e[1] for e in ev if e[0] == "out"]

    def okres(got):
        return isinstance(got, interp.V) and got.name == "Result::Ok"
    try:
        # (1) buffered rows are drained in buffer order, separated, between header and footer
        got, ev = run.run("buffered")
        n += 1
        want = ["write_header", ("text", "<r1>"), "write_row_separator", ("text", "<r2>"), "write_row_separator", ("text", "<r3>"), "write_footer"]
        ok = outs(ev) == want and okres(got)
        ctx.obligation(ok)
        if not ok:
            bad("buffered-drain", "buffered rows must be written in buffer order, with a separator between consecutive rows, after the header and before the footer; "
                "standard output receives %s" % outs(ev))
        got, ev = run.run("buffered", buffered_rows=())
        n += 1
        ok = outs(ev) == ["write_header", "write_footer"] and okres(got)
        ctx.obligation(ok)
        if not ok:
            bad("framing/empty", "an empty result is the header followed by the footer; standard output receives %s" % outs(ev))
        # (2) streamed: header and footer only (rows were printed by check_file)
        got, ev = run.run("streamed")
        n += 1
        ok = outs(ev) == ["write_header", "write_footer"] and okres(got)
        ctx.obligation(ok)
        if not ok:
            bad("framing/streamed", "a streamed query writes only the header and the footer here; standard output receives %s" % outs(ev))
        # (3) one aggregate row over the whole buffer
        got, ev = run.run("aggregate")
        n += 1
        rows = [e for e in ev if e[0] == "write_row"]
        evs = [(e[1], e[2]) for e in ev if e[0] == "eval"]
        ok = len(rows) == 1 and list(rows[0][2]) == [("a", "val:a"), ("b", "val:b")] and evs == [("a", None), ("b", None)] and \
            outs(ev) == ["write_header", ("text", "<text of buffer %d>" % rows[0][1]["__buf"]), "write_footer"] and okres(got)
        ctx.obligation(ok)
        if not ok:
            bad("aggregate-row", "an aggregate query without GROUP BY writes one row: the select list in order, evaluated over the whole buffer; rows %s, evaluations %s, output %s" %
                ([list(r[2]) for r in rows], evs, outs(ev)))
        # (4) grouped: one row per group, each evaluated over its own partition with the key columns bound by position
        gv = {("g1", "h1"): {"a": "2", "b": "x"}, ("g2", "h2"): {"a": "10", "b": "y"}, ("g3", "h3"): {"a": "10", "b": "x"}}
        got, ev = run.run("grouped", group_values=gv, group_fields=("g", "h"))
        n += 1
        rows = [e for e in ev if e[0] == "write_row"]
        want_rows = sorted([("a", v["a"]), ("b", v["b"])] for v in gv.values())
        ok = sorted(list(r[2]) for r in rows) == want_rows
        ctx.obligation(ok)
        if not ok:
            bad("groups/one-row-per-partition", "every group must yield exactly one row holding the select list in order; rows %s" % [list(r[2]) for r in rows])
        evs = [e for e in ev if e[0] == "eval"]
        ok = len(evs) == 2 * len(gv) and all(e[2] in gv for e in evs)
        ctx.obligation(ok)
        if not ok:
            bad("groups/aggregate-scope", "a group's columns must be evaluated over that group's rows only (buffer_data = the partition); evaluations %s" % [(e[1], e[2]) for e in evs])
        ok = all(e[3] is not None and e[3].get("g") == e[2][0] and e[3].get("h") == e[2][1] for e in evs if e[2] in gv)
        ctx.obligation(ok)
        if not ok:
            bad("groups/key-binding", "the i-th grouping expression must be bound to the i-th component of the partition key; row maps %s" % [(e[2], e[3]) for e in evs][:3])
        o = outs(ev)
        ok = o[:1] == ["write_header"] and o[-1:] == ["write_footer"] and len([x for x in o if isinstance(x, tuple)]) == len(gv) and okres(got)
        seps = [e for e in ev if e[0] == "write_row_separator"]
        ok = ok and len(seps) + len([x for x in o if x == "write_row_separator"]) == len(gv) - 1
        ctx.obligation(ok)
        if not ok:
            bad("groups/framing", "group rows are written between header and footer, separated like any other rows; output %s, %d separators" % (o, len(seps)))
        # (4b) the parser's limit (explicit, or the implicit 1 of a select list without columns such as `count(*)`) bounds the rows
        # found by the walk, not the group rows: every group is written whatever query.limit is
        for lim in (1, 2):
            got, ev = run.run("grouped", group_values=gv, group_fields=("g", "h"), limit=lim)
            n += 1
            rows = [e for e in ev if e[0] == "write_row"]
            ok = len(rows) == len(gv)
            ctx.obligation(ok)
            if not ok:
                bad("groups/limit", "with query.limit = %d only %d of %d groups are written: `count(*) .. group by ext` carries the implicit limit 1 of a select "
                    "list without columns, so the groups must not be cut by it" % (lim, len(rows), len(gv)))
        # (5) ordering of group rows: numbers by value, text by text, ascending a-vs-b and descending b-vs-a, keys in order
        for order, asc, want in ((("a",), (True,), ["2", "10", "10"]), (("a",), (False,), ["10", "10", "2"]),
                                 (("b",), (True,), ["x", "x", "y"]), (("b",), (False,), ["y", "x", "x"]),
                                 (("a", "b"), (False, True), [("10", "x"), ("10", "y"), ("2", "x")]),
                                 (("a", "b"), (True, False), [("2", "x"), ("10", "y"), ("10", "x")])):
            got, ev = run.run("grouped", order=order, asc=asc, group_values=gv, group_fields=("g", "h"))
            n += 1
            rows = [dict(r[2]) for r in ev if r[0] == "write_row"]
            seq = [r.get(order[0]) if len(order) == 1 else tuple(r.get(k) for k in order) for r in rows]
            ok = seq == want
            ctx.obligation(ok)
            if not ok:
                bad("groups/ordering-direction", "group rows must be compared a-vs-b for ascending keys and b-vs-a for descending ones, for numbers and for text alike: "
                    "ORDER BY %s %s gives %s, expected %s" % (list(order), ["asc" if x else "desc" for x in asc], seq, want))
        # (5b) with search roots: the header precedes the walk, every root is walked in order (a reached LIMIT may cut the list
        # short), and the footer is written after the walk whatever the walk found
        for mode in ("streamed", "buffered"):
            for lim in (0, 1):
                got, ev = run.run(mode, roots=("/r1", "/r2", "/r3"), limit=lim, found_per_root=1, buffered_rows=())
                n += 1
                visits = [e[1] for e in ev if e[0] == "visit"]
                o = outs(ev)
                ok = okres(got) and o[:1] == ["write_header"] and o[-1:] == ["write_footer"] and visits == ["/r1", "/r2", "/r3"][:len(visits)] and \
                    (lim != 0 or len(visits) == 3) and len(visits) >= 1
                ctx.obligation(ok)
                if not ok:
                    bad("framing/roots", "with three search roots (%s, limit %d) the output must be header, rows, footer and the roots must be walked in order; "
                        "walked %s, standard output receives %s, result %s" % (mode, lim, visits, o, got))
        # (6) a closed or failing standard output: no panic, and nothing but a stop or a propagated error
        for mode in ("buffered", "aggregate", "grouped", "streamed"):
            base, ev0 = run.run(mode)
            for i in range(len(outs(ev0))):
                for kind in ("pipe", "other"):
                    got, ev = run.run(mode, out_fail_at=i, out_fail=kind)
                    n += 1
                    ok = isinstance(got, interp.V) and got.name in ("Result::Ok", "Result::Err")
                    ctx.obligation(ok)
                    if not ok:
                        bad("closed-output", "with standard output %s at write %d of the %s output, list_search_results gives %s" % (kind, i, mode, got))
    except interp.Undecided as e:
        ctx.obligation(False)
        bad("unreadable", "cannot evaluate the output phase of list_search_results: %s" % e)
    ctx.covered("output phase of list_search_results evaluated on its scenario table (drain, aggregate row, groups, group ordering, failing output)", n,
                distinct_keys=["buffered-drain", "framing", "aggregate-row", "groups", "ordering-direction", "closed-output"], exhaustive=True)
    ctx.floor(n, 30, "output-phase scenarios", LSR)
