"""C15 — expressions follow arithmetic rules; each column is evaluated on its own (static necessary conditions)."""
import re
from hirq import *  # noqa: F401,F403
import oracles
from core import Abort

ADD_SUB = "parser::Parser::parse_add_sub"
MUL_DIV = "parser::Parser::parse_mul_div"
PAREN = "parser::Parser::parse_paren"
FUNC_SCALAR = "parser::Parser::parse_func_scalar"
CALC = "operators::ArithmeticOp::calc"
GCEV = "searcher::Searcher::get_column_expr_value"
GFUNV = "searcher::Searcher::get_function_value"
DISPLAY = "<expr::Expr as core::fmt::Display>::fmt"


def _arith_pats(h):
    s = set()
    for x in walk(h):
        if x["k"] in ("PPath",) and "ArithmeticOp::" in x.get("res", ""):
            s.add(short(x["res"], 1))
    return s


def _level_table(ctx, fn, operand):
    """one precedence level of the expression grammar evaluated (finite interpreter; the parser's cursor is its lexem list and
    index; the next-tighter level `operand` is a stand-in that takes one word and returns it as a leaf; Expr::arithmetic_op is a
    stand-in that builds a triple) on lexem lists -> {label: (result, cursor)}"""
    import interp
    import norm
    V = interp.V
    hir = ctx.anchor_hir(fn)
    ps = ctx.prog.fns[fn]["params"]
    W, OP = (lambda t: V("Lexem::RawString", [t])), (lambda t: V("Lexem::ArithmeticOperator", [t]))
    lists = {"a": [W("a")], "a ? b ? c ? d": None, "nothing": []}
    out = {}

    def run(lexems):
        selfv = interp.LazySelf({"lexems": list(lexems), "index": 0, "roots_parsed": True, "where_parsed": True})

        def call(node, recv, args, it, env):
            m_ = node.get("m")
            callee = str(node.get("callee", ""))
            if m_ == operand or callee.endswith("Parser::" + operand):
                i = selfv["index"]
                if i < len(selfv["lexems"]) and selfv["lexems"][i].name == "Lexem::RawString":
                    selfv["index"] = i + 1
                    return (V("Result::Ok", [interp.some(selfv["lexems"][i].args[0])]),)
                return (V("Result::Err", ["Error parsing expression, expecting an operand"]),)
            if (m_ or "").startswith("parse_") or "Parser::parse_" in callee:
                raise interp.Undecided("the operands of %s are taken from %s instead of %s, the next-tighter level" % (short(fn, 1), m_ or short(callee, 1), operand))
            if callee.endswith("Expr::arithmetic_op") and len(args) == 3:
                return ((args[0], args[1].name.split("::")[-1] if isinstance(args[1], V) else repr(args[1]), args[2]),)
            return None
        got = interp.Interp(call=call, prog=ctx.prog, max_steps=20000).run(hir, {ps[0]["id"]: selfv})
        if isinstance(got, V) and got.name == "Result::Ok":
            r = got.args[0]
            r = r.args[0] if isinstance(r, V) and r.name == "Option::Some" else ("none" if r == interp.NONE else r)
        elif isinstance(got, V) and got.name == "Result::Err":
            r = "err"
        else:
            r = ("?", got)
        return r, selfv["index"]
    for sym in ("+", "-", "*", "/", "%"):
        out["a %s b" % sym] = run([W("a"), OP(sym), W("b")])
    for o1, o2, o3 in (("+", "-", "+"), ("-", "+", "-"), ("*", "/", "%"), ("/", "%", "*"), ("%", "*", "/")):
        out["a %s b %s c %s d" % (o1, o2, o3)] = run([W("a"), OP(o1), W("b"), OP(o2), W("c"), OP(o3), W("d")])
    out["a"] = run([W("a")])
    out["a , b"] = run([W("a"), V("Lexem::Comma"), W("b")])
    return out


def r1(ctx):
    import interp
    NAMES = {"+": "Add", "-": "Subtract", "*": "Multiply", "/": "Divide", "%": "Modulo"}
    rows = [(ADD_SUB, {"+", "-"}, "parse_mul_div"), (MUL_DIV, {"*", "/", "%"}, "parse_paren")]
    for fn, ops, operand in rows:
        try:
            tbl = _level_table(ctx, fn, operand)
        except interp.Undecided as e:
            ctx.obligation(False)
            ctx.violation("precedence/%s/%s" % (short(fn, 1), "operands" if "next-tighter" in str(e) else "unreadable"), ctx.where(fn), "cannot evaluate %s on lexem lists: %s" % (short(fn, 1), e))
            continue
        n = 0
        # this level combines exactly its own operators; at another operator it stops and leaves the operator at the cursor
        bad = []
        for sym in ("+", "-", "*", "/", "%"):
            got = tbl["a %s b" % sym]
            n += 1
            want = (("a", NAMES[sym], "b"), 3) if sym in ops else ("a", 1)
            if got != want:
                bad.append("`a %s b` gives %s, cursor %s (expected %s, cursor %s)" % (sym, got[0], got[1], want[0], want[1]))
        for k_, want in (("a", ("a", 1)), ("a , b", ("a", 1))):
            n += 1
            if tbl[k_] != want:
                bad.append("`%s` gives %s, cursor %s (expected %s, cursor %s)" % (k_, tbl[k_][0], tbl[k_][1], want[0], want[1]))
        ctx.obligation(not bad)
        ctx.covered("precedence level %s evaluated on lexem lists: own operators %s combined, others left at the cursor" % (short(fn, 1), sorted(ops)), n,
                    distinct_keys=[fn], sample={k_: repr(v_) for k_, v_ in tbl.items()}, exhaustive=True)
        if bad:
            ctx.violation("precedence/%s" % short(fn, 1), ctx.where(fn),
                          "%s must combine exactly the operators %s, taking both operands from %s, and leave any other lexem at the cursor: %s" %
                          (short(fn, 1), sorted(ops), operand, "; ".join(bad)))
        # left association: a o1 b o2 c o3 d = ((a o1 b) o2 c) o3 d for chains of this level's operators
        bad = []
        for k_, got in tbl.items():
            syms = k_.split(" ")[1::2]
            if len(syms) == 3 and all(s_ in ops for s_ in syms):
                n += 1
                want = (((("a", NAMES[syms[0]], "b"), NAMES[syms[1]], "c"), NAMES[syms[2]], "d"), 7)
                if got != want:
                    bad.append("`%s` gives %s" % (k_, got[0]))
        ctx.obligation(not bad)
        if bad:
            ctx.violation("associativity/%s" % short(fn, 1), ctx.where(fn),
                          "operators of equal precedence must associate to the left, each with its own operator: %s" % "; ".join(bad))
    # brackets restart at the top level and unary minus is handled at the leaf
    # (parse_paren evaluated on 9 bracket shapes: a bracket of either style holds one full expression, anything else is a leaf)
    __import__("c03").brackets(ctx)
    if unary_minus_by_evaluation(ctx):
        return
    fs = ctx.anchor_hir(FUNC_SCALAR)
    sets = [x for x in walk_exprs(fs) if x["k"] == "Assign" and x["l"]["k"] == "Field" and x["l"]["name"] == "minus"]
    ok = len(sets) >= 3 and all(render(x["r"]) == "minus" for x in sets)
    flag = [x for x in walk_exprs(fs) if x["k"] == "Assign" and render(x["l"]) == "minus" and render(x["r"]) == "true"]
    okf = False
    for x in flag:
        g = [t for t in guards_of(fs, x) if t[0] in ("if", "match")]
        okf = okf or any('"-"' in guard_text(t) for t in g)
    ctx.obligation(ok and okf)
    ctx.covered("unary minus: flag set on `-`, stored on field / function / value leaves", len(sets), distinct_keys=["minus-sets:%d" % len(sets)])
    if not (ok and okf):
        ctx.violation("unary-minus/parser", ctx.where(FUNC_SCALAR), "a leading `-` must set the minus flag of the parsed column, function or value")


def unary_minus_by_evaluation(ctx):
    """parse_func_scalar evaluated (finite interpreter; parse_function is a stand-in that returns a function node) on a column,
    a quoted text, a number and a function name, each with and without a leading `-`: the leaf built carries the minus flag
    exactly when the `-` was written, is of the right kind, and the cursor stands behind the leaf"""
    import interp
    from extra import _expr_dict
    V = interp.V
    fs = ctx.anchor_hir(FUNC_SCALAR)
    ps = ctx.prog.fns[FUNC_SCALAR]["params"]
    W, S, MINUS = (lambda t: V("Lexem::RawString", [t])), (lambda t: V("Lexem::String", [t])), V("Lexem::ArithmeticOperator", ["-"])
    leaves = {"size": (W("size"), "field"), "'txt'": (S("txt"), "val"), "5": (W("5"), "val"), "length": (W("length"), "function")}
    bad, n = [], 0
    for label, (lx, kind) in leaves.items():
        for minus in (False, True):
            lex = ([MINUS] if minus else []) + [lx, V("Lexem::Comma")]
            selfv = interp.LazySelf({"lexems": list(lex), "index": 0, "roots_parsed": True, "where_parsed": True})

            def call(node, recv, args, it, env):
                if node.get("m") == "parse_function" or str(node.get("callee", "")).endswith("Parser::parse_function"):
                    fn_ = [a_ for a_ in args if isinstance(a_, V) and a_.name.startswith("Function::")]
                    return (V("Result::Ok", [_expr_dict(interp, function=interp.some(fn_[0] if fn_ else interp.Opaque("function")))]),)
                return None
            try:
                got = interp.Interp(call=call, prog=ctx.prog, max_steps=40000).run(fs, {ps[0]["id"]: selfv})
            except interp.Undecided as e:
                ctx.covered("evaluation of parse_func_scalar gave up (%s%s: %s); the structural rule applies" % ("- " if minus else "", label, str(e)[:160]), 0)
                return False
            n += 1
            e_ = got.args[0] if isinstance(got, V) and got.name == "Result::Ok" else None
            e_ = e_.args[0] if isinstance(e_, V) and e_.name == "Option::Some" else e_
            ok = isinstance(e_, dict) and e_.get("minus") is minus and e_.get(kind) not in (None, interp.NONE) and selfv["index"] == len(lex) - 1
            ctx.obligation(ok)
            if not ok:
                bad.append("`%s%s` gives %s (minus flag %s, cursor %s)" % ("- " if minus else "", label, "a %s leaf" % kind if isinstance(e_, dict) and e_.get(kind) not in (None, interp.NONE) else repr(got)[:80],
                                                                          e_.get("minus") if isinstance(e_, dict) else "?", selfv["index"]))
    ctx.covered("parse_func_scalar evaluated on 4 leaf kinds x with / without a leading `-`", n, distinct_keys=sorted(leaves), exhaustive=True)
    if bad:
        ctx.violation("unary-minus/parser", ctx.where(FUNC_SCALAR), "a leading `-` must set the minus flag of the parsed column, function or value (and only then): %s" % "; ".join(bad[:3]))
    return True


def r2(ctx):
    """ArithmeticOp::calc evaluated (finite interpreter) for each operator on two operand pairs: the result must be
    left OP right in f64, operands in that order"""
    import interp
    h = ctx.anchor_hir(CALC)
    ps = ctx.prog.fns[CALC]["params"]
    want = {"Add": lambda x, y: x + y, "Subtract": lambda x, y: x - y, "Multiply": lambda x, y: x * y, "Divide": lambda x, y: x / y,
            "Modulo": lambda x, y: __import__("math").fmod(x, y)}
    sym = {"Add": "+", "Subtract": "-", "Multiply": "*", "Divide": "/", "Modulo": "%"}
    n = 0

    def call(node, recv, args, it, env):
        m = node.get("m")
        if m in ("to_float",) and isinstance(recv, dict) and "__f" in recv:
            return (recv["__f"],)
        if m in ("to_int",) and isinstance(recv, dict) and "__f" in recv:
            return (int(recv["__f"]),)
        if str(node.get("callee", "")).endswith("Variant::from_float") and args:
            return (args[0],)
        return None
    for op, f in want.items():
        for x, y in ((7.0, 2.0), (-7.5, 4.0), (3.0, 8.0)):
            n += 1
            env = {ps[0]["id"]: interp.V("ArithmeticOp::" + op), ps[1]["id"]: {"__f": x}, ps[2]["id"]: {"__f": y}}
            try:
                got = interp.Interp(call=call).run(h, env)
            except interp.Undecided as e:
                ctx.violation("calc/%s/unreadable" % op, ctx.where(CALC), "cannot evaluate calc for %s: %s" % (op, e))
                break
            ok = isinstance(got, float) and abs(got - f(x, y)) < 1e-12
            ctx.obligation(ok)
            if not ok:
                ctx.violation("calc/%s" % op, ctx.where(CALC), "%s must compute left %s right; calc(%s, %s) evaluates to %r" % (op, sym[op], x, y, got))
    ctx.covered("ArithmeticOp::calc evaluated per operator on three operand pairs (operator and operand order)", n, distinct_keys=list(want), exhaustive=True)
    ctx.floor(n, 15, "evaluations of ArithmeticOp::calc", CALC)
    # the evaluator applies calc to (left value, right value)
    g = ctx.anchor_hir(GCEV)
    cs = [c for c in walk_exprs(g) if c["k"] == "MCall" and c["m"] == "calc"]
    ok = len(cs) == 1 and render(cs[0]["args"][0]) == "&left_result" and render(cs[0]["args"][1]) == "&right_result"
    locs = Locals(g)
    if ok:
        l = render(locs.chase(peel(cs[0]["args"][0])))
        r = render(locs.chase(peel(cs[0]["args"][1])))
        ok = l.endswith(", left)") and r.endswith(", right)")
    ctx.obligation(ok)
    if not ok:
        ctx.violation("calc/evaluator-operands", ctx.where(GCEV), "the evaluator must compute op.calc(value of left, value of right)")


def r3(ctx):
    """the cache key (Display for Expr) reads every field of Expr the column evaluator reads"""
    fields = set(ctx.prog.struct_fields("expr::Expr") or [])
    ctx.floor(len(fields), 10, "fields of Expr", "expr::Expr")
    ev = set()
    for fn in (GCEV, GFUNV):
        for n in ctx.prog.with_closures(fn):
            b = ctx.prog.body(n)
            if b:
                ev |= b.field_reads() & fields
    disp = set()
    for n in ctx.prog.reachable_fns([DISPLAY]):
        if n.startswith("expr::") or n == DISPLAY or n.startswith(DISPLAY):
            b = ctx.prog.body(n)
            if b:
                disp |= b.field_reads() & fields
    # the key function is the one used by get_column_expr_value
    g = ctx.anchor_hir(GCEV)
    n = 0
    for f in sorted(ev):
        n += 1
        ok = f in disp
        ctx.obligation(ok)
        if not ok:
            ctx.violation("key/%s" % f, ctx.where(DISPLAY),
                          "the evaluator reads Expr.%s but the expression's text (the cache / JSON / group key) does not "
                          "depend on it: two columns differing only in `%s` share one cached value" % (f, f))
    ctx.covered("fields of Expr read by the column evaluator vs fields rendered into the cache key", n,
                distinct_keys=sorted(ev), sample={"evaluator": sorted(ev), "key": sorted(disp)}, exhaustive=True)
    ctx.floor(n, 7, "Expr fields read by the evaluator", GCEV)
    # the operator must be rendered (a distinct text per variant), not merely inspected
    dh = ctx.anchor_hir(DISPLAY)
    rendered = False
    for m in find_matches(dh, min_arms=2):
        t = {}
        for a in match_arms(m):
            b = peel_result(a["body"])
            for k in a["keys"]:
                kn = key_name(k)
                if "ArithmeticOp::" in kn and b["k"] == "Lit":
                    t[kn] = b["v"]
        if len(t) >= 5 and len(set(t.values())) == len(t):
            rendered = True
    for c in walk_exprs(dh):
        if c["k"] == "MCall" and c["m"] in ("to_string", "fmt") and "arithmetic_op" in render(c["recv"]):
            rendered = True
    ctx.obligation(rendered)
    if not rendered:
        ctx.violation("key/arithmetic_op/rendered", ctx.where(DISPLAY),
                      "the expression text does not render the arithmetic operator with a distinct text per operator: "
                      "`size + 1` and `size - 1` share one cached value")
    # nested arithmetic operands must be delimited in the key (bracket placement distinguishes columns)
    brk = False
    for nme in ctx.prog.reachable_fns([DISPLAY]):
        h = ctx.prog.hir(nme)
        if h and (nme == DISPLAY or nme.startswith("expr::")):
            for t, _ in fmt_templates(h):
                if t.startswith("(") and t.endswith(")") and "{}" in t:
                    brk = True
    ctx.obligation(brk)
    if not brk:
        ctx.violation("key/brackets", ctx.where(DISPLAY), "nested arithmetic operands are not bracketed in the key: `(1 + 2) * 3` and `1 + 2 * 3` share one cached value")


def r4(ctx):
    """unary minus: the value of a column, function or literal node written with a leading minus is the negated value:
    get_column_expr_value evaluated (rules/gcev.py) per node kind with and without the minus"""
    import gcev
    import interp
    run = gcev.Run(ctx)
    n = 0
    for kind in ("function", "field", "val"):
        try:
            plain, _, _, _ = run.run(kind, False)
            neg, _, _, _ = run.run(kind, True)
        except interp.Undecided as e:
            ctx.obligation(False)
            ctx.violation("minus/%s/anchor" % kind, ctx.where(GCEV), "cannot evaluate get_column_expr_value on a `%s` node: %s" % (kind, e))
            continue
        n += 1
        a, b = gcev.text_of(ctx, plain), gcev.text_of(ctx, neg)
        ok = a is not None and b == "-" + a
        ctx.obligation(ok)
        if not ok:
            ctx.violation("minus/%s" % kind, ctx.where(GCEV),
                          "the evaluator returns the value of a `%s` node without applying the expression's leading minus (`%s` without, `%s` with the minus)" % (kind, a, b))
    ctx.covered("node kinds (function, column, literal) evaluated with and without a leading minus", n, distinct_keys=["function", "field", "val"], exhaustive=True)


def r5(ctx):
    """the per-row memo: what is stored under an expression's text is the value returned for it (sign included), a stored
    value is returned as is, and an expression is computed once: get_column_expr_value evaluated (rules/gcev.py) per node
    kind x minus x memo hit / miss"""
    import gcev
    import interp
    run = gcev.Run(ctx)
    n = 0
    for kind in ("function", "field", "arith"):
        for minus in ((False, True) if kind != "arith" else (False,)):
            try:
                got, ev, memo, text = run.run(kind, minus)
                n += 1
                val = gcev.text_of(ctx, got)
                stored = memo.get(text)
                ok = stored == val and len(memo) == 1
                ctx.obligation(ok)
                if not ok:
                    ctx.violation("cache/write-through/%s" % ("arithmetic" if kind == "arith" else kind), ctx.where(GCEV),
                                  "the value computed for a `%s` node (`%s`%s) is not what is stored under the expression's text (memo after the call: %s): "
                                  "a second occurrence of the expression in the row reads a different value" % (kind, val, ", leading minus" if minus else "", dict(memo)))
                if kind == "arith":
                    ok = [e for e in ev if e[0] != "calc"] == [("operand", "L"), ("operand", "R")] and ("calc", "3", "4") in ev
                    ctx.obligation(ok)
                    if not ok:
                        ctx.violation("cache/arithmetic-operands", ctx.where(GCEV), "an arithmetic node must evaluate its left and right operands and combine them in this order; events %s" % ev)
                got2, ev2, memo2, _ = run.run(kind, minus, {text: "99"})
                n += 1
                ok = gcev.text_of(ctx, got2) == "99" and not ev2
                ctx.obligation(ok)
                if not ok:
                    ctx.violation("cache/hit/%s" % kind, ctx.where(GCEV), "a value already stored under the expression's text must be returned without recomputation; got `%s`, events %s" % (gcev.text_of(ctx, got2), ev2))
            except interp.Undecided as e:
                ctx.obligation(False)
                ctx.violation("cache/unreadable/%s" % kind, ctx.where(GCEV), "cannot evaluate get_column_expr_value on a `%s` node: %s" % (kind, e))
    ctx.covered("memo behaviour of get_column_expr_value per node kind x minus x hit / miss", n, distinct_keys=["function", "field", "arithmetic"], exhaustive=True)
    ctx.floor(n, 8, "memo scenarios of get_column_expr_value", GCEV)


PREC = {"Add": 1, "Subtract": 1, "Multiply": 2, "Divide": 2, "Modulo": 2}


def expr_text(ctx, e, depth=0):
    """the text Display for Expr produces for an expression tree (dict of the ten Expr fields), read off the source by the
    finite interpreter: writes to the formatter are collected; operands and arguments are rendered recursively"""
    import interp
    if depth > 6:
        raise interp.Undecided("expression too deep")
    h = ctx.anchor_hir(DISPLAY)
    ps = ctx.prog.fns[DISPLAY]["params"]
    out = []

    def show(v):
        if isinstance(v, dict) and "arithmetic_op" in v:
            return expr_text(ctx, v, depth + 1)
        if isinstance(v, interp.V):
            return v.name.split("::")[-1]
        if isinstance(v, (str, int, float)) and not isinstance(v, bool):
            return str(v)
        raise interp.Undecided("cannot show %r" % (v,))

    def call(node, recv, args, it, env):
        m = node.get("m")
        if m in ("write_str", "write_char", "push_str", "push") and args and isinstance(args[0], str) and isinstance(recv, dict) and recv.get("__fmt"):
            out.append(args[0])
            return (interp.V("Result::Ok", [()]),)
        if m == "to_string" and (isinstance(recv, interp.V) or (isinstance(recv, dict) and "arithmetic_op" in recv)):
            return (show(recv),)
        return None

    def effect(node, it, env):
        if node.get("mac") in ("write", "writeln") and node["k"] == "MCall" and node.get("m") == "write_fmt":
            ts = fmt_templates(node)
            tup = None
            for x in walk(node):
                if x["k"] == "Let" and x.get("init") is not None and x["init"]["k"] == "Tup":
                    tup = x["init"]
                    break
            vals = [it.ev(x, env) for x in tup["es"]] if tup is not None else []
            if len(ts) != 1:
                return None
            parts = ts[0][0].split("{}")
            if len(parts) - 1 != len(vals):
                return None
            txt = ""
            for k_, part in enumerate(parts):
                txt += part
                if k_ < len(vals):
                    txt += show(vals[k_])
            out.append(txt)
            return (interp.V("Result::Ok", [()]),)
        return None
    env = {ps[0]["id"]: e, ps[1]["id"]: {"__fmt": True}}
    interp.Interp(call=call, effect=effect, prog=ctx.prog, max_steps=60000).run(h, env)
    return "".join(out)


def r6(ctx):
    """the text of an arithmetic expression (the per-row cache key, group key and JSON key) determines its tree: Display for
    Expr is evaluated (finite interpreter) on all 50 trees with three leaves and two operators - (a OP b) OP c and
    a OP (b OP c) - and their texts must be pairwise different"""
    import interp
    NONE, some = interp.NONE, interp.some

    def leaf(name):
        return {"field": some(interp.V("Field::" + name)), "left": NONE, "right": NONE, "args": NONE, "function": NONE, "val": NONE, "minus": False,
                "op": NONE, "logical_op": NONE, "arithmetic_op": NONE}

    def node(l, op, r):
        return {"field": NONE, "left": some(l), "right": some(r), "args": NONE, "function": NONE, "val": NONE, "minus": False, "op": NONE,
                "logical_op": NONE, "arithmetic_op": some(interp.V("ArithmeticOp::" + op))}
    a, b, c = leaf("Size"), leaf("Uid"), leaf("Gid")
    sym = {"Add": "+", "Subtract": "-", "Multiply": "*", "Divide": "/", "Modulo": "%"}
    texts = {}
    n = 0
    try:
        for o1 in PREC:
            for o2 in PREC:
                for shape, tree in (("(x %s y) %s z" % (sym[o1], sym[o2]), node(node(a, o1, b), o2, c)), ("x %s (y %s z)" % (sym[o1], sym[o2]), node(a, o1, node(b, o2, c)))):
                    t = expr_text(ctx, tree)
                    n += 1
                    texts.setdefault(t, []).append(shape)
    except interp.Undecided as e:
        ctx.violation("key/brackets/undecided", ctx.where(DISPLAY), "cannot evaluate Display for Expr on an arithmetic tree: %s" % e)
        return
    coll = {t: shapes for t, shapes in texts.items() if len(shapes) > 1}
    ctx.obligation(not coll)
    for t, shapes in sorted(coll.items())[:6]:
        side = "right" if any(s_.startswith("x ") and "(" in s_ for s_ in shapes) else "left"
        ctx.violation("key/brackets/%s/%s" % (side, re.sub(r"[^A-Za-z0-9]+", "_", t)), ctx.where(DISPLAY),
                      "the different trees %s are all written `%s`: they share one cached value / JSON key / group key" % (" and ".join("`%s`" % s_ for s_ in shapes), t))
    ctx.covered("texts of the 50 arithmetic trees with three leaves (Display for Expr evaluated by the finite interpreter): pairwise different",
                n, distinct_keys=["trees:%d" % n], sample={"example": sorted(texts)[:4]}, exhaustive=True)
    ctx.floor(n, 50, "arithmetic trees rendered", DISPLAY)


def r7(ctx):
    """leaves of the key text cannot be confused: a text literal is written delimited (quotes), so that it never reads
    like a column name (`'Name'` vs `name`), a function call or an arithmetic expression; only literals that cannot collide
    (numbers, `*`) may be written bare"""
    import extra
    dh = ctx.anchor_hir(DISPLAY)
    bad, bare, delimited = extra.literal_key_analysis(dh)
    for c, why in bad:
        ctx.violation("key/literal-bare", ctx.where(DISPLAY, c),
                      "the text of a literal enters the expression text (cache / JSON / group key) undelimited (%s): the literal 'Name' and "
                      "the column `name` get the same key, so `length('Name') + 1, length(name) + 1` share one cached value" % why)
    for c in bare:
        ctx.obligation(not any(c is b for b, _ in bad))
    ok = bool(delimited) or not bare
    ctx.obligation(ok)
    if not ok and bare:
        ctx.violation("key/literal-delimited", ctx.where(DISPLAY), "no delimited rendering of text literals in Display for Expr")
    ctx.covered("renderings of literal values in the key text (bare only when numeric or `*`; otherwise delimited)", len(bare) + 1,
                distinct_keys=["bare:%d" % len(bare), "delimited:%d" % len(delimited)])
    ctx.floor(len(bare) + len(delimited), 1, "writes of the literal value in Display for Expr", DISPLAY)


RULES = [
    ("C15-R1", "precedence layering, left association, brackets, unary minus in the parser", r1),
    ("C15-R2", "ArithmeticOp::calc table and operand order", r2),
    ("C15-R3", "cache key (expression text) depends on every field the evaluator reads", r3),
    ("C15-R4", "unary minus is applied by every evaluator branch", r4),
    ("C15-R5", "cache write-through: the stored value is the returned (signed) value", r5),
    ("C15-R6", "the expression text brackets every operand whose omission would collide with another tree", r6),
    ("C15-R7", "text literals are delimited in the expression text (cache key)", r7),
    ("X-LEXCLASS", "lexer operator / arithmetic character classes and context flags [shared]", lambda ctx: __import__("extra").lexer_classes(ctx)),
    ("X-VARIANT", "Variant constructors, text renderings and coercion order [shared]", lambda ctx: __import__("extra").variant_constructors(ctx)),
    ("X-LITVALUE", "a literal evaluates to the text written in the query (patterns, size literals, arguments) [shared]", lambda ctx: __import__("extra2").literal_is_its_text(ctx)),
    ("X-BRACKETS", "wherever the parser tests for a closing bracket of one style it provides for the other style as well [shared]", lambda ctx: __import__("extra2").bracket_styles_agree(ctx)),
    ("X-REEVAL", "an expression evaluated twice for one entry has the same typed value both times (no text-valued memo beside the map handed in) [shared]", lambda ctx: __import__("gcev").reevaluation_is_stable(ctx)),
    ("X-EXPRWALK", "recursive walks of an expression's value layer visit left, right and the further arguments [shared]", lambda ctx: __import__("extra2").value_walks_reach_arguments(ctx)),
    ("C02-R8", "comparisons of arithmetic results (Float values) against literals are numeric, signed zeroes included [shared with C02]", lambda ctx: __import__("c02").r8(ctx)),
    ("X-NUMMINUS", "a minus glued to a number is the arithmetic operator; only a year 1970..2999 starts a date literal (lexer evaluated) [shared]", lambda ctx: __import__("extra2").number_minus_is_arithmetic(ctx)),
    ("C09-R2", "every output format shows the computed value's own text (escaping only; a negative number stays a number) [shared with C09]", lambda ctx: __import__("c09").r2(ctx)),
]

EXPLANATION = (
    "Static structural necessary conditions of C15: parse_add_sub handles exactly {+,-} with operands from "
    "parse_mul_div, which handles {*,/,%} with operands from parse_paren; both build arithmetic_op(left, op, operand) "
    "inside their loop and store it back into left (left association); brackets restart at parse_expr; calc maps each "
    "operator to its f64 operation with (left, right) order and the evaluator passes (value of left, value of "
    "right); the text used as per-row cache key / JSON key reads every Expr field the evaluator reads (MIR field "
    "read sets) and brackets nested arithmetic operands; every evaluator branch applies the leading minus. f64 "
    "arithmetic/formatting and the lexer's operator-vs-text decisions are not decided."
    " The bracket decision of Display for Expr is evaluated for every (side, inner operator, outer operator): an operand is bracketed whenever omitting brackets would print another tree's text.")
ASSUMPTIONS = ["rustc's HIR/MIR faithfully represent the source; exporter and rule scripts are correct"]
NOT_DECIDED = ["f64 arithmetic and number formatting", "the lexer's decision whether + - * / % are operators on arbitrary text",
               "full injectivity of the expression text (only the necessary field-dependence and bracketing are decided)"]
