"""Scenario evaluation of Searcher::conforms on a single comparison node.

conforms is read by the finite interpreter (rules/interp.py, crate calls interpreted) with the outside world replaced by
scenario values: the two operand evaluations (get_column_expr_value on the left / right sub-expression) answer with given
Variants, Regex::new answers with a marker carrying the pattern text, Regex::is_match answers with the scenario's verdict,
the glob / LIKE translators answer with a marker naming the translator, error_exit ends the evaluation with "exit".
What is decided is the *wiring* of conforms (which operand, which translator, which cache key, which polarity), for every
operator, on finite scenario tables; the regex engine, the translators themselves and Variant's conversions are decided by
their own rules."""
import interp
from extra import _expr_dict

CONFORMS = "searcher::Searcher::conforms"


class Exit(Exception):
    pass


def variant(text, ty="String", int_value=None, float_value=None, bool_value=None, dt=None):
    some, NONE = interp.some, interp.NONE
    return {"value_type": interp.V("VariantType::" + ty), "empty": False, "string_value": text,
            "int_value": some(int_value) if int_value is not None else NONE,
            "float_value": some(float_value) if float_value is not None else NONE,
            "bool_value": some(bool_value) if bool_value is not None else NONE,
            "dt_from": some(dt[0]) if dt else NONE, "dt_to": some(dt[1]) if dt else NONE}


class Run:
    def __init__(self, ctx):
        import norm
        self.ctx = ctx
        self.hir = ctx.anchor_hir(CONFORMS)
        self.ps = ctx.prog.fns[CONFORMS]["params"]
        tys = norm.param_types(ctx.prog.fns[CONFORMS].get("sig"))
        ep = [p for p, t in zip(self.ps, tys) if t.endswith("expr::Expr")]
        self.expr_param = ep[0]["id"] if len(ep) == 1 else None
        sp = [p for p, t in zip(self.ps, tys) if "Searcher" in t]
        self.self_param = sp[0]["id"] if sp else None

    def run(self, op, left, right, matched=False, is_glob=False, cached=None, regex_ok=True):
        """-> (result, trace): result True/False/"exit"; trace = dict(patterns compiled, subjects matched, cache keys)"""
        trace = {"compiled": [], "matched_on": [], "cache_get": [], "cache_put": [], "translators": [], "operands": []}
        cache = interp.HMap(cached or {})

        def call(node, recv, args, it, env):
            callee = str(node.get("callee", ""))
            m = node.get("m")
            if m == "get_column_expr_value" or callee.endswith("::get_column_expr_value"):
                sub = [a for a in args if isinstance(a, dict) and "__side" in a]
                if len(sub) == 1:
                    maps = [a for a in args if isinstance(a, interp.HMap)]
                    others = [a for a in args if isinstance(a, interp.Opaque) and "map" in str(a.what).lower()]
                    trace.setdefault("_keep", []).extend(maps)      # keep the objects alive: their identities are compared
                    trace.setdefault("operand_maps", []).append((sub[0]["__side"], id(maps[0]) if maps else None, len(maps[0]) if maps else None,
                                                                 str(others[0].what) if others else None))
                    trace["operands"].append(sub[0]["__side"])
                    return (dict(left) if sub[0]["__side"] == "L" else dict(right),)
            if isinstance(recv, int) and not isinstance(recv, bool) and m in ("and_utc", "timestamp", "naive_utc", "naive_local", "and_local_timezone") and not args:
                return (recv,)          # instants of a scenario are whole numbers of seconds: conversions between time scales keep them
            if callee.endswith("util::get_extension") and args and isinstance(args[0], str):
                # std::path::Path::extension by contract: the part of the file name after its last dot; none for a name
                # without a dot or with its only dot in front (`.env`)
                nm_ = args[0].rsplit("/", 1)[-1]
                return (nm_.rsplit(".", 1)[1] if "." in nm_[1:] else "",)
            if callee.endswith("is_glob"):
                # the scenario decides for the pattern of the comparison; asked about any other text (a helper looking at a part of
                # the pattern) the question has its plain answer
                if args and isinstance(args[0], str) and args[0] != right.get("string_value"):
                    return ("*" in args[0] or "?" in args[0],)
                return (is_glob,)
            for tr in ("convert_glob_to_pattern", "convert_like_to_pattern"):
                if callee.endswith(tr):
                    trace["translators"].append(tr)
                    return ("<%s:%s>" % (tr, args[0]),)
            if callee.endswith("Regex::new") or callee.endswith("RegexBuilder::new"):
                trace["compiled"].append(args[0])
                if regex_ok:
                    return (interp.V("Result::Ok", [{"__regex": args[0]}]),)
                return (interp.V("Result::Err", [interp.Opaque("regex error")]),)
            if m == "is_match" and isinstance(recv, dict) and "__regex" in recv:
                trace["matched_on"].append((recv["__regex"], args[0] if args else None))
                return (matched,)
            if callee.endswith("error_exit") or callee.endswith("process::exit"):
                raise Exit()
            if isinstance(recv, interp.HMap) and m in ("get", "contains_key", "insert"):
                (trace["cache_put"] if m == "insert" else trace["cache_get"]).append(args[0] if args else None)
                return None
            return None
        ex = _expr_dict(interp, op=interp.some(interp.V("Op::" + op)), left=interp.some(_expr_dict(interp, __side="L")),
                        right=interp.some(_expr_dict(interp, __side="R")))
        env = {p["id"]: interp.Opaque(p.get("name") or "?") for p in self.ps}
        env[self.expr_param] = ex
        if self.self_param:
            env[self.self_param] = interp.LazySelf({"regex_cache": cache, "found": 0})
        try:
            got = interp.Interp(call=call, prog=self.ctx.prog, max_steps=40000).run(self.hir, env)
        except Exit:
            got = "exit"
        trace["cache_after"] = dict(cache)
        return got, trace



def operands_evaluated_afresh(ctx):
    """X-OPERANDS: the left operand of a comparison is evaluated for the entry at hand with a map created for that comparison:
    the evaluator answers an expression found in the map it is given with a *text* (Variant::from_string), so a map shared
    between the conditions of a WHERE clause turns the second occurrence of a numeric or date column into text
    (`size >= 1k and size <= 2k` then compares "2048" with "2k")"""
    run = Run(ctx)
    n = 0
    for op in ("Eq", "Gt", "Like"):
        try:
            got, tr = run.run(op, variant("5", "Int", int_value=5), variant("7"), matched=True)
        except interp.Undecided as e:
            ctx.obligation(False)
            ctx.violation("operands/unreadable", ctx.where(CONFORMS), "cannot evaluate conforms for %s: %s" % (op, e))
            return
        om = tr.get("operand_maps", [])
        n += 1
        # the left operand decides the kind of comparison by its type: it is computed with a map created for this comparison
        # and still empty (the right operand, whose value is converted to the left one's type anyway, may share that map)
        left = [m_ for m_ in om if m_[0] == "L"]
        ok = len(om) == 2 and len(left) == 1 and left[0][1] is not None and left[0][2] == 0 and left[0][3] is None
        ctx.obligation(ok)
        if not ok:
            ctx.violation("operands/shared-memo", ctx.where(CONFORMS),
                          "the left operand of a comparison must be evaluated with a map created for this comparison and still empty (a value remembered from another condition comes back as text): "
                          "for %s the evaluator is handed %s" % (op, [("own empty map" if (m_[1] is not None and m_[2] == 0) else (m_[3] or "a map that is not empty / not its own")) for m_ in om]))
            break
    ctx.covered("maps handed to the operand evaluations of a comparison (fresh, distinct)", n, distinct_keys=["Eq", "Gt", "Like"], exhaustive=True)
