"""String-keyed alias tables (Op::from, Field::from_str, ...): extraction and comparison with an oracle."""
from hirq import *  # noqa: F401,F403


def is_lowercased(expr, locs):
    """the matched string is derived from to_lowercase / to_ascii_lowercase of the input"""
    seen = 0
    n = expr
    while seen < 10:
        seen += 1
        r = render(n)
        if "to_lowercase" in r or "to_ascii_lowercase" in r:
            return True
        p = peel(n)
        if p["k"] == "Path" and p.get("rk") == "Local" and locs is not None and p["res"] in locs.defs:
            n = locs.defs[p["res"]]
            continue
        if p["k"] == "MCall":
            n = p["recv"]
            continue
        return False
    return False


def string_match(hir, min_arms=3):
    """the largest match whose arms are string literals"""
    best = None
    for m in find_matches(hir, min_arms=1):
        n = sum(1 for a in match_arms(m) for k in a["keys"] if k != "_" and k[0] == "lit" and isinstance(k[1], str))
        if n >= min_arms and (best is None or n > best[0]):
            best = (n, m)
    return best[1] if best else None


def string_table(ctx, fn_name, oracle, what, require_lowercase=True, value=None, min_arms=3):
    """oracle: {variant: [spellings]}.  Returns the extracted table spelling -> variant."""
    hir = ctx.anchor_hir(fn_name)
    locs = Locals(hir)
    m = string_match(hir, min_arms)
    if m is None:
        ctx.violation("anchor/%s-table" % what, fn_name, "string-keyed table of %s not found; failing closed" % fn_name)
        return None
    if value is None:
        def value(b):
            r = peel_result(b)
            if r["k"] == "Path":
                return short(r["res"], 1)
            if r["k"] == "Call" and r.get("ctor"):
                return short(r["callee"], 1)
            return render(r)
    t = table_of(m, value)
    n_ok = 0
    for variant, spellings in oracle.items():
        for sp in spellings:
            got = t.get(sp)
            ok = got == variant
            ctx.obligation(ok)
            if ok:
                n_ok += 1
            elif got is None or sp not in t:
                ctx.violation("%s/missing/%s" % (what, sp), ctx.where(fn_name, m),
                              "documented spelling `%s` of %s is not recognised by %s (falls to the default arm)" %
                              (sp, variant, short(fn_name)))
            else:
                ctx.violation("%s/wrong/%s" % (what, sp), ctx.where(fn_name, m),
                              "spelling `%s` maps to %s, documented as %s" % (sp, got, variant))
    if require_lowercase:
        low = is_lowercased(m["scrut"], locs)
        ctx.obligation(low)
        if not low:
            ctx.violation("%s/case" % what, ctx.where(fn_name, m),
                          "%s matches its input without lower-casing it: keywords would be case-sensitive" % short(fn_name))
    ctx.covered("spellings of the %s table (%s)" % (what, short(fn_name)),
                sum(len(v) for v in oracle.values()), distinct_keys=[sp for v in oracle.values() for sp in v],
                sample={short(fn_name): dict(list(t.items())[:12])}, exhaustive=True)
    return t


def string_table_eval(ctx, fn_name, oracle, what, cases=True, non_words=("frobnicate", "")):
    """the same table decided by evaluation: fn(text) for every documented spelling (lower / UPPER / Capitalised) must
    yield the documented variant (inside Some / Ok), and a non-word must yield None / Err"""
    import interp
    hir = ctx.anchor_hir(fn_name)
    ps = ctx.prog.fns[fn_name]["params"]
    n = 0
    for variant, spellings in oracle.items():
        for sp in spellings:
            forms = [sp] + ([sp.upper(), sp.capitalize()] if cases and sp.replace("_", "").isalnum() and any(ch.isalpha() for ch in sp) else [])
            for text in dict.fromkeys(forms):
                try:
                    got = interp.Interp(prog=ctx.prog).run(hir, {ps[0]["id"]: text})
                except interp.Undecided as e:
                    ctx.obligation(False)
                    ctx.violation("%s/unreadable" % what, ctx.where(fn_name), "cannot evaluate %s(%r): %s" % (short(fn_name), text, e))
                    return
                n += 1
                inner = got.args[0] if isinstance(got, interp.V) and got.name in ("Option::Some", "Result::Ok") and got.args else None
                name = inner.name.split("::")[-1] if isinstance(inner, interp.V) else None
                ok = name == variant
                ctx.obligation(ok)
                if not ok:
                    key = "%s/%s/%s" % (what, "missing" if name is None else "wrong", sp)
                    ctx.violation(key, ctx.where(fn_name), "documented spelling `%s` of %s: %s(%r) gives %s" % (sp, variant, short(fn_name), text, got))
    for text in non_words:
        try:
            got = interp.Interp(prog=ctx.prog).run(hir, {ps[0]["id"]: text})
        except interp.Undecided:
            continue
        n += 1
        ok = isinstance(got, interp.V) and got.name in ("Option::None", "Result::Err")
        ctx.obligation(ok)
        if not ok:
            ctx.violation("%s/non-word" % what, ctx.where(fn_name), "%s(%r) gives %s: a word that is no %s must not be taken for one" % (short(fn_name), text, got, what))
    ctx.covered("spellings of %s evaluated (each in three letter cases)" % short(fn_name), n, distinct_keys=[sp for v in oracle.values() for sp in v], exhaustive=True)


def variant_set(ctx, fn_name):
    """the set of enum variants matched by a `matches!(self, A | B | ...)` style predicate"""
    hir = ctx.anchor_hir(fn_name)
    out = set()
    for m in find_matches(hir, min_arms=2, source=None):
        t = table_of(m, lambda b: render(peel_result(b)))
        for k, v in t.items():
            if k != "_" and v == "true":
                out.add(k.split("::")[-1])
    # `if self == &X { return true }` forms
    for x in walk_exprs(hir):
        if x["k"] == "If":
            tb = [y for y in walk_exprs(x["t"]) if y["k"] == "Ret" and "e" in y and render(y["e"]) == "true"]
            if tb:
                for d in disjuncts(x["c"]):
                    d = peel(d, methods=False)
                    if d["k"] == "Bin" and d["op"] == "==":
                        for side in (d["l"], d["r"]):
                            s = peel(side)
                            if s["k"] == "Path" and str(s.get("rk", "")).startswith("Ctor"):
                                out.add(short(s["res"], 1))
    return out
