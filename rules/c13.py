"""C13 — date literals denote intervals; comparisons partition time consistently (static necessary conditions)."""
import re

from hirq import *  # noqa: F401,F403
import sem
from core import Abort

PARSE_DATETIME = "util::datetime::parse_datetime"
FORMAT_DATETIME = "util::datetime::format_datetime"
GET_FIELD_VALUE = "searcher::Searcher::get_field_value"

SPEC = {
    "Eq": lambda x, a, b: a <= x <= b,
    "Ne": lambda x, a, b: not (a <= x <= b),
    "Lt": lambda x, a, b: x < a,
    "Gt": lambda x, a, b: x > b,
    "Lte": lambda x, a, b: x <= b,
    "Gte": lambda x, a, b: x >= a,
}


def r1(ctx):
    cf = sem.Conforms(ctx)
    t, m = cf.op_table("DateTime")
    if t is None:
        ctx.violation("anchor/datetime-arm", sem.CONFORMS, "DateTime comparison arm of conforms not found")
        raise Abort()
    if set(cf.tuple_side.values()) != {"a", "b"}:
        ctx.violation("anchor/datetime-interval", sem.CONFORMS,
                      "the (start, finish) destructuring of the literal's interval was not found")
        raise Abort()
    ev = Evaluator(cf.leaf3, cf.locs)
    orderings = [w for w in weak_orderings(["x", "a", "b"]) if w["a"] <= w["b"]]
    n = 0
    for op, spec in SPEC.items():
        body = t.get(op, t.get("_"))
        bad = []
        for w in orderings:
            try:
                got = ev.boolean(body, w)
            except NotComparison as e:
                ctx.violation("conforms/DateTime/%s/not-a-comparison" % op, ctx.where(sem.CONFORMS, body),
                              "arm for %s is not a pure comparison of (dt, start, finish): %s" % (op, e))
                bad = None
                break
            n += 1
            want = spec(w["x"], w["a"], w["b"])
            ctx.obligation(got == want)
            if got != want:
                bad.append(sem.describe_ordering(w).replace("x", "t"))
        if bad:
            ctx.violation("conforms/DateTime/%s" % op, ctx.where(sem.CONFORMS, body),
                          "date comparison %s is `%s`; it differs from the interval semantics when %s" %
                          (op, render(body), "; ".join(bad[:4])), {"orderings": bad})
    # trichotomy and complementarity are consequences; recheck them on the extracted arms directly
    for w in orderings:
        try:
            vals = {op: ev.boolean(t.get(op, t.get("_")), w) for op in ("Lt", "Eq", "Gt", "Ne")}
        except NotComparison:
            break
        tri = (vals["Lt"] + vals["Eq"] + vals["Gt"]) == 1 and vals["Ne"] != vals["Eq"]
        ctx.obligation(tri)
        if not tri:
            ctx.violation("conforms/DateTime/trichotomy", ctx.where(sem.CONFORMS, m),
                          "exactly one of <, =, > must hold: fails when %s" % sem.describe_ordering(w).replace("x", "t"))
    ctx.covered("date comparison arms x weak orderings of (t, a, b | a <= b)", n,
                distinct_keys=["%s/%s" % (op, sem.describe_ordering(w)) for op in SPEC for w in orderings],
                sample={op: render(t.get(op, t.get("_"))) for op in SPEC}, exhaustive=True)
    ctx.floor(n, 6 * len(orderings), "date comparison evaluations", sem.CONFORMS)
    # both sides are converted with the same chain (naive local -> and_utc().timestamp())
    chains = {}
    for x in walk(cf.hir):
        if x["k"] == "Let" and x["pat"]["k"] == "Bind" and "init" in x and "timestamp" in render(x["init"]):
            chain = []
            n_ = peel(x["init"], methods=False)
            while n_["k"] == "MCall":
                chain.append(n_["m"])
                n_ = peel(n_["recv"], methods=False)
            chains[x["pat"]["name"]] = tuple(c for c in chain if c not in ("to_datetime",))
    ok = len(chains) >= 3 and len(set(chains.values())) == 1
    ctx.obligation(ok)
    ctx.covered("conversion chains of dt/start/finish to comparable seconds", len(chains), distinct_keys=chains,
                sample={k: list(v) for k, v in chains.items()})
    if not ok:
        ctx.violation("conforms/DateTime/conversion", ctx.where(sem.CONFORMS),
                      "entry time and literal bounds are not converted to seconds by the same chain: %s" % chains)


GROUP_SPEC = {6: ("with_hour", 0, 23), 7: ("with_minute", 0, 59), 8: ("with_second", 0, 59)}


def r2(ctx):
    hir = ctx.anchor_hir(PARSE_DATETIME)
    groups = {}
    for m in find_matches(hir):
        sc = peel(m["scrut"], methods=False)
        if sc["k"] == "MCall" and sc["m"] == "get" and sc["args"] and peel(sc["args"][0])["k"] == "Lit":
            n = peel(sc["args"][0])["v"]
            info = {}
            for a in match_arms(m):
                arm = "none" if any("None" in key_name(k) for k in a["keys"]) or a["keys"] == ["_"] else "some"
                asg = {}
                for x in walk_exprs(a["body"]):
                    if x["k"] == "Assign":
                        l = peel(x["l"], methods=False)
                        if l["k"] == "Path" and l.get("rk") == "Local":
                            asg[l["res"]] = peel(x["r"], methods=False)
                info[arm] = asg
            groups[n] = (info, m)
    ctx.floor(len(groups), 3, "optional time components (cap.get(n) matches)", PARSE_DATETIME)
    # with_hour/minute/second chains of the two bounds
    chains = []
    for x in walk(hir):
        if x["k"] == "Let" and x["pat"]["k"] == "Bind" and "init" in x:
            d = {}
            for c in walk_exprs(x["init"]):
                if c["k"] == "MCall" and c["m"] in ("with_hour", "with_minute", "with_second") and c["args"]:
                    a = peel(c["args"][0], methods=False)
                    if a["k"] == "Path" and a.get("rk") == "Local":
                        d[c["m"]] = a["res"]
            if len(d) == 3:
                chains.append((x["pat"]["id"], d, x))
    # the pair returned as Ok((start, finish)); a binding of a tuple pattern matched against (a, b) stands for a / b
    cid = [c[0] for c in chains]
    alias = {}
    for m in find_matches(hir, min_arms=1, source=None):
        sc = peel(m["scrut"], methods=False)
        if sc["k"] == "Tup":
            src = [peel(e, methods=False).get("res") for e in sc["es"]]
            for a in m["arms"]:
                p = a["pat"]
                if p["k"] == "PTup" and len(p["subs"]) == len(src):
                    for sub, s_ in zip(p["subs"], src):
                        for b in walk(sub):
                            if b["k"] == "Bind":
                                alias[b["id"]] = s_
    pair = None
    for x in walk_exprs(hir):
        if x["k"] == "Call" and x.get("ctor") and short(x["callee"], 1) == "Ok" and x["args"]:
            t = peel(x["args"][0], methods=False)
            if t["k"] == "Tup" and len(t["es"]) == 2:
                ids = [peel(e, methods=False).get("res") for e in t["es"]]
                ids = [alias.get(i, i) for i in ids]
                if ids[0] in cid and ids[1] in cid:
                    pair = ids
    if pair is None or len(chains) < 2:
        ctx.violation("anchor/interval-construction", PARSE_DATETIME,
                      "cannot find the with_hour/with_minute/with_second construction of (start, finish)")
        raise Abort()
    start_chain = [c for c in chains if c[0] == pair[0]][0][1]
    finish_chain = [c for c in chains if c[0] == pair[1]][0][1]
    n = 0
    for g, (unit, lo, hi) in GROUP_SPEC.items():
        if g not in groups:
            ctx.violation("interval/group-%d" % g, ctx.where(PARSE_DATETIME), "capture group %d (%s) is never read" % (g, unit))
            continue
        info, m = groups[g]
        s_var, f_var = start_chain[unit], finish_chain[unit]
        some, none = info.get("some", {}), info.get("none", {})
        checks = []
        # absent: start = lo, finish = hi
        ns, nf = none.get(s_var), none.get(f_var)
        checks.append(("absent-start", ns is not None and ns["k"] == "Lit" and ns["v"] == lo,
                       "component absent: start is %s, expected %d" % (render(ns) if ns else None, lo)))
        checks.append(("absent-finish", nf is not None and nf["k"] == "Lit" and nf["v"] == hi,
                       "component absent: finish is %s, expected %d" % (render(nf) if nf else None, hi)))
        # present: start = parsed value, finish = start
        ss, sf = some.get(s_var), some.get(f_var)
        checks.append(("present-start", ss is not None and "parse" in render(ss),
                       "component present: start is %s, expected the parsed capture" % (render(ss) if ss else None)))
        checks.append(("present-finish", sf is not None and sf["k"] == "Path" and sf.get("res") == s_var,
                       "component present: finish is %s, expected the same value as start" % (render(sf) if sf else None)))
        for key, ok, msg in checks:
            n += 1
            ctx.obligation(ok)
            if not ok:
                ctx.violation("interval/%s/%s" % (unit, key), ctx.where(PARSE_DATETIME, m),
                              "%s (capture group %d): %s" % (unit, g, msg))
    ctx.covered("interval table (component present/absent -> start/finish) of parse_datetime", n,
                distinct_keys=["%s/%s" % (u[0], k) for u in GROUP_SPEC.values() for k in ("as", "af", "ps", "pf")],
                sample={"start": start_chain, "finish": finish_chain}, exhaustive=True)
    # whole-day literals: today / yesterday / +-days
    pairs = []
    locs = Locals(hir)
    for x in walk_exprs(hir):
        if x["k"] == "Call" and x.get("ctor") and short(x["callee"], 1) == "Ok" and x["args"]:
            t = peel(x["args"][0], methods=False)
            if t["k"] == "Tup" and len(t["es"]) == 2:
                vals = []
                for e in t["es"]:
                    d = locs.chase(e)
                    hms = [c for c in walk_exprs(d) if c["k"] == "MCall" and c["m"] == "and_hms_opt"]
                    vals.append(tuple(peel(a)["v"] for a in hms[0]["args"]) if hms and all(peel(a)["k"] == "Lit" for a in hms[0]["args"]) else None)
                if vals[0] is not None or vals[1] is not None:
                    pairs.append((vals, x))
    for vals, x in pairs:
        ok = vals[0] == (0, 0, 0) and vals[1] == (23, 59, 59)
        ctx.obligation(ok)
        if not ok:
            ctx.violation("interval/whole-day", ctx.where(PARSE_DATETIME, x),
                          "a whole-day literal yields the interval %s..%s instead of 00:00:00..23:59:59" % (vals[0], vals[1]))
    ctx.covered("whole-day literals (today, yesterday, signed offsets)", len(pairs), distinct_keys=["pairs:%d" % len(pairs)])
    ctx.floor(len(pairs), 3, "whole-day interval constructions", PARSE_DATETIME)


def r3(ctx):
    # DATE_REGEX: groups and their use
    lit = None
    for name, f in ctx.prog.fns.items():
        if name.startswith("util::datetime::DATE_REGEX") and "hir" in f:
            for x in walk_exprs(f["hir"]):
                if x["k"] == "Lit" and x["lk"] == "str":
                    lit = x["v"]
    if lit is None:
        ctx.violation("anchor/date-regex", "util::datetime::DATE_REGEX", "date regex literal not found")
        raise Abort()
    groups = re.findall(r"\((?!\?)([^()]*)\)", lit)
    want = {1: r"\d{4}", 3: r"\d{1,2}", 5: r"\d{1,2}", 6: r"\d{1,2}", 7: r"\d{1,2}", 8: r"\d{1,2}"}
    ok = len(groups) == 8 and all(groups[i - 1] == p for i, p in want.items()) and \
        all(set(groups[i - 1].split("|")) == {"-", ":"} for i in (2, 4))
    ctx.obligation(ok)
    ctx.covered("capture groups of the date literal regex", len(groups), distinct_keys=groups, sample={"regex": lit})
    if not ok:
        ctx.violation("date-regex/groups", "util::datetime::DATE_REGEX",
                      "date regex %r no longer has the documented shape year(-|:)month(-|:)day [hour[:min[:sec]]]" % lit)
    # year/month/day come from groups 1, 3, 5 in this order
    hir = ctx.anchor_hir(PARSE_DATETIME)
    locs = Locals(hir)
    cs = [c for c in walk_exprs(hir) if c["k"] == "MCall" and c["m"] == "with_ymd_and_hms"]
    if len(cs) != 1:
        ctx.violation("anchor/ymd", PARSE_DATETIME, "with_ymd_and_hms call not found")
    else:
        idx = []
        for a in cs[0]["args"][:3]:
            d = locs.chase(a)
            ix = [y for y in walk_exprs(d) if y["k"] == "Index" and peel(y["i"])["k"] == "Lit"]
            idx.append(peel(ix[0]["i"])["v"] if ix else None)
        ok = idx == [1, 3, 5]
        ctx.obligation(ok)
        ctx.covered("year/month/day capture indices", 3, distinct_keys=[str(idx)])
        if not ok:
            ctx.violation("date-regex/ymd-order", ctx.where(PARSE_DATETIME, cs[0]),
                          "year, month, day are read from capture groups %s, expected [1, 3, 5]" % idx)
    # output format
    fh = ctx.anchor_hir(FORMAT_DATETIME)
    lits = [x["v"] for x in walk_exprs(fh) if x["k"] == "Lit" and x["lk"] == "str" and "%" in str(x["v"])]
    ok = lits == ["%Y-%m-%d %H:%M:%S"]
    ctx.obligation(ok)
    ctx.covered("datetime output format literal", 1, distinct_keys=lits)
    if not ok:
        ctx.violation("format/datetime", ctx.where(FORMAT_DATETIME), "datetime columns are printed with %s, documented YYYY-MM-DD HH:MM:SS" % lits)
    # Field::Modified: mtime -> DateTime<Local> -> naive_local
    gf = ctx.anchor_hir(GET_FIELD_VALUE)
    ms = [m for m in find_matches(gf, min_arms=20)]
    arms = {key_name(k).split("::")[-1]: a for a in match_arms(ms[0]) for k in a["keys"]} if ms else {}
    for col, acc in (("Modified", "modified"), ("Accessed", "accessed"), ("Created", "created")):
        a = arms.get(col)
        if a is None:
            ctx.violation("column/%s" % col, GET_FIELD_VALUE, "arm for %s not found" % col)
            continue
        r = render(a["body"])
        has_acc = any(c["k"] == "MCall" and c["m"] == acc for c in walk_exprs(a["body"]))
        local = any("chrono::offset::local::Local" in y.get("ty", "") for y in walk_exprs(a["body"]))
        naive = any(c["k"] == "MCall" and c["m"] == "naive_local" for c in walk_exprs(a["body"]))
        ok = has_acc and local and naive
        ctx.obligation(ok)
        if not ok:
            ctx.violation("column/%s/local-time" % col, ctx.where(GET_FIELD_VALUE, a["body"]),
                          "%s must be read with .%s(), converted to DateTime<Local> and naive_local (accessor %s, local %s, naive %s)" %
                          (col, acc, has_acc, local, naive))
    ctx.covered("time columns: accessor -> DateTime<Local> -> naive_local", 3, distinct_keys=["Modified", "Accessed", "Created"])


RULES = [
    ("C13-R1", "date comparison arms on all orderings of (t, a, b)", r1),
    ("C13-R2", "interval construction table of parse_datetime", r2),
    ("C13-R3", "date regex groups, output format, local-time conversion of time columns", r3),
    ("C13-R4", "panic sites of the date parser are guarded or reviewed [analysis P of C10]",
     lambda ctx: __import__("c10").r1(ctx, only=lambda s: s.fn.startswith("util::datetime::") or s.fn == "function::Variant::to_datetime", rule_prefix="date-")),
    ("X-DATEALIKE", "date look-ahead of the lexer (regex, year and month ranges)", lambda ctx: __import__("extra").looks_like_date_rule(ctx)),
]

EXPLANATION = (
    "Static structural necessary conditions of C13: (R1) each arm of the DateTime comparison in Searcher::conforms is "
    "extracted as a Boolean formula over (t, a, b) and evaluated on all 10 weak orderings with a <= b against the "
    "interval semantics of =, !=, <, >, <=, >=; trichotomy and complementarity are rechecked on the arms; entry time "
    "and literal bounds must use one conversion chain; (R2) parse_datetime's table (component present -> start = "
    "finish = value; absent -> 0..23 / 0..59 / 0..59) and the whole-day intervals of today/yesterday/offsets; "
    "(R3) the date regex's groups and their use, the output format literal, and the mtime -> Local -> naive_local "
    "conversion of the time columns. chrono's calendar arithmetic, DST, the chrono-english fallback and the lexer's "
    "date/minus disambiguation are not decided."
    " The lexer's date look-ahead admits at least years 1970..=2999 and months 1..=12.")
ASSUMPTIONS = ["rustc's HIR faithfully represents the source; exporter and rule scripts are correct",
               "chrono's with_hour/with_minute/with_second/and_hms_opt set exactly the named component"]
NOT_DECIDED = ["chrono's calendar arithmetic, DST gaps and local-time conversion",
               "the chrono-english fallback for free-form dates",
               "the lexer's decision to keep '-' inside a date literal on arbitrary text",
               "panics of parse_datetime on out-of-range components (decided under C10)"]
