"""C13 — date literals denote intervals; comparisons partition time consistently (static necessary conditions)."""
import re

from hirq import *  # noqa: F401,F403
import sem
from core import Abort

PARSE_DATETIME = "util::datetime::parse_datetime"
FORMAT_DATETIME = "util::datetime::format_datetime"
GET_FIELD_VALUE = "searcher::Searcher::get_field_value"

SPEC = {
    "Eq": lambda x, a, b: a <= x <= b,
    "Ne": lambda x, a, b: not (a <= x <= b),
    "Lt": lambda x, a, b: x < a,
    "Gt": lambda x, a, b: x > b,
    "Lte": lambda x, a, b: x <= b,
    "Gte": lambda x, a, b: x >= a,
}


def r1(ctx):
    cf = sem.Conforms(ctx)
    t, m = cf.op_table("DateTime")
    if t is None:
        ctx.violation("anchor/datetime-arm", sem.CONFORMS, "DateTime comparison arm of conforms not found")
        raise Abort()
    if set(cf.tuple_side.values()) != {"a", "b"}:
        ctx.violation("anchor/datetime-interval", sem.CONFORMS,
                      "the (start, finish) destructuring of the literal's interval was not found")
        raise Abort()
    ev = Evaluator(cf.leaf3, cf.locs)
    orderings = [w for w in weak_orderings(["x", "a", "b"]) if w["a"] <= w["b"]]
    n = 0
    import conf
    import interp
    crun = conf.Run(ctx)

    def by_evaluation(op, w):
        """the arm is not written as comparisons of (dt, start, finish) that the extractor reads (instants compared through a
        helper or another accessor): conforms is evaluated on a date column holding the instant x against a literal whose
        interval is [a, b]"""
        got, _tr = crun.run(op, conf.variant("t", "DateTime", dt=(w["x"], w["x"])), conf.variant("lit", dt=(w["a"], w["b"])))
        if not isinstance(got, bool):
            raise interp.Undecided("conforms gives %r" % (got,))
        return got
    for op, spec in SPEC.items():
        body = t.get(op, t.get("_"))
        bad = []
        for w in orderings:
            try:
                got = ev.boolean(body, w)
            except NotComparison as e:
                try:
                    got = by_evaluation(op, w)
                except interp.Undecided as e2:
                    ctx.violation("conforms/DateTime/%s/not-a-comparison" % op, ctx.where(sem.CONFORMS, body),
                                  "arm for %s is not a pure comparison of (dt, start, finish) (%s) and conforms cannot be evaluated on it either: %s" % (op, e, e2))
                    bad = None
                    break
            n += 1
            want = spec(w["x"], w["a"], w["b"])
            ctx.obligation(got == want)
            if got != want:
                bad.append(sem.describe_ordering(w).replace("x", "t"))
        if bad:
            ctx.violation("conforms/DateTime/%s" % op, ctx.where(sem.CONFORMS, body),
                          "date comparison %s is `%s`; it differs from the interval semantics when %s" %
                          (op, render(body), "; ".join(bad[:4])), {"orderings": bad})
    # trichotomy and complementarity are consequences; recheck them on the extracted arms directly
    for w in orderings:
        try:
            vals = {op: ev.boolean(t.get(op, t.get("_")), w) for op in ("Lt", "Eq", "Gt", "Ne")}
        except NotComparison:
            break
        tri = (vals["Lt"] + vals["Eq"] + vals["Gt"]) == 1 and vals["Ne"] != vals["Eq"]
        ctx.obligation(tri)
        if not tri:
            ctx.violation("conforms/DateTime/trichotomy", ctx.where(sem.CONFORMS, m),
                          "exactly one of <, =, > must hold: fails when %s" % sem.describe_ordering(w).replace("x", "t"))
    ctx.covered("date comparison arms x weak orderings of (t, a, b | a <= b)", n,
                distinct_keys=["%s/%s" % (op, sem.describe_ordering(w)) for op in SPEC for w in orderings],
                sample={op: render(t.get(op, t.get("_"))) for op in SPEC}, exhaustive=True)
    ctx.floor(n, 6 * len(orderings), "date comparison evaluations", sem.CONFORMS)
    # both sides are converted with the same chain (naive local -> and_utc().timestamp())
    chains = {}
    for x in walk(cf.hir):
        if x["k"] == "Let" and x["pat"]["k"] == "Bind" and "init" in x and "timestamp" in render(x["init"]):
            chain = []
            n_ = peel(x["init"], methods=False)
            while n_["k"] == "MCall":
                chain.append(n_["m"])
                n_ = peel(n_["recv"], methods=False)
            chains[x["pat"]["name"]] = tuple(c for c in chain if c not in ("to_datetime",))
    ok = len(chains) >= 2 and len(set(chains.values())) == 1
    ctx.obligation(ok)
    ctx.covered("conversion chains of dt/start/finish to comparable seconds", len(chains), distinct_keys=chains,
                sample={k: list(v) for k, v in chains.items()})
    if not ok:
        ctx.violation("conforms/DateTime/conversion", ctx.where(sem.CONFORMS),
                      "entry time and literal bounds are not converted to seconds by the same chain: %s" % chains)


GROUP_SPEC = {6: ("with_hour", 0, 23), 7: ("with_minute", 0, 59), 8: ("with_second", 0, 59)}


class _Days:
    def __init__(self, n):
        self.n = n


class _Date:
    """mock calendar date: `today` shifted by a number of days"""

    def __init__(self, off=0, ymd=None):
        self.off, self.ymd = off, ymd

    def __sub__(self, d):
        return _Date(self.off - d.n, self.ymd)

    def __add__(self, d):
        return _Date(self.off + d.n, self.ymd)

    def key(self):
        if self.ymd is None:
            return "today%+d" % self.off
        return self.ymd if not (isinstance(self.ymd, str) and self.off) else "%s%+d" % (self.ymd, self.off)


def _date_regex_literal(ctx):
    lit = None
    for name, f in ctx.prog.fns.items():
        if name.startswith("util::datetime::DATE_REGEX") and "hir" in f:
            for x in walk_exprs(f["hir"]):
                if x["k"] == "Lit" and x["lk"] == "str":
                    lit = x["v"]
    return lit


def _parse_datetime_scenarios(ctx):
    """(start, finish) of parse_datetime read off its source by the finite interpreter, with regex captures, chrono and
    chrono_english mocked by their contracts.  A datetime is (date key, h, m, s)."""
    import interp
    hir = ctx.anchor_hir(PARSE_DATETIME)
    pid = ctx.prog.fns[PARSE_DATETIME]["params"][0]["id"]
    out = {}
    scen = {
        "today": None, "yesterday": None, "+3": None, "-2": None,
        "2023-05-06": {1: "2023", 2: "-", 3: "05", 4: "-", 5: "06"},
        "2023-05-06 13": {1: "2023", 2: "-", 3: "05", 4: "-", 5: "06", 6: "13"},
        "2023-05-06 13:14": {1: "2023", 2: "-", 3: "05", 4: "-", 5: "06", 6: "13", 7: "14"},
        "2023-05-06 13:14:15": {1: "2023", 2: "-", 3: "05", 4: "-", 5: "06", 6: "13", 7: "14", 8: "15"},
        "2023:05:06 00:00:00": {1: "2023", 2: ":", 3: "05", 4: ":", 5: "06", 6: "00", 7: "00", 8: "00"},
        "2023-05-06 25": {1: "2023", 2: "-", 3: "05", 4: "-", 5: "06", 6: "25"},
        "2023-12-31": None, "2023-04-30 7": None, "2023-10-31 23:59": None, "1999-1-9": None,
        "2024-02-29": None, "2024:02:29 12:34": None,
        "last friday": None, "1 hour ago": None, "x": None,
    }
    # the capture groups are those of the DATE_REGEX literal of the analysed tree, matched on the scenario text (the literal
    # uses only syntax on which Python's and Rust's regex engines agree: digits classes, counted repetition, groups,
    # alternation, optional groups; anything else is refused)
    lit = _date_regex_literal(ctx)
    cre = None
    if lit is not None and re.fullmatch(r"[\\dws(){}\[\]|?:*+,\- 0-9A-Za-z^$.]*", lit) and not re.search(r"\(\?[^:]", lit):
        try:
            cre = re.compile(lit)
        except re.error:
            cre = None
    if cre is None:
        return {t: "undecided: the date regex literal %r cannot be read" % lit for t in scen}
    for text in list(scen):
        m_ = cre.search(text)
        scen[text] = {i: g for i, g in enumerate(m_.groups(), 1) if g is not None} if m_ else None
    for text, groups in scen.items():
        def call(node, recv, args, it, env, text=text, groups=groups):
            callee = str(node.get("callee", ""))
            m = node.get("m")
            k = node["k"]
            if m == "captures":
                return (interp.some({"__cap": groups}) if groups else interp.NONE,)
            if k == "Index" and isinstance(recv, dict) and "__cap" in recv:
                g = recv["__cap"].get(args[0])
                if g is None:
                    raise interp.Undecided("capture group %s absent (a panic in the analysed code)" % args[0])
                return (g,)
            if isinstance(recv, dict) and "__cap" in recv and m == "get" and args:
                g = recv["__cap"].get(args[0])
                return (interp.some({"__match": g}) if g is not None else interp.NONE,)
            if isinstance(recv, dict) and "__match" in recv and m == "as_str":
                return (recv["__match"],)
            if m == "parse" and isinstance(recv, str):
                try:
                    return (interp.V("Result::Ok", [int(recv)]),)
                except ValueError:
                    return (interp.V("Result::Err", [interp.Opaque("parse error")]),)
            if m == "with_ymd_and_hms" and len(args) == 6 and all(isinstance(a, int) for a in args):
                # chrono's contract: out-of-range fields give None; a wall-clock time is resolved through the time zone, and
                # only local midnight is taken to resolve uniquely (the pinned tree's own assumption) -- any other time of day
                # may fall into the hour repeated when the clocks go back, which chrono reports as Ambiguous
                if not (1 <= args[1] <= 12 and 1 <= args[2] <= 31 and 0 <= args[3] <= 23 and 0 <= args[4] <= 59 and 0 <= args[5] <= 59):
                    return (interp.V("LocalResult::None", []),)
                dt = {"__dt": ((args[0], args[1], args[2]),) + tuple(args[3:])}
                if tuple(args[3:]) == (0, 0, 0):
                    return (interp.V("LocalResult::Single", [dt]),)
                return (interp.V("LocalResult::Ambiguous", [dt, dict(dt)]),)
            if callee.endswith("Local::now") or callee.endswith("::now"):
                return ({"__dt": ("today+0", 12, 30, 45), "__date": _Date()},)
            if m in ("naive_utc",) and isinstance(recv, dict) and "__date" in recv:
                # the UTC calendar day is another day than the local one for part of every day outside UTC
                return ({"__dt": ("utc-day",) + tuple(recv["__dt"][1:]), "__date": _Date(ymd="utc-day")},)
            if m in ("date", "date_naive") and isinstance(recv, dict) and ("__date" in recv or "__dt" in recv):
                return (recv.get("__date", _Date(ymd=recv["__dt"][0])),)
            if m == "naive_local" and isinstance(recv, dict):
                return (recv,)
            if m == "and_hms_opt" and isinstance(recv, _Date) and len(args) == 3:
                okv = 0 <= args[0] <= 23 and 0 <= args[1] <= 59 and 0 <= args[2] <= 59
                return (interp.some({"__dt": (recv.key(),) + tuple(args)}) if okv else interp.NONE,)
            if m in ("with_hour", "with_minute", "with_second") and isinstance(recv, dict) and "__dt" in recv and args:
                d, h, mi, sc = recv["__dt"]
                lim = 23 if m == "with_hour" else 59
                if not (0 <= args[0] <= lim):
                    return (interp.NONE,)
                return (interp.some({"__dt": (d, args[0] if m == "with_hour" else h, args[0] if m == "with_minute" else mi, args[0] if m == "with_second" else sc)}),)
            if m in ("hour", "minute", "second") and isinstance(recv, dict) and "__dt" in recv:
                return (recv["__dt"][{"hour": 1, "minute": 2, "second": 3}[m]],)
            if callee.endswith("try_days") and args and isinstance(args[0], int):
                return (interp.some(_Days(args[0])),)
            if k == "Path" or (k == "Call" and not node["args"]):
                return None
            if m == "checked_add_signed" and isinstance(recv, _Date) and args and isinstance(args[0], _Days):
                return (interp.some(recv + args[0]),)
            if callee.endswith("parse_date_string"):
                if text == "last friday":
                    return (interp.V("Result::Ok", [{"__dt": ("friday", 0, 0, 0)}]),)
                if text == "1 hour ago":
                    return (interp.V("Result::Ok", [{"__dt": ("today+0", 11, 30, 45)}]),)
                return (interp.V("Result::Err", [interp.Opaque("no date")]),)
            return None
        try:
            v = interp.Interp(call=call, max_steps=40000, prog=ctx.prog).run(hir, {pid: text})
        except interp.Undecided as e:
            out[text] = "undecided: %s" % e
            continue
        if isinstance(v, interp.V) and v.name == "Result::Ok" and isinstance(v.args[0], tuple) and len(v.args[0]) == 2 and \
                all(isinstance(x, dict) and "__dt" in x for x in v.args[0]):
            out[text] = (v.args[0][0]["__dt"], v.args[0][1]["__dt"])
        elif isinstance(v, interp.V) and v.name == "Result::Err":
            out[text] = "error"
        else:
            out[text] = "unexpected: %r" % (v,)
    return out


def r2(ctx):
    """the time interval of a date literal: parse_datetime evaluated (finite interpreter; regex, chrono and chrono_english
    mocked by their contracts) on literals with 0..3 time components, the day words, signed day offsets, natural-language
    dates and invalid input"""
    res = _parse_datetime_scenarios(ctx)
    d = (2023, 5, 6)
    want = {
        "today": (("today+0", 0, 0, 0), ("today+0", 23, 59, 59)), "yesterday": (("today-1", 0, 0, 0), ("today-1", 23, 59, 59)),
        "+3": (("today+3", 0, 0, 0), ("today+3", 23, 59, 59)), "-2": (("today-2", 0, 0, 0), ("today-2", 23, 59, 59)),
        "2023-05-06": ((d, 0, 0, 0), (d, 23, 59, 59)), "2023-05-06 13": ((d, 13, 0, 0), (d, 13, 59, 59)),
        "2023-05-06 13:14": ((d, 13, 14, 0), (d, 13, 14, 59)), "2023-05-06 13:14:15": ((d, 13, 14, 15), (d, 13, 14, 15)),
        "2023:05:06 00:00:00": ((d, 0, 0, 0), (d, 0, 0, 0)), "2023-05-06 25": "error",
        "2023-12-31": (((2023, 12, 31), 0, 0, 0), ((2023, 12, 31), 23, 59, 59)), "2023-04-30 7": (((2023, 4, 30), 7, 0, 0), ((2023, 4, 30), 7, 59, 59)),
        "2023-10-31 23:59": (((2023, 10, 31), 23, 59, 0), ((2023, 10, 31), 23, 59, 59)), "1999-1-9": (((1999, 1, 9), 0, 0, 0), ((1999, 1, 9), 23, 59, 59)),
        # a leap day is a date like any other
        "2024-02-29": (((2024, 2, 29), 0, 0, 0), ((2024, 2, 29), 23, 59, 59)), "2024:02:29 12:34": (((2024, 2, 29), 12, 34, 0), ((2024, 2, 29), 12, 34, 59)),
        "last friday": (("friday", 0, 0, 0), ("friday", 23, 59, 59)), "1 hour ago": (("today+0", 11, 30, 45), ("today+0", 11, 30, 45)), "x": "error",
    }
    n = 0
    for text, w in want.items():
        got = res.get(text)
        n += 1
        ok = got == w
        ctx.obligation(ok)
        if not ok:
            kind = "whole-day" if text in ("today", "yesterday", "+3", "-2") else ("natural" if text in ("last friday", "1 hour ago") else
                                                                                    ("invalid" if w == "error" else "with_%s" % ["day", "hour", "minute", "second"][min(3, len(text.split(" ")[-1].split(":")) if " " in text else 0)]))
            ctx.violation("interval/%s/%s" % (kind, text.replace(" ", "_")), ctx.where(PARSE_DATETIME),
                          "the literal `%s` denotes %s, expected %s" % (text, got, w))
    ctx.covered("time interval of date literals: parse_datetime evaluated on 19 literals (0..3 time components, both separators, leap day, day words, offsets, natural language, invalid)", n, distinct_keys=list(want), exhaustive=True)


def r3(ctx):
    # DATE_REGEX: groups and their use
    lit = None
    for name, f in ctx.prog.fns.items():
        if name.startswith("util::datetime::DATE_REGEX") and "hir" in f:
            for x in walk_exprs(f["hir"]):
                if x["k"] == "Lit" and x["lk"] == "str":
                    lit = x["v"]
    if lit is None:
        ctx.violation("anchor/date-regex", "util::datetime::DATE_REGEX", "date regex literal not found")
        raise Abort()
    groups = re.findall(r"\((?!\?)([^()]*)\)", lit)
    want = {1: r"\d{4}", 3: r"\d{1,2}", 5: r"\d{1,2}", 6: r"\d{1,2}", 7: r"\d{1,2}", 8: r"\d{1,2}"}
    ok = len(groups) == 8 and all(groups[i - 1] == p for i, p in want.items()) and \
        all(set(groups[i - 1].split("|")) == {"-", ":"} for i in (2, 4))
    ctx.obligation(ok)
    ctx.covered("capture groups of the date literal regex", len(groups), distinct_keys=groups, sample={"regex": lit})
    if not ok:
        ctx.violation("date-regex/groups", "util::datetime::DATE_REGEX",
                      "date regex %r no longer has the documented shape year(-|:)month(-|:)day [hour[:min[:sec]]]" % lit)
    # year/month/day come from groups 1, 3, 5 in this order
    hir = ctx.anchor_hir(PARSE_DATETIME)
    locs = Locals(hir)
    cs = [c for c in walk_exprs(hir) if c["k"] == "MCall" and c["m"] in ("with_ymd_and_hms", "from_ymd_opt")] + \
        [c for c in walk_exprs(hir) if c["k"] == "Call" and str(c.get("callee", "")).endswith("from_ymd_opt")]
    if not cs:
        ctx.violation("anchor/ymd", PARSE_DATETIME, "no call building the date from (year, month, day) found (with_ymd_and_hms / from_ymd_opt)")
    for c0 in cs:
        idx = []
        for a in c0["args"][:3]:
            d = locs.chase(a)
            ix = [y for y in walk_exprs(d) if y["k"] == "Index" and peel(y["i"])["k"] == "Lit"]
            idx.append(peel(ix[0]["i"])["v"] if ix else None)
        ok = idx == [1, 3, 5]
        ctx.obligation(ok)
        ctx.covered("year/month/day capture indices", 3, distinct_keys=[str(idx)])
        if not ok:
            ctx.violation("date-regex/ymd-order", ctx.where(PARSE_DATETIME, c0),
                          "year, month, day are read from capture groups %s, expected [1, 3, 5]" % idx)
    # output format
    fh = ctx.anchor_hir(FORMAT_DATETIME)
    lits = [x["v"] for x in walk_exprs(fh) if x["k"] == "Lit" and x["lk"] == "str" and "%" in str(x["v"])]
    ok = lits == ["%Y-%m-%d %H:%M:%S"]
    ctx.obligation(ok)
    ctx.covered("datetime output format literal", 1, distinct_keys=lits)
    if not ok:
        ctx.violation("format/datetime", ctx.where(FORMAT_DATETIME), "datetime columns are printed with %s, documented YYYY-MM-DD HH:MM:SS" % lits)
    # Field::Modified: mtime -> DateTime<Local> -> naive_local
    gf = ctx.anchor_hir(GET_FIELD_VALUE)
    ms = [m for m in find_matches(gf, min_arms=20)]
    arms = {key_name(k).split("::")[-1]: a for a in match_arms(ms[0]) for k in a["keys"]} if ms else {}
    for col, acc in (("Modified", "modified"), ("Accessed", "accessed"), ("Created", "created")):
        a = arms.get(col)
        if a is None:
            ctx.violation("column/%s" % col, GET_FIELD_VALUE, "arm for %s not found" % col)
            continue
        r = render(a["body"])
        has_acc = any(c["k"] == "MCall" and c["m"] == acc for c in walk_exprs(a["body"]))
        local = any("chrono::offset::local::Local" in y.get("ty", "") for y in walk_exprs(a["body"]))
        naive = any(c["k"] == "MCall" and c["m"] == "naive_local" for c in walk_exprs(a["body"]))
        ok = has_acc and local and naive
        ctx.obligation(ok)
        if not ok:
            ctx.violation("column/%s/local-time" % col, ctx.where(GET_FIELD_VALUE, a["body"]),
                          "%s must be read with .%s(), converted to DateTime<Local> and naive_local (accessor %s, local %s, naive %s)" %
                          (col, acc, has_acc, local, naive))
    ctx.covered("time columns: accessor -> DateTime<Local> -> naive_local", 3, distinct_keys=["Modified", "Accessed", "Created"])


RULES = [
    ("C13-R1", "date comparison arms on all orderings of (t, a, b)", r1),
    ("C13-R2", "interval construction table of parse_datetime", r2),
    ("C13-R3", "date regex groups, output format, local-time conversion of time columns", r3),
    ("C13-R4", "panic sites of the date parser are guarded or reviewed [analysis P of C10]",
     lambda ctx: __import__("c10").r1(ctx, only=lambda s: s.fn.startswith("util::datetime::") or s.fn == "function::Variant::to_datetime", rule_prefix="date-")),
    ("X-DATEALIKE", "date look-ahead of the lexer (regex, year and month ranges)", lambda ctx: __import__("extra").looks_like_date_rule(ctx)),
    ("X-OPERANDS", "each operand of a comparison is evaluated afresh (no memo shared between operands or conditions: a remembered value comes back as text) [shared]", lambda ctx: __import__("conf").operands_evaluated_afresh(ctx)),
    ("X-REEVAL", "an expression evaluated twice for one entry has the same typed value both times (no text-valued memo beside the map handed in) [shared]", lambda ctx: __import__("gcev").reevaluation_is_stable(ctx)),
    ("X-VARIANT", "Variant constructors keep the value they are given (a time is not rounded) [shared]", lambda ctx: __import__("extra").variant_constructors(ctx)),
]

EXPLANATION = (
    "Static structural necessary conditions of C13: (R1) each arm of the DateTime comparison in Searcher::conforms is "
    "extracted as a Boolean formula over (t, a, b) and evaluated on all 10 weak orderings with a <= b against the "
    "interval semantics of =, !=, <, >, <=, >=; trichotomy and complementarity are rechecked on the arms; entry time "
    "and literal bounds must use one conversion chain; (R2) parse_datetime's table (component present -> start = "
    "finish = value; absent -> 0..23 / 0..59 / 0..59) and the whole-day intervals of today/yesterday/offsets; "
    "(R3) the date regex's groups and their use, the output format literal, and the mtime -> Local -> naive_local "
    "conversion of the time columns. chrono's calendar arithmetic, DST, the chrono-english fallback and the lexer's "
    "date/minus disambiguation are not decided."
    " The lexer's date look-ahead admits at least years 1970..=2999 and months 1..=12.")
ASSUMPTIONS = ["rustc's HIR faithfully represents the source; exporter and rule scripts are correct",
               "chrono's with_hour/with_minute/with_second/and_hms_opt set exactly the named component"]
NOT_DECIDED = ["chrono's calendar arithmetic, DST gaps and local-time conversion",
               "the chrono-english fallback for free-form dates",
               "the lexer's decision to keep '-' inside a date literal on arbitrary text",
               "panics of parse_datetime on out-of-range components (decided under C10)"]
