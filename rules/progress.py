"""T — progress analysis (termination clause of C10).  Parser cursor algebra over MIR + loop idioms."""
from hirq import *  # noqa: F401,F403


def check(ctx):
    who_may_write(ctx)
    import cursor
    cursor.check(ctx)
    other_loops(ctx)


def who_may_write(ctx):
    """the parser cursor is written by next_lexem (+1) and drop_lexem (-1) only; the lexer cursor only moves forward"""
    writers = {}
    for b in ctx.prog.bodies():
        for i, j, p, rv in b.assigns():
            if p["pr"] and p["pr"][-1] == ".index" and "Parser" in b.local_ty(p["l"]):
                writers.setdefault(b.name, []).append(rv)
    ok = set(writers) <= {"parser::Parser::next_lexem", "parser::Parser::drop_lexem", "parser::Parser::new"}
    ctx.obligation(ok)
    ctx.covered("writers of Parser.index in the whole crate (MIR)", sum(len(v) for v in writers.values()), distinct_keys=sorted(writers))
    if not ok:
        ctx.violation("cursor/writers", "parser.rs", "Parser.index is written outside next_lexem/drop_lexem: %s" % sorted(writers))
    for fn, op, c in (("parser::Parser::next_lexem", "+=", "1"), ("parser::Parser::drop_lexem", "-=", "1")):
        h = ctx.anchor_hir(fn)
        a = [x for x in walk_exprs(h) if x["k"] == "AssignOp"]
        ok = len(a) == 1 and a[0]["op"] == op and render(a[0]["l"]) == "self.index" and render(a[0]["r"]) == c and \
            not guards_of(h, a[0])
        ctx.obligation(ok)
        if not ok:
            ctx.violation("cursor/%s" % short(fn, 1), ctx.where(fn), "%s must move the cursor by exactly one, unconditionally" % short(fn, 1))
    # lexer: char_index only grows, or is reset to -1 together with input_index += 1
    lh = ctx.anchor_hir("lexer::Lexer::next_lexem")
    bad = []
    resets = 0
    for x in walk_exprs(lh):
        if x["k"] == "AssignOp" and render(x["l"]) in ("self.char_index", "self.input_index"):
            if not (x["op"] == "+=" and render(x["r"]) == "1"):
                bad.append(render(x))
        if x["k"] == "Assign" and render(x["l"]) == "self.char_index":
            resets += 1
            if render(x["r"]) != "-1":
                bad.append(render(x))
        if x["k"] == "Assign" and render(x["l"]) == "self.input_index":
            bad.append(render(x))
    ok = not bad and resets == 1
    ctx.obligation(ok)
    ctx.covered("lexer cursor updates (char_index += 1, or input_index += 1 with char_index = -1)", 1, distinct_keys=["lexer"])
    if not ok:
        ctx.violation("cursor/lexer", ctx.where("lexer::Lexer::next_lexem"), "the lexer's cursors may only advance: %s" % bad)


PROGRESS_IDIOMS = ("for-loop over an iterator", "shrinking collection with emptiness exit", "PathBuf::pop with false exit",
                   "buffered reader fill_buf/consume with empty exit", "parser/lexer cursor loop", "interactive read-eval loop")


def _pop_false_exit(body):
    """the loop climbs with PathBuf::pop() and leaves when pop() reports that there is no parent: the (possibly named) result
    of pop() is tested and its false outcome diverges"""
    locs = Locals(body)
    pops = [y for y in walk_exprs(body) if y["k"] == "MCall" and y["m"] == "pop" and not y["args"] and "Path" in str(peel(y["recv"]).get("ty", "")) + str(y["recv"].get("ty", ""))]
    if not pops:
        return False
    for xx, pos_b, neg_b in find_ifs(body, lambda c: any(p_ is peel(locs.chase(c), methods=False) or p_ is peel(c, methods=False) for p_ in pops)):
        if neg_b is not None and diverges(neg_b):
            return True
    return False


def other_loops(ctx):
    """every `loop`/`while` of the crate outside the parser matches a progress idiom"""
    n = 0
    for name, f in sorted(ctx.prog.fns.items()):
        if "hir" not in f or "::_::" in name:
            continue
        h = ctx.prog.hir(name)
        for x in walk_exprs(h):
            if x["k"] != "Loop":
                continue
            src = x.get("src", "")
            n += 1
            if src == "ForLoop":
                ctx.obligation(True)
                continue
            r = " ".join(render(y) for y in walk_exprs(x["body"]) if y["k"] in ("MCall", "Call", "If", "Break", "Ret"))
            calls = {y["m"] for y in walk_exprs(x["body"]) if y["k"] == "MCall"}
            idiom = None
            if name.startswith("parser::Parser::") and ("next_lexem" in calls):
                idiom = "parser cursor loop (decided by the cursor analysis)"
            elif name == "lexer::Lexer::next_lexem":
                idiom = "lexer cursor loop"
            elif name == "parser::Parser::parse" and "next_lexem" in calls:
                idiom = "lexer-driven loop"
            elif "pop_front" in calls and "is_empty" in calls:
                idiom = "shrinking queue with emptiness exit"
            elif any(y["k"] == "Match" and any(c["k"] == "MCall" and c["m"] in ("pop_front", "pop", "pop_back") for c in walk_exprs(y["scrut"])) and
                     any(a["body"]["k"] == "Break" or diverges(a["body"]) for a in y["arms"] if "None" in render_pat(a["pat"]) or a["pat"]["k"] == "Wild")
                     for y in walk_exprs(x["body"])) or \
                    any(y["k"] == "If" and y["c"]["k"] == "LetE" and "Some" in render_pat(y["c"]["pat"]) and "e" in y and diverges(y["e"]) and
                        any(c["k"] == "MCall" and c["m"] in ("pop_front", "pop", "pop_back") for c in walk_exprs(y["c"]["init"]))
                        for y in walk_exprs(x["body"])):
                idiom = "`while let Some(..) = queue.pop*()`: shrinking queue, exit when it yields None"
            elif "pop" in calls and _pop_false_exit(x["body"]):
                idiom = "PathBuf::pop with false exit"
            elif "fill_buf" in calls and "consume" in calls:
                idiom = "buffered reader with empty-buffer exit"
            elif "remove" in calls and "starts_with" in r:
                idiom = "string shrinking by one char per iteration"
            elif "readline" in calls:
                idiom = "interactive read-eval loop (user driven)"
            elif name == "main" and ("remove" in calls):
                idiom = "argument list shrinking by at least one per iteration, exit when empty or no option matches"
            ctx.obligation(idiom is not None)
            if idiom is None:
                ctx.violation("loop/%s" % name, ctx.where(name, x), "loop without a recognised progress idiom (%s)" % ", ".join(sorted(calls))[:120])
    ctx.covered("loops of the crate classified by progress idiom", n, distinct_keys=["loops:%d" % n])
    ctx.floor(n, 25, "loops in non-test code", "crate")
