"""C11 — documented alternative spellings of a query denote the same query (static necessary conditions)."""
from hirq import *  # noqa: F401,F403
import oracles
import tables
from core import Abort

NEXT_LEXEM = "lexer::Lexer::next_lexem"
ROOT_OPTIONS = "parser::Parser::parse_root_options"
IS_ROOT_KW = "parser::Parser::is_root_option_keyword"
FIELD_FROM_STR = "<field::Field as core::str::traits::FromStr>::from_str"
FUNC_FROM_STR = "<function::Function as core::str::traits::FromStr>::from_str"


def r1(ctx):
    fs = dict(oracles.FIELD_SPELLINGS)
    if "User" in (ctx.prog.adt_variants("field::Field") or []):
        fs.update(oracles.FIELD_SPELLINGS_USERS)
    tables.string_table(ctx, FIELD_FROM_STR, fs, "column")
    fn = dict(oracles.FUNCTION_SPELLINGS)
    if "CurrentUid" in (ctx.prog.adt_variants("function::Function") or []):
        fn.update(oracles.FUNCTION_SPELLINGS_USERS)
    tables.string_table(ctx, FUNC_FROM_STR, fn, "function")
    # ... and by evaluation of the two from_str functions whole (a pre-check in front of the table - a length limit, a
    # character class - is part of what they accept)
    tables.string_table_eval(ctx, FIELD_FROM_STR, fs, "column", non_words=("frobnicate", "", "no such column"))
    tables.string_table_eval(ctx, FUNC_FROM_STR, fn, "function", non_words=("frobnicate", "", "no such function"))
    # (the operator tables by evaluation: written as a match, a slice lookup or an if-ladder, what counts is what they accept)
    tables.string_table_eval(ctx, "operators::Op::from", {k: v for k, v in oracles.OP_SPELLINGS.items()}, "operator", non_words=("frobnicate", "", "=>"))
    tables.string_table_eval(ctx, "operators::ArithmeticOp::from", oracles.ARITH_SPELLINGS, "arithmetic", non_words=("frobnicate", "", "^"))
    tables.string_table_eval(ctx, "query::OutputFormat::from", {v: [k] for k, v in oracles.OUTPUT_FORMATS.items()}, "format")


def _ladder(ctx, fn):
    """string tests of an if/else-if ladder over a lower-cased string: [(kind, literal, node)]"""
    hir = ctx.anchor_hir(fn)
    locs = Locals(hir)
    out = []
    for x in walk_exprs(hir):
        lit = None
        other = None
        kind = None
        if x["k"] == "Bin" and x["op"] in ("==", "!="):
            for a, b in ((x["l"], x["r"]), (x["r"], x["l"])):
                pa = peel(a)
                if pa["k"] == "Lit" and pa["lk"] == "str":
                    lit, other, kind = pa["v"], b, "eq"
        elif x["k"] == "MCall" and x["m"] in ("starts_with", "eq", "ne", "ends_with") and x["args"]:
            pa = peel(x["args"][0])
            if pa["k"] == "Lit" and pa["lk"] == "str":
                lit, other, kind = pa["v"], x["recv"], ("prefix" if x["m"] == "starts_with" else "eq")
        if lit is not None:
            out.append((kind, lit, x, tables.is_lowercased(other, locs), other))
    return out, hir


def accepts(tests, word):
    for kind, lit, *_ in tests:
        if (kind == "eq" and word == lit) or (kind == "prefix" and word.startswith(lit)):
            return True
    return False


def _parser_self(lexems):
    return {"lexems": list(lexems), "index": 0, "roots_parsed": False, "where_parsed": False}


def r2(ctx):
    """root option words: parse_root_options is evaluated (finite interpreter, the parser's cursor helpers interpreted too)
    on every documented word - alone, in upper case, followed by a number where it takes one, and after another option -
    and the resulting RootOptions is compared field by field; is_root_option_keyword is evaluated on the same words"""
    import interp
    V = interp.V
    has_git = ctx.config in ("default", "git")
    defaults = {"min_depth": 0, "max_depth": 0, "archives": False, "symlinks": False, "gitignore": interp.NONE, "hgignore": interp.NONE,
                "dockerignore": interp.NONE, "traversal": "Bfs", "regexp": False}
    effect = {"archives": ("archives", True), "arc": ("archives", True), "symlinks": ("symlinks", True), "sym": ("symlinks", True),
              "hgignore": ("hgignore", interp.some(True)), "hg": ("hgignore", interp.some(True)),
              "dockerignore": ("dockerignore", interp.some(True)), "dock": ("dockerignore", interp.some(True)),
              "nogitignore": ("gitignore", interp.some(False)), "nogit": ("gitignore", interp.some(False)),
              "nohgignore": ("hgignore", interp.some(False)), "nohg": ("hgignore", interp.some(False)),
              "nodockerignore": ("dockerignore", interp.some(False)), "nodock": ("dockerignore", interp.some(False)),
              "bfs": ("traversal", "Bfs"), "dfs": ("traversal", "Dfs"), "regexp": ("regexp", True), "rx": ("regexp", True)}
    if has_git:
        effect.update({"gitignore": ("gitignore", interp.some(True)), "git": ("gitignore", interp.some(True))})
    numeric = {"mindepth": "min_depth", "maxdepth": "max_depth", "depth": "max_depth"}
    h = ctx.anchor_hir(ROOT_OPTIONS)
    ps = ctx.prog.fns[ROOT_OPTIONS]["params"]

    def call(node, recv, args, it, env):
        if str(node.get("callee", "")).endswith("error_message"):
            return ((),)
        return None

    def run(lexems):
        selfv = _parser_self(lexems)
        r = interp.Interp(call=call, prog=ctx.prog, max_steps=60000).run(h, {ps[0]["id"]: selfv})
        return r, selfv["index"]

    def norm(opts):
        d = {}
        for k, v in opts.items():
            if isinstance(v, V) and k == "traversal":
                v = v.name.split("::")[-1]
            d[k] = v
        return d
    n = 0
    raw = lambda w: V("Lexem::RawString", [w])
    for word in list(effect) + list(numeric):
        for spelled in (word, word.upper()):
            if word in numeric:
                lex = [raw(spelled), raw("3"), V("Lexem::Where")]
                want = dict(defaults, **{numeric[word]: 3})
                consumed = 2
            else:
                lex = [raw(spelled), V("Lexem::Where")]
                want = dict(defaults, **{effect[word][0]: effect[word][1]})
                consumed = 1
            n += 1
            try:
                got, idx = run(lex)
            except interp.Undecided as e:
                ctx.violation("root-option/unreadable", ctx.where(ROOT_OPTIONS), "cannot evaluate parse_root_options on `%s`: %s" % (spelled, e))
                return
            ok = isinstance(got, V) and got.name == "Option::Some" and isinstance(got.args[0], dict) and \
                {k: v for k, v in norm(got.args[0]).items() if k in want} == want and idx == consumed
            ctx.obligation(ok)
            if not ok:
                if not (isinstance(got, V) and got.name == "Option::Some" and isinstance(got.args[0], dict)):
                    ctx.violation("root-option/parse_root_options/%s" % word, ctx.where(ROOT_OPTIONS), "documented root option `%s` is not recognised by parse_root_options (result %r)" % (spelled, got))
                else:
                    diff = {k: (norm(got.args[0]).get(k), v) for k, v in want.items() if norm(got.args[0]).get(k) != v}
                    if diff:
                        k0 = sorted(diff)[0]
                        ctx.violation("root-option-effect/%s" % word, ctx.where(ROOT_OPTIONS), "root option `%s` sets %s to %s, expected %s" % (spelled, k0, diff[k0][0], diff[k0][1]))
                    else:
                        ctx.violation("root-option-effect/%s/cursor" % word, ctx.where(ROOT_OPTIONS), "after root option `%s` the parser stands %d lexems further, expected %d" % (spelled, idx, consumed))
    # two options in a row keep both effects; a non-option word ends the list and is handed back
    try:
        got, idx = run([raw("depth"), raw("2"), raw("sym"), raw("dfs"), raw("name")])
        n += 1
        ok = isinstance(got, V) and got.name == "Option::Some" and isinstance(got.args[0], dict) and \
            {k: v for k, v in norm(got.args[0]).items() if k in defaults} == dict(defaults, max_depth=2, symlinks=True, traversal="Dfs") and idx == 4
        ctx.obligation(ok)
        if not ok:
            ctx.violation("root-option-effect/sequence", ctx.where(ROOT_OPTIONS), "`depth 2 sym dfs name` yields %r at lexem %d; expected max_depth 2, symlinks, dfs at lexem 4" % (got, idx))
        got, idx = run([raw("name"), V("Lexem::Where")])
        n += 1
        ok = got == interp.NONE and idx == 0
        ctx.obligation(ok)
        if not ok:
            ctx.violation("root-option-effect/none", ctx.where(ROOT_OPTIONS), "a word that is no root option must leave the options unset and be handed back; got %r at lexem %d" % (got, idx))
        got, idx = run([V("Lexem::Operator", ["rx"]), V("Lexem::Where")])
        n += 1
        ok = isinstance(got, V) and got.name == "Option::Some" and norm(got.args[0]).get("regexp") is True
        ctx.obligation(ok)
        if not ok:
            ctx.violation("root-option-effect/rx-operator", ctx.where(ROOT_OPTIONS), "`rx` lexed as an operator word must still set the regexp root option")
    except interp.Undecided as e:
        ctx.violation("root-option/unreadable", ctx.where(ROOT_OPTIONS), "cannot evaluate parse_root_options: %s" % e)
    # is_root_option_keyword: the lexer's view of the same vocabulary
    kh = ctx.anchor_hir(IS_ROOT_KW)
    kp = ctx.prog.fns[IS_ROOT_KW]["params"]
    words = list(oracles.ROOT_OPTION_WORDS)
    for word in words + [w.upper() for w in words[:4]]:
        if word.lower() in ("gitignore", "git") and not has_git:
            continue
        n += 1
        try:
            got = interp.Interp(prog=ctx.prog).run(kh, {kp[0]["id"]: word})
        except interp.Undecided as e:
            ctx.violation("root-option/unreadable", ctx.where(IS_ROOT_KW), "cannot evaluate is_root_option_keyword on `%s`: %s" % (word, e))
            break
        ctx.obligation(got is True)
        if got is not True:
            ctx.violation("root-option/is_root_option_keyword/%s" % word.lower(), ctx.where(IS_ROOT_KW), "documented root option `%s` is not recognised by is_root_option_keyword" % word)
    for word in ("name", "where", "size", "from"):
        n += 1
        try:
            got = interp.Interp(prog=ctx.prog).run(kh, {kp[0]["id"]: word})
        except interp.Undecided as e:
            ctx.violation("root-option/unreadable", ctx.where(IS_ROOT_KW), "cannot evaluate is_root_option_keyword on `%s`: %s" % (word, e))
            break
        ctx.obligation(got is False)
        if got is not False:
            ctx.violation("root-option/is_root_option_keyword/claims-%s" % word, ctx.where(IS_ROOT_KW), "`%s` is taken for a root option word" % word)
    ctx.covered("root-option vocabulary: parse_root_options and is_root_option_keyword evaluated on every documented word (two letter cases, numeric arguments, sequences)",
                n, distinct_keys=list(effect) + list(numeric), exhaustive=True)


def lexer_table(ctx):
    hir = ctx.anchor_hir(NEXT_LEXEM)
    m = tables.string_match(hir, 8)
    if m is None:
        ctx.violation("anchor/lexer-keywords", NEXT_LEXEM, "keyword table of the lexer not found")
        raise Abort()
    t = {}
    for a in match_arms(m):
        r = peel_result(a["body"])
        if r["k"] == "Block" and "expr" in r:
            r = peel_result(r["expr"])
        if r["k"] == "Call" and r.get("ctor"):
            v = short(r["callee"], 1)
        elif r["k"] == "Path":
            v = short(r["res"], 1)
        else:
            v = render(r)
        for k in a["keys"]:
            t[key_name(k)] = (v, a["guard"])
    return t, m, hir


_PROG = [None]


def _context_guard(g):
    """`self.before_from || self.after_where`: the places where symbol operators are recognised too"""
    import interp
    ids = {y["res"] for y in walk_exprs(g) if y["k"] == "Path" and y.get("rk") == "Local"}
    try:
        for bf in (False, True):
            for aw in (False, True):
                selfv = {"before_from": bf, "after_where": aw, "after_open": False, "after_operator": False, "possible_search_root": False}
                if interp.Interp(prog=_PROG[0]).ev(g, {i: selfv for i in ids}) != (bf or aw):
                    return False
    except interp.Undecided:
        return False
    return True


def r3(ctx):
    _PROG[0] = ctx.prog
    t, m, hir = lexer_table(ctx)
    locs = Locals(hir)
    low = tables.is_lowercased(m["scrut"], locs)
    ctx.obligation(low)
    if not low:
        ctx.violation("lexer/case", ctx.where(NEXT_LEXEM, m), "the lexer's keyword table is matched without lower-casing")
    n = 0
    for variant, spellings in oracles.OP_SPELLINGS.items():
        for sp in spellings:
            if not sp.isalpha():
                continue
            n += 1
            got = t.get(sp)
            ok = got is not None and got[0] == "Operator" and (got[1] is None or _context_guard(got[1]))
            ctx.obligation(ok)
            if not ok:
                ctx.violation("lexer/operator-word/%s" % sp, ctx.where(NEXT_LEXEM, m),
                              "operator word `%s` (%s) is not lexed as an operator (lexer yields %s): the parser "
                              "rejects the query" % (sp, variant, got[0] if got else "a raw string"))
    for variant, spellings in oracles.ARITH_SPELLINGS.items():
        for sp in spellings:
            if not sp.isalpha():
                continue
            n += 1
            got = t.get(sp)
            ok = got is not None and got[0] == "ArithmeticOperator"
            ctx.obligation(ok)
            if not ok:
                ctx.violation("lexer/arithmetic-word/%s" % sp, ctx.where(NEXT_LEXEM, m),
                              "arithmetic word `%s` is not lexed as an arithmetic operator" % sp)
    kw = {"from": "From", "where": "Where", "or": "Or", "and": "And", "not": "Not", "order": "Order", "by": "By",
          "desc": "DescendingOrder", "limit": "Limit", "into": "Into"}
    for sp, lx in kw.items():
        n += 1
        got = t.get(sp)
        ok = got is not None and got[0] == lx
        ctx.obligation(ok)
        if not ok:
            ctx.violation("lexer/keyword/%s" % sp, ctx.where(NEXT_LEXEM, m), "keyword `%s` is lexed as %s, expected Lexem::%s" % (sp, got, lx))
    # asc is dropped
    got = t.get("asc")
    ok = got is not None and "next_lexem" in got[0]
    n += 1
    ctx.obligation(ok)
    if not ok:
        ctx.violation("lexer/asc", ctx.where(NEXT_LEXEM, m), "`asc` is not skipped by the lexer (it must change nothing)")
    # symbol operators are made of is_op_char characters
    ih = ctx.anchor_hir("lexer::Lexer::is_op_char")
    chars = set()
    for x in walk(ih):
        if x["k"] == "PLit" and x["lk"] == "char":
            chars.add(x["v"])
    for variant, spellings in oracles.OP_SPELLINGS.items():
        for sp in spellings:
            if sp.isalpha():
                continue
            n += 1
            ok = set(sp) <= chars
            ctx.obligation(ok)
            if not ok:
                ctx.violation("lexer/operator-symbol/%s" % sp, ctx.where("lexer::Lexer::is_op_char"),
                              "operator `%s` contains characters the lexer does not treat as operator characters (%s)" %
                              (sp, sorted(set(sp) - chars)))
    # no word the parser expects as a plain string in the roots section may be claimed by the keyword table
    for word in oracles.ROOT_OPTION_WORDS:
        got = t.get(word)
        n += 1
        if got is None or (got[1] is not None and _context_guard(got[1])):
            # not a keyword, or a keyword only where operators can occur (select list / after WHERE):
            # in the roots section the word stays a plain string
            ctx.obligation(True)
            continue
        # the lexer claims it: parse_root_options must have an arm for that lexem kind accepting the word
        rh = ctx.anchor_hir(ROOT_OPTIONS)
        ok = False
        for mm in find_matches(rh):
            for a in match_arms(mm):
                if any(("Lexem::" + got[0]) in render_pat(p) for p in pat_alts(a["pat"])) and a["guard"] is not None:
                    lits = [str(x["v"]) for x in walk_exprs(a["guard"]) if x["k"] == "Lit" and x["lk"] == "str"]
                    if word in lits:
                        ok = True
        ph = ctx.anchor_hir("parser::Parser::parse_roots")
        ok2 = any(("Lexem::" + got[0]) in render_pat(p) for mm in find_matches(ph) for a in match_arms(mm) for p in pat_alts(a["pat"]))
        ctx.obligation(ok and ok2)
        if not (ok and ok2):
            ctx.violation("lexer/root-option-claimed/%s" % word, ctx.where(NEXT_LEXEM, m),
                          "root option `%s` is lexed as Lexem::%s everywhere, but %s: the documented option is rejected "
                          "or silently ignored after a root path" %
                          (word, got[0], "parse_root_options has no arm for it" if not ok else "parse_roots never hands that lexem to parse_root_options"))
    ctx.covered("lexer keyword-table rows checked against operator / arithmetic / keyword / root-option words", n,
                distinct_keys=sorted(t), sample={k: v[0] for k, v in list(t.items())[:14]}, exhaustive=True)


PARSER_FNS = ["parse_fields", "parse_roots", "parse_root_options", "is_root_option_keyword", "parse_cond",
              "parse_group_by", "parse_order_by", "parse_limit", "parse_output_format", "parse_func_scalar",
              "parse_function", "parse_where", "parse_expr", "parse_and", "parse_add_sub", "parse_mul_div", "parse_paren"]


def r4(ctx):
    """case discipline: every comparison of a lexem payload with a literal containing letters is made on a
    lower-cased value"""
    n = 0
    bad = 0
    for fn in PARSER_FNS:
        name = "parser::Parser::" + fn
        if name not in ctx.prog.fns:
            continue
        tests, hir = _ladder(ctx, name)
        for kind, lit, node, low, other in tests:
            if not any(c.isalpha() for c in lit):
                continue
            n += 1
            ctx.obligation(low)
            if not low:
                bad += 1
                ctx.violation("case/%s/%s" % (fn, lit), ctx.where(name, node),
                              "`%s` is compared with \"%s\" without lower-casing: the keyword is case-sensitive here" %
                              (render(other), lit))
    ctx.covered("keyword comparisons in the parser (literal with letters vs lexem payload)", n,
                distinct_keys=["n:%d" % n])
    ctx.floor(n, 15, "keyword comparisons in parser.rs", "parser.rs")


def r5(ctx):
    """optional tokens and bracket styles"""
    pf = ctx.anchor_hir("parser::Parser::parse_fields")
    # comma arm is empty, `select` is skipped
    comma_ok = False
    for m in find_matches(pf):
        for a in match_arms(m):
            if any("Lexem::Comma" in render_pat(p) for p in pat_alts(a["pat"])):
                b = peel(a["body"], methods=False)
                comma_ok = b["k"] == "Block" and not b["stmts"] and "expr" not in b
    sel = [x for x in walk_exprs(pf) if x["k"] == "Lit" and x["lk"] == "str" and x["v"] == "select"]
    ctx.obligation(comma_ok and bool(sel))
    if not comma_ok:
        ctx.violation("optional/comma", ctx.where("parser::Parser::parse_fields"), "commas between columns are not skipped by an empty arm")
    if not sel:
        ctx.violation("optional/select", ctx.where("parser::Parser::parse_fields"), "a leading `select` is not recognised")
    pats = set()
    for x in walk(pf):
        if x["k"] in ("PPath", "PTS") and "Lexem::" in x.get("res", ""):
            pats.add(short(x["res"], 1))
    ok = {"Open", "CurlyOpen"} <= pats
    ctx.obligation(ok)
    if not ok:
        ctx.violation("optional/brackets/parse_fields", ctx.where("parser::Parser::parse_fields"), "parse_fields does not accept both bracket kinds (%s)" % sorted(pats))
    # parse_function evaluated (finite interpreter; the argument level parse_expr is a stand-in that takes one word): round and curly
    # brackets are interchangeable, the closing bracket is the one of the style the call was opened with, further arguments follow
    # commas, and a boolean function may stand without brackets
    import interp
    from extra import _expr_dict
    V = interp.V
    PFN = "parser::Parser::parse_function"
    fh = ctx.anchor_hir(PFN)
    fps = ctx.prog.fns[PFN]["params"]
    W = lambda t: V("Lexem::RawString", [t])
    O, C, CO, CC, CM = V("Lexem::Open"), V("Lexem::Close"), V("Lexem::CurlyOpen"), V("Lexem::CurlyClose"), V("Lexem::Comma")
    shapes = [("f(a)", "Concat", [O, W("a"), C], ("a", []), 3), ("f{a}", "Concat", [CO, W("a"), CC], ("a", []), 3),
              ("f(a, b, c)", "Concat", [O, W("a"), CM, W("b"), CM, W("c"), C], ("a", ["b", "c"]), 7), ("f{a, b}", "Concat", [CO, W("a"), CM, W("b"), CC], ("a", ["b"]), 5),
              ("f(a}", "Concat", [O, W("a"), CC], "err", None), ("f{a)", "Concat", [CO, W("a"), C], "err", None), ("f(a, )", "Concat", [O, W("a"), CM, C], "err", None),
              ("f(a b", "Concat", [O, W("a"), W("b")], "err", None), ("f x", "Concat", [W("x")], "err", None), ("boolean f x", "Contains", [W("x")], (None, []), 1),
              ("boolean f(a)", "Contains", [O, W("a"), C], ("a", []), 3)]
    badf = []
    for label, func, lex, want, want_index in shapes:
        selfv = interp.LazySelf({"lexems": list(lex), "index": 0, "roots_parsed": True, "where_parsed": True})

        def call(node, recv, args, it, env, selfv=selfv):
            m_ = node.get("m") or ""
            callee = str(node.get("callee", ""))
            if m_ == "parse_expr" or callee.endswith("Parser::parse_expr"):
                i = selfv["index"]
                if i < len(selfv["lexems"]) and selfv["lexems"][i].name == "Lexem::RawString":
                    selfv["index"] = i + 1
                    return (V("Result::Ok", [interp.some(_expr_dict(interp, val=interp.some(selfv["lexems"][i].args[0])))]),)
                selfv["index"] = min(i + 1, len(selfv["lexems"]))       # the lexem that is no expression has been read
                return (V("Result::Err", ["Error parsing expression, expecting string"]),)
            return None
        env = {}
        for p_ in fps:
            if p_.get("k") == "Bind":
                env[p_["id"]] = selfv if p_["name"] == "self" else V("Function::" + func)
        try:
            got = interp.Interp(call=call, prog=ctx.prog, max_steps=40000).run(fh, env)
        except interp.Undecided as e:
            badf.append("cannot evaluate parse_function on `%s`: %s" % (label, e))
            break
        if isinstance(got, V) and got.name == "Result::Err":
            g = "err"
        elif isinstance(got, V) and got.name == "Result::Ok" and isinstance(got.args[0], dict):
            ex = got.args[0]
            un = lambda x: x.args[0] if isinstance(x, V) and x.name == "Option::Some" else None
            lf, ar = un(ex.get("left")), un(ex.get("args"))
            g = (un(lf.get("val")) if isinstance(lf, dict) else None, [un(a_.get("val")) for a_ in ar] if isinstance(ar, list) else [])
        else:
            g = repr(got)
        if g != want or (want_index is not None and selfv["index"] != want_index):
            badf.append("`%s` gives %s (cursor %s), expected %s%s" % (label, g, selfv["index"], want, "" if want_index is None else " (cursor %d)" % want_index))
    ctx.obligation(not badf)
    if badf:
        ctx.violation("optional/brackets/parse_function", ctx.where(PFN),
                      "a function call takes its arguments in round or curly brackets, closed by the bracket of the same style, separated by commas; a boolean "
                      "function may stand alone: %s" % "; ".join(badf[:3]))
    ctx.covered("optional-token idioms (comma, select, asc, bracket kinds of the select list); parse_function evaluated on 11 call shapes", 3 + len(shapes),
                distinct_keys=["comma", "select", "brackets-fields"] + [s_[0] for s_ in shapes])


RULES = [
    ("C11-R1", "alias tables: columns, functions, operators, arithmetic words, formats", r1),
    ("C11-R2", "root option words and their effects", r2),
    ("C11-R3", "lexer keyword table agrees with the operator/keyword/root-option vocabularies", r3),
    ("C11-R4", "case discipline of keyword comparisons in the parser", r4),
    ("C11-R5", "optional tokens and bracket styles", r5),
    ("C03-R7", "`not like` / `not <op>`: infix NOT negates the operator [shared with C03]", lambda ctx: __import__("c03").r7(ctx)),
    ("C03-R1", "`notlike` vs `not like`, `!=` vs `not =`: the negation table pairs each operator with its documented negative [shared with C03]", lambda ctx: __import__("c03").r1(ctx)),
    ("X-LEXCLASS", "lexer operator / arithmetic character classes and context flags [shared]", lambda ctx: __import__("extra").lexer_classes(ctx)),
    ("X-ROOTS", "root option defaults, Root::new and the per-root reset of parse_roots [shared]", lambda ctx: __import__("extra").root_defaults(ctx)),
    ("X-LEXCHARS", "the lexer reads the query by characters, not bytes [shared]", lambda ctx: __import__("extra2").lexer_reads_characters(ctx)),
    ("C11-R6", "clause keywords (order, by, asc, desc, ..) are keywords in every position", lambda ctx: __import__("extra2").keyword_arm_guards(ctx)),
    ("C02-R4", "quoted literals are never resolved as column / function names [shared with C02]", lambda ctx: __import__("c02").r4(ctx)),
    ("X-LEXEMS", "every lexem but an empty quoted string reaches the grammar (a blank string is a value) [shared]", lambda ctx: __import__("extra2").lexems_are_kept(ctx)),
    ("C02-R3", "every documented operator spelling denotes its operator (Op::from evaluated on all spellings x letter cases) [shared with C02]", lambda ctx: __import__("c02").r3(ctx)),
    ("X-NAMES", "column names and function names do not overlap (a bare word is tried as a column first) [shared]", lambda ctx: __import__("extra2").names_disjoint(ctx)),
    ("X-BRACKETS", "wherever the parser tests for a closing bracket of one style it provides for the other style as well [shared]", lambda ctx: __import__("extra2").bracket_styles_agree(ctx)),
    ("C11-R7", "one-argument and split renderings of a query are lexed alike (blanks inside quoted literals included)", lambda ctx: __import__("extra2").lexer_split_invariance(ctx)),
    ("C11-R8", "every documented operator spelling is lexed as one operator lexem (by interpretation of the lexer)", lambda ctx: __import__("extra2").operator_spellings_lex_whole(ctx)),
]

EXPLANATION = (
    "Static structural necessary conditions of C11: every documented spelling (docs/usage.md, frozen in "
    "rules/oracles.py) of a column, function, operator, arithmetic word, output format and root option is a key of "
    "the corresponding code table and maps to the documented variant, on a lower-cased input; the lexer's keyword "
    "table yields Lexem::Operator / ArithmeticOperator for exactly the word operators the parser's tables know, "
    "symbol operators consist of is_op_char characters, and no root-option word is claimed by the lexer as another "
    "lexem kind unless the roots parser handles that kind; every keyword comparison in parser.rs is made on a "
    "lower-cased value; commas, `select`, `asc`, both bracket kinds and `()` are optional by construction. "
    "Invariance under whitespace split points depends on the lexer's context flags on arbitrary strings and is not decided."
    " The lexer's operator/arithmetic character classes and the possible_search_root flag are evaluated on every valuation of the context flags.")
ASSUMPTIONS = ["rustc's HIR faithfully represents the source; exporter and rule scripts are correct",
               "docs/usage.md tables as frozen in rules/oracles.py are the documentation of record"]
NOT_DECIDED = ["invariance under every whitespace split of the argument vector (lexer context flags on arbitrary text)",
               "identity of returned rows (only the parsed vocabulary is decided)"]
