"""C11 — documented alternative spellings of a query denote the same query (static necessary conditions)."""
from hirq import *  # noqa: F401,F403
import oracles
import tables
from core import Abort

NEXT_LEXEM = "lexer::Lexer::next_lexem"
ROOT_OPTIONS = "parser::Parser::parse_root_options"
IS_ROOT_KW = "parser::Parser::is_root_option_keyword"
FIELD_FROM_STR = "<field::Field as core::str::traits::FromStr>::from_str"
FUNC_FROM_STR = "<function::Function as core::str::traits::FromStr>::from_str"


def r1(ctx):
    fs = dict(oracles.FIELD_SPELLINGS)
    if "User" in (ctx.prog.adt_variants("field::Field") or []):
        fs.update(oracles.FIELD_SPELLINGS_USERS)
    tables.string_table(ctx, FIELD_FROM_STR, fs, "column")
    fn = dict(oracles.FUNCTION_SPELLINGS)
    if "CurrentUid" in (ctx.prog.adt_variants("function::Function") or []):
        fn.update(oracles.FUNCTION_SPELLINGS_USERS)
    tables.string_table(ctx, FUNC_FROM_STR, fn, "function")
    tables.string_table(ctx, "operators::Op::from", oracles.OP_SPELLINGS, "operator")
    tables.string_table(ctx, "operators::ArithmeticOp::from", oracles.ARITH_SPELLINGS, "arithmetic")
    tables.string_table(ctx, "query::OutputFormat::from", {v: [k] for k, v in oracles.OUTPUT_FORMATS.items()}, "format")


def _ladder(ctx, fn):
    """string tests of an if/else-if ladder over a lower-cased string: [(kind, literal, node)]"""
    hir = ctx.anchor_hir(fn)
    locs = Locals(hir)
    out = []
    for x in walk_exprs(hir):
        lit = None
        other = None
        kind = None
        if x["k"] == "Bin" and x["op"] in ("==", "!="):
            for a, b in ((x["l"], x["r"]), (x["r"], x["l"])):
                pa = peel(a)
                if pa["k"] == "Lit" and pa["lk"] == "str":
                    lit, other, kind = pa["v"], b, "eq"
        elif x["k"] == "MCall" and x["m"] in ("starts_with", "eq", "ne", "ends_with") and x["args"]:
            pa = peel(x["args"][0])
            if pa["k"] == "Lit" and pa["lk"] == "str":
                lit, other, kind = pa["v"], x["recv"], ("prefix" if x["m"] == "starts_with" else "eq")
        if lit is not None:
            out.append((kind, lit, x, tables.is_lowercased(other, locs), other))
    return out, hir


def accepts(tests, word):
    for kind, lit, *_ in tests:
        if (kind == "eq" and word == lit) or (kind == "prefix" and word.startswith(lit)):
            return True
    return False


def r2(ctx):
    """root option words: parse_root_options and is_root_option_keyword accept every documented spelling"""
    for fn in (ROOT_OPTIONS, IS_ROOT_KW):
        tests, hir = _ladder(ctx, fn)
        ctx.floor(len(tests), 14, "string tests in %s" % short(fn, 1), fn)
        n = 0
        for word in oracles.ROOT_OPTION_WORDS:
            n += 1
            ok = accepts(tests, word)
            ctx.obligation(ok)
            if not ok:
                ctx.violation("root-option/%s/%s" % (short(fn, 1), word), ctx.where(fn),
                              "documented root option `%s` is not recognised by %s" % (word, short(fn, 1)))
        ctx.covered("documented root-option words accepted by %s" % short(fn, 1), n,
                    distinct_keys=["%s/%s" % (short(fn, 1), w) for w in oracles.ROOT_OPTION_WORDS],
                    sample={short(fn, 1): [(k, l) for k, l, *_ in tests]})
    # option word -> RootOptions field (assignment in the branch taken for that word)
    hir = ctx.anchor_hir(ROOT_OPTIONS)
    effects = {}
    for x in walk_exprs(hir):
        if x["k"] == "If":
            for d in disjuncts(x["c"]):
                d = peel(d, methods=False)
                lit = None
                if d["k"] == "Bin" and d["op"] == "==" and peel(d["r"])["k"] == "Lit":
                    lit = ("eq", peel(d["r"])["v"])
                elif d["k"] == "MCall" and d["m"] == "starts_with" and peel(d["args"][0])["k"] == "Lit":
                    lit = ("prefix", peel(d["args"][0])["v"])
                if lit is None:
                    continue
                asg = {}
                for y in walk_exprs(x["t"]):
                    if y["k"] == "Assign":
                        l = peel(y["l"], methods=False)
                        if l["k"] == "Path" and l.get("rk") == "Local":
                            asg[l["name"]] = render(peel_result(y["r"]))
                effects[lit] = asg
    want = {
        ("eq", "mindepth"): ("mode", "MinDepth"), ("eq", "maxdepth"): ("mode", "Depth"), ("eq", "depth"): ("mode", "Depth"),
        ("prefix", "arc"): ("archives", "true"), ("prefix", "sym"): ("symlinks", "true"),
        ("prefix", "hg"): ("hgignore", "true"), ("prefix", "dock"): ("dockerignore", "true"),
        ("prefix", "nogit"): ("gitignore", "false"), ("prefix", "nohg"): ("hgignore", "false"),
        ("prefix", "nodock"): ("dockerignore", "false"), ("eq", "bfs"): ("traversal", "Bfs"),
        ("eq", "dfs"): ("traversal", "Dfs"), ("prefix", "regex"): ("regexp", "true"),
    }
    if ctx.config in ("default", "git"):
        want[("prefix", "git")] = ("gitignore", "true")
    n = 0
    for lit, (var, val) in want.items():
        n += 1
        got = effects.get(lit, {}).get(var)
        ok = got is not None and got.split("::")[-1] == val
        ctx.obligation(ok)
        if not ok:
            ctx.violation("root-option-effect/%s" % lit[1], ctx.where(ROOT_OPTIONS),
                          "root option `%s` sets %s to %s, expected %s" % (lit[1], var, got, val))
    ctx.covered("option word -> option field effects in parse_root_options", n, distinct_keys=[l[1] for l in want],
                sample={"%s:%s" % k: v for k, v in list(effects.items())[:6]})
    # the numeric argument lands in the matching field
    sets = {}
    for m in find_matches(hir):
        for a in match_arms(m):
            for k in a["keys"]:
                kn = key_name(k).split("::")[-1]
                if kn in ("MinDepth", "Depth"):
                    for y in walk_exprs(a["body"]):
                        if y["k"] == "Assign" and peel(y["l"], methods=False).get("name") in ("min_depth", "max_depth"):
                            sets[kn] = peel(y["l"], methods=False)["name"]
    ok = sets == {"MinDepth": "min_depth", "Depth": "max_depth"}
    ctx.obligation(ok)
    ctx.covered("depth argument destinations", 2, distinct_keys=sorted(sets))
    if not ok:
        ctx.violation("root-option-effect/depth-argument", ctx.where(ROOT_OPTIONS),
                      "the number after mindepth/maxdepth is stored as %s" % sets)
    # struct literal pairs each field with the local of the same name
    for x in walk_exprs(hir):
        if x["k"] == "Struct" and short(x.get("res"), 1) == "RootOptions":
            for f in x["fields"]:
                e = peel(f["e"], methods=False)
                ok = e["k"] == "Path" and e.get("name") == f["name"]
                ctx.obligation(ok)
                if not ok:
                    ctx.violation("root-option-effect/field/%s" % f["name"], ctx.where(ROOT_OPTIONS, x),
                                  "RootOptions.%s is initialised from `%s`" % (f["name"], render(e)))
            ctx.covered("RootOptions literal fields", len(x["fields"]), distinct_keys=[f["name"] for f in x["fields"]])


def lexer_table(ctx):
    hir = ctx.anchor_hir(NEXT_LEXEM)
    m = tables.string_match(hir, 8)
    if m is None:
        ctx.violation("anchor/lexer-keywords", NEXT_LEXEM, "keyword table of the lexer not found")
        raise Abort()
    t = {}
    for a in match_arms(m):
        r = peel_result(a["body"])
        if r["k"] == "Block" and "expr" in r:
            r = peel_result(r["expr"])
        if r["k"] == "Call" and r.get("ctor"):
            v = short(r["callee"], 1)
        elif r["k"] == "Path":
            v = short(r["res"], 1)
        else:
            v = render(r)
        for k in a["keys"]:
            t[key_name(k)] = (v, a["guard"])
    return t, m, hir


def _context_guard(g):
    """`self.before_from || self.after_where`: the places where symbol operators are recognised too"""
    ds = [render(peel(d, methods=False)) for d in disjuncts(g)]
    return sorted(ds) == ["self.after_where", "self.before_from"]


def r3(ctx):
    t, m, hir = lexer_table(ctx)
    locs = Locals(hir)
    low = tables.is_lowercased(m["scrut"], locs)
    ctx.obligation(low)
    if not low:
        ctx.violation("lexer/case", ctx.where(NEXT_LEXEM, m), "the lexer's keyword table is matched without lower-casing")
    n = 0
    for variant, spellings in oracles.OP_SPELLINGS.items():
        for sp in spellings:
            if not sp.isalpha():
                continue
            n += 1
            got = t.get(sp)
            ok = got is not None and got[0] == "Operator" and (got[1] is None or _context_guard(got[1]))
            ctx.obligation(ok)
            if not ok:
                ctx.violation("lexer/operator-word/%s" % sp, ctx.where(NEXT_LEXEM, m),
                              "operator word `%s` (%s) is not lexed as an operator (lexer yields %s): the parser "
                              "rejects the query" % (sp, variant, got[0] if got else "a raw string"))
    for variant, spellings in oracles.ARITH_SPELLINGS.items():
        for sp in spellings:
            if not sp.isalpha():
                continue
            n += 1
            got = t.get(sp)
            ok = got is not None and got[0] == "ArithmeticOperator"
            ctx.obligation(ok)
            if not ok:
                ctx.violation("lexer/arithmetic-word/%s" % sp, ctx.where(NEXT_LEXEM, m),
                              "arithmetic word `%s` is not lexed as an arithmetic operator" % sp)
    kw = {"from": "From", "where": "Where", "or": "Or", "and": "And", "not": "Not", "order": "Order", "by": "By",
          "desc": "DescendingOrder", "limit": "Limit", "into": "Into"}
    for sp, lx in kw.items():
        n += 1
        got = t.get(sp)
        ok = got is not None and got[0] == lx
        ctx.obligation(ok)
        if not ok:
            ctx.violation("lexer/keyword/%s" % sp, ctx.where(NEXT_LEXEM, m), "keyword `%s` is lexed as %s, expected Lexem::%s" % (sp, got, lx))
    # asc is dropped
    got = t.get("asc")
    ok = got is not None and "next_lexem" in got[0]
    n += 1
    ctx.obligation(ok)
    if not ok:
        ctx.violation("lexer/asc", ctx.where(NEXT_LEXEM, m), "`asc` is not skipped by the lexer (it must change nothing)")
    # symbol operators are made of is_op_char characters
    ih = ctx.anchor_hir("lexer::Lexer::is_op_char")
    chars = set()
    for x in walk(ih):
        if x["k"] == "PLit" and x["lk"] == "char":
            chars.add(x["v"])
    for variant, spellings in oracles.OP_SPELLINGS.items():
        for sp in spellings:
            if sp.isalpha():
                continue
            n += 1
            ok = set(sp) <= chars
            ctx.obligation(ok)
            if not ok:
                ctx.violation("lexer/operator-symbol/%s" % sp, ctx.where("lexer::Lexer::is_op_char"),
                              "operator `%s` contains characters the lexer does not treat as operator characters (%s)" %
                              (sp, sorted(set(sp) - chars)))
    # no word the parser expects as a plain string in the roots section may be claimed by the keyword table
    for word in oracles.ROOT_OPTION_WORDS:
        got = t.get(word)
        n += 1
        if got is None or (got[1] is not None and _context_guard(got[1])):
            # not a keyword, or a keyword only where operators can occur (select list / after WHERE):
            # in the roots section the word stays a plain string
            ctx.obligation(True)
            continue
        # the lexer claims it: parse_root_options must have an arm for that lexem kind accepting the word
        rh = ctx.anchor_hir(ROOT_OPTIONS)
        ok = False
        for mm in find_matches(rh):
            for a in match_arms(mm):
                if any(("Lexem::" + got[0]) in render_pat(p) for p in pat_alts(a["pat"])) and a["guard"] is not None:
                    lits = [str(x["v"]) for x in walk_exprs(a["guard"]) if x["k"] == "Lit" and x["lk"] == "str"]
                    if word in lits:
                        ok = True
        ph = ctx.anchor_hir("parser::Parser::parse_roots")
        ok2 = any(("Lexem::" + got[0]) in render_pat(p) for mm in find_matches(ph) for a in match_arms(mm) for p in pat_alts(a["pat"]))
        ctx.obligation(ok and ok2)
        if not (ok and ok2):
            ctx.violation("lexer/root-option-claimed/%s" % word, ctx.where(NEXT_LEXEM, m),
                          "root option `%s` is lexed as Lexem::%s everywhere, but %s: the documented option is rejected "
                          "or silently ignored after a root path" %
                          (word, got[0], "parse_root_options has no arm for it" if not ok else "parse_roots never hands that lexem to parse_root_options"))
    ctx.covered("lexer keyword-table rows checked against operator / arithmetic / keyword / root-option words", n,
                distinct_keys=sorted(t), sample={k: v[0] for k, v in list(t.items())[:14]}, exhaustive=True)


PARSER_FNS = ["parse_fields", "parse_roots", "parse_root_options", "is_root_option_keyword", "parse_cond",
              "parse_group_by", "parse_order_by", "parse_limit", "parse_output_format", "parse_func_scalar",
              "parse_function", "parse_where", "parse_expr", "parse_and", "parse_add_sub", "parse_mul_div", "parse_paren"]


def r4(ctx):
    """case discipline: every comparison of a lexem payload with a literal containing letters is made on a
    lower-cased value"""
    n = 0
    bad = 0
    for fn in PARSER_FNS:
        name = "parser::Parser::" + fn
        if name not in ctx.prog.fns:
            continue
        tests, hir = _ladder(ctx, name)
        for kind, lit, node, low, other in tests:
            if not any(c.isalpha() for c in lit):
                continue
            n += 1
            ctx.obligation(low)
            if not low:
                bad += 1
                ctx.violation("case/%s/%s" % (fn, lit), ctx.where(name, node),
                              "`%s` is compared with \"%s\" without lower-casing: the keyword is case-sensitive here" %
                              (render(other), lit))
    ctx.covered("keyword comparisons in the parser (literal with letters vs lexem payload)", n,
                distinct_keys=["n:%d" % n])
    ctx.floor(n, 30, "keyword comparisons in parser.rs", "parser.rs")


def r5(ctx):
    """optional tokens and bracket styles"""
    pf = ctx.anchor_hir("parser::Parser::parse_fields")
    # comma arm is empty, `select` is skipped
    comma_ok = False
    for m in find_matches(pf):
        for a in match_arms(m):
            if any("Lexem::Comma" in render_pat(p) for p in pat_alts(a["pat"])):
                b = peel(a["body"], methods=False)
                comma_ok = b["k"] == "Block" and not b["stmts"] and "expr" not in b
    sel = [x for x in walk_exprs(pf) if x["k"] == "Lit" and x["lk"] == "str" and x["v"] == "select"]
    ctx.obligation(comma_ok and bool(sel))
    if not comma_ok:
        ctx.violation("optional/comma", ctx.where("parser::Parser::parse_fields"), "commas between columns are not skipped by an empty arm")
    if not sel:
        ctx.violation("optional/select", ctx.where("parser::Parser::parse_fields"), "a leading `select` is not recognised")
    pats = set()
    for x in walk(pf):
        if x["k"] in ("PPath", "PTS") and "Lexem::" in x.get("res", ""):
            pats.add(short(x["res"], 1))
    ok = {"Open", "CurlyOpen"} <= pats
    ctx.obligation(ok)
    if not ok:
        ctx.violation("optional/brackets/parse_fields", ctx.where("parser::Parser::parse_fields"), "parse_fields does not accept both bracket kinds (%s)" % sorted(pats))
    # parse_function: both opening kinds, matching closing kind
    fh = ctx.anchor_hir("parser::Parser::parse_function")
    r = render(fh)
    ctors = set()
    for x in walk_exprs(fh):
        if x["k"] == "Path" and "Lexem::" in x.get("res", ""):
            ctors.add(short(x["res"], 1))
    ok = {"Open", "CurlyOpen", "Close", "CurlyClose"} <= ctors
    ctx.obligation(ok)
    if not ok:
        ctx.violation("optional/brackets/parse_function", ctx.where("parser::Parser::parse_function"),
                      "parse_function does not handle both bracket kinds (%s)" % sorted(ctors))
    pair_ok = False
    for x in walk_exprs(fh):
        if x["k"] == "Bin" and x["op"] == "||":
            rr = render(x)
            if "Lexem::Close) && !curly_mode" in rr.replace("(lexem == ", "").replace("(", "") or \
               ("Close" in rr and "CurlyClose" in rr and "!" in rr):
                pair_ok = True
    ctx.obligation(pair_ok)
    if not pair_ok:
        ctx.violation("optional/brackets/parse_function-pairing", ctx.where("parser::Parser::parse_function"),
                      "the closing bracket of a function call is not tied to the kind of its opening bracket")
    # a boolean function may omit ()
    ok = any(x["k"] == "If" and "is_boolean_function" in render(x["c"]) for x in walk_exprs(fh))
    ctx.obligation(ok)
    if not ok:
        ctx.violation("optional/no-parens", ctx.where("parser::Parser::parse_function"), "argument-less boolean functions must be accepted without ()")
    ctx.covered("optional-token idioms (comma, select, asc, bracket kinds, () after functions)", 6,
                distinct_keys=["comma", "select", "brackets-fields", "brackets-fn", "pairing", "noparens"])


RULES = [
    ("C11-R1", "alias tables: columns, functions, operators, arithmetic words, formats", r1),
    ("C11-R2", "root option words and their effects", r2),
    ("C11-R3", "lexer keyword table agrees with the operator/keyword/root-option vocabularies", r3),
    ("C11-R4", "case discipline of keyword comparisons in the parser", r4),
    ("C11-R5", "optional tokens and bracket styles", r5),
    ("C03-R7", "`not like` / `not <op>`: infix NOT negates the operator [shared with C03]", lambda ctx: __import__("c03").r7(ctx)),
    ("C03-R1", "`notlike` vs `not like`, `!=` vs `not =`: the negation table pairs each operator with its documented negative [shared with C03]", lambda ctx: __import__("c03").r1(ctx)),
    ("X-LEXCLASS", "lexer operator / arithmetic character classes and context flags [shared]", lambda ctx: __import__("extra").lexer_classes(ctx)),
    ("X-ROOTS", "root option defaults, Root::new and the per-root reset of parse_roots [shared]", lambda ctx: __import__("extra").root_defaults(ctx)),
    ("X-LEXCHARS", "the lexer reads the query by characters, not bytes [shared]", lambda ctx: __import__("extra2").lexer_reads_characters(ctx)),
    ("C11-R6", "clause keywords (order, by, asc, desc, ..) are keywords in every position", lambda ctx: __import__("extra2").keyword_arm_guards(ctx)),
]

EXPLANATION = (
    "Static structural necessary conditions of C11: every documented spelling (docs/usage.md, frozen in "
    "rules/oracles.py) of a column, function, operator, arithmetic word, output format and root option is a key of "
    "the corresponding code table and maps to the documented variant, on a lower-cased input; the lexer's keyword "
    "table yields Lexem::Operator / ArithmeticOperator for exactly the word operators the parser's tables know, "
    "symbol operators consist of is_op_char characters, and no root-option word is claimed by the lexer as another "
    "lexem kind unless the roots parser handles that kind; every keyword comparison in parser.rs is made on a "
    "lower-cased value; commas, `select`, `asc`, both bracket kinds and `()` are optional by construction. "
    "Invariance under whitespace split points depends on the lexer's context flags on arbitrary strings and is not decided."
    " The lexer's operator/arithmetic character classes and the possible_search_root flag are evaluated on every valuation of the context flags.")
ASSUMPTIONS = ["rustc's HIR faithfully represents the source; exporter and rule scripts are correct",
               "docs/usage.md tables as frozen in rules/oracles.py are the documentation of record"]
NOT_DECIDED = ["invariance under every whitespace split of the argument vector (lexer context flags on arbitrary text)",
               "identity of returned rows (only the parsed vocabulary is decided)"]
