#!/usr/bin/env python3
"""Entry point: ./check <ID> [--tier quick|thorough] [--replay <report>]"""
import argparse
import importlib
import json
import os
import sys
import time

sys.path.insert(0, os.path.dirname(os.path.abspath(__file__)))

import core  # noqa: E402
import facts  # noqa: E402
import mirq  # noqa: E402


def main():
    ap = argparse.ArgumentParser()
    ap.add_argument("pid")
    ap.add_argument("--tier", default=os.environ.get("VERIF_TIER", "quick"), choices=["quick", "thorough"])
    ap.add_argument("--replay", default=None)
    a = ap.parse_args()
    pid = a.pid.upper()
    t0 = time.time()
    seed = int(os.environ.get("VERIF_SEED", "0") or 0)
    try:
        mod = importlib.import_module(pid.lower())
    except ImportError:
        print("no check for %s" % pid)
        return 2

    configs = ["default"]
    if a.tier == "thorough":
        configs = ["default", "nodefault", "git", "users"]
    ctxs = []
    meta = {}
    for cfg in configs:
        try:
            f, h = facts.load(cfg)
        except Exception as e:
            rep_dir = os.path.join(core.VERIF, "reports", pid)
            os.makedirs(rep_dir, exist_ok=True)
            path = os.path.join(rep_dir, "extraction-failed.json")
            with open(path, "w") as fh:
                json.dump({"property": pid, "key": "extraction-failed/" + cfg, "message": str(e)}, fh, indent=1)
            print(str(e)[-3000:])
            print("the current tree cannot be analysed (configuration %s): failing closed" % cfg)
            print("VIOLATION property=%s replay=%s" % (pid, path))
            return 1
        if not meta:
            meta = dict(f["meta"])
        prog = mirq.Program(f)
        ctx = core.Ctx(pid, a.tier, prog, cfg)
        core.run_rules(ctx, mod.RULES)
        ctxs.append(ctx)

    # positive controls: every rule shape must fire on its deliberately wrong fixture
    if hasattr(mod, "controls"):
        ctx = ctxs[0]
        ctx.begin(pid + "-PC", "positive controls: each rule fires on a deliberately wrong fixture")
        try:
            mod.controls(ctx)
        except core.Abort:
            pass

    if a.replay:
        with open(a.replay) as fh:
            rep = json.load(fh)
        key = rep.get("key")
        fired = any(f["key"] == key for c in ctxs for f in c.findings)
        print("replay %s: finding %s %s on the current tree" % (a.replay, key, "STILL FIRES" if fired else "does not fire"))
        if fired:
            print("VIOLATION property=%s replay=%s" % (pid, a.replay))
            return 1
        return 0

    return core.finish(pid, a.tier, ctxs, t0, meta, mod.EXPLANATION, mod.ASSUMPTIONS, mod.NOT_DECIDED, seed)


if __name__ == "__main__":
    sys.exit(main())
