"""Queries over the exported HIR expression trees (type-checked, paths resolved)."""

PAT_KINDS = {"Wild", "Bind", "PLit", "PPath", "PTS", "PStruct", "Or", "PTup", "PRef", "PRange", "PGuard", "PSlice", "POther"}


def is_node(x):
    return isinstance(x, dict) and "k" in x


def children(n):
    """(key, child) pairs of a node, in a stable order; lists are flattened with key 'name[i]'."""
    for key, v in n.items():
        if is_node(v):
            yield key, v
        elif isinstance(v, list):
            for i, x in enumerate(v):
                if is_node(x):
                    yield "%s[%d]" % (key, i), x
                elif isinstance(x, dict):
                    # match arms / struct fields: plain dicts holding nodes
                    for k2, v2 in x.items():
                        if is_node(v2):
                            yield "%s[%d].%s" % (key, i, k2), v2


def walk(n):
    """Pre-order over every node (expressions and patterns)."""
    stack = [n]
    while stack:
        x = stack.pop()
        yield x
        cs = [c for _, c in children(x)]
        stack.extend(reversed(cs))


def walk_exprs(n):
    for x in walk(n):
        if x["k"] not in PAT_KINDS:
            yield x


def short(path, n=2):
    """last n segments of a def path"""
    if path is None:
        return None
    segs = path.split("::")
    return "::".join(segs[-n:])


def callee_of(n):
    if n["k"] in ("MCall", "Call", "Bin", "Index"):
        return n.get("callee")
    return None


def is_call_to(n, *suffixes):
    c = callee_of(n)
    if not c or n["k"] not in ("MCall", "Call"):
        return False
    return any(c == s or c.endswith("::" + s) or c.endswith(s) for s in suffixes)


def find_all(root, pred):
    return [x for x in walk(root) if pred(x)]


def calls_to(root, *suffixes):
    return [x for x in walk_exprs(root) if is_call_to(x, *suffixes)]


def call_args(n):
    """all value arguments including the receiver"""
    if n["k"] == "MCall":
        return [n["recv"]] + n["args"]
    return n["args"]


# ------------------------------------------------------------------------------------------
# rendering

def render(n, depth=0):
    if n is None:
        return ""
    if depth > 12:
        return "…"
    k = n["k"]
    r = lambda x: render(x, depth + 1)
    if k == "Lit":
        v = n["v"]
        if n["lk"] in ("str", "bytestr"):
            return '"%s"' % v
        if n["lk"] == "char":
            return "'%s'" % v
        if n["lk"] == "bool":
            return "true" if v else "false"
        return str(v)
    if k == "Path":
        if n.get("rk") == "Local":
            return n["name"]
        return short(n["res"])
    if k == "Bin":
        return "(%s %s %s)" % (r(n["l"]), n["op"], r(n["r"]))
    if k == "Un":
        return "%s%s" % (n["op"], r(n["e"]))
    if k == "MCall":
        return "%s.%s(%s)" % (r(n["recv"]), n["m"], ", ".join(r(a) for a in n["args"]))
    if k == "Call":
        return "%s(%s)" % (r(n["f"]), ", ".join(r(a) for a in n["args"]))
    if k == "Field":
        return "%s.%s" % (r(n["e"]), n["name"])
    if k == "Index":
        return "%s[%s]" % (r(n["e"]), r(n["i"]))
    if k == "Ref":
        return "&%s" % r(n["e"])
    if k == "Cast":
        return "(%s as %s)" % (r(n["e"]), n.get("ty", "?"))
    if k == "If":
        s = "if %s { %s }" % (r(n["c"]), r(n["t"]))
        if "e" in n:
            s += " else { %s }" % r(n["e"])
        return s
    if k == "LetE":
        return "let %s = %s" % (render_pat(n["pat"]), r(n["init"]))
    if k == "Match":
        return "match %s {…}" % r(n["scrut"])
    if k == "Block":
        parts = [r(s) for s in n["stmts"]]
        if "expr" in n:
            parts.append(r(n["expr"]))
        return "{ %s }" % "; ".join(parts)
    if k == "Let":
        return "let %s = %s" % (render_pat(n["pat"]), r(n.get("init")))
    if k == "Assign":
        return "%s = %s" % (r(n["l"]), r(n["r"]))
    if k == "AssignOp":
        return "%s %s %s" % (r(n["l"]), n["op"], r(n["r"]))
    if k == "Ret":
        return "return %s" % r(n.get("e"))
    if k == "InlRet":
        return "return' %s" % r(n.get("e"))
    if k == "Break":
        return "break"
    if k == "Continue":
        return "continue"
    if k == "Loop":
        return "loop {…}"
    if k == "Closure":
        return "|…| %s" % r(n["body"])
    if k == "Struct":
        return "%s {…}" % short(n.get("res"))
    if k == "Tup":
        return "(%s)" % ", ".join(r(a) for a in n["es"])
    if k == "Array":
        return "[%s]" % ", ".join(r(a) for a in n["es"])
    if k in PAT_KINDS:
        return render_pat(n)
    return k


def render_pat(p):
    k = p["k"]
    if k == "Wild":
        return "_"
    if k == "Bind":
        if "sub" in p:
            return "%s @ %s" % (p["name"], render_pat(p["sub"]))
        return p["name"]
    if k == "PLit":
        v = p["v"]
        if p["lk"] in ("str",):
            return '"%s"' % v
        if p["lk"] == "char":
            return "'%s'" % v
        if p["lk"] == "bool":
            return "true" if v else "false"
        return ("-" if p.get("neg") else "") + str(v)
    if k == "PPath":
        return short(p["res"])
    if k == "PTS":
        return "%s(%s)" % (short(p["res"]), ", ".join(render_pat(s) for s in p["subs"]))
    if k == "PStruct":
        return "%s {..}" % short(p["res"])
    if k == "Or":
        return " | ".join(render_pat(a) for a in p["alts"])
    if k == "PTup":
        return "(%s)" % ", ".join(render_pat(s) for s in p["subs"])
    if k == "PSlice":
        return "[%s]" % ", ".join([render_pat(s) for s in p.get("before", [])] + ([".."] if "rest" in p else []) + [render_pat(s) for s in p.get("after", [])])
    if k == "PRef":
        return "&" + render_pat(p["sub"])
    if k == "PRange":
        return "%s..%s" % (render_pat(p["lo"]) if "lo" in p else "", render_pat(p["hi"]) if "hi" in p else "")
    if k == "PGuard":
        return render_pat(p["sub"]) + " if …"
    return "?"


# ------------------------------------------------------------------------------------------
# peeling and local definitions

TRANSPARENT_METHODS = {"clone", "to_owned", "to_string", "as_str", "as_ref", "borrow", "deref", "into", "as_mut",
                       "to_path_buf", "as_path", "as_deref"}


def peel(n, methods=True):
    """strip blocks-with-only-a-tail, references, derefs, casts-free wrappers and value-preserving adapters"""
    while True:
        k = n["k"]
        if k == "Block" and not n["stmts"] and "expr" in n:
            n = n["expr"]
        elif k == "Ref":
            n = n["e"]
        elif k == "Un" and n["op"] == "*":
            n = n["e"]
        elif methods and k == "MCall" and n["m"] in TRANSPARENT_METHODS and not n["args"]:
            n = n["recv"]
        elif methods and k == "Call" and n.get("callee") and n["callee"].endswith("From<&str>>::from"):
            n = n["args"][0]
        else:
            return n


def peel_result(n):
    """value of an arm body: strip `return`, `Some(..)`, `Ok(..)`, blocks"""
    while True:
        n = peel(n, methods=False)
        k = n["k"]
        if k == "Ret" and "e" in n:
            n = n["e"]
        elif k == "Call" and n.get("ctor") and short(n["callee"], 1) in ("Some", "Ok") and len(n["args"]) == 1:
            n = n["args"][0]
        elif k == "Block" and n["stmts"] and "expr" not in n and len(n["stmts"]) == 1 and n["stmts"][0]["k"] == "Ret":
            n = n["stmts"][0]
        else:
            return n


class Locals:
    """single-assignment local definitions of one function body (let x = init), for definition chasing"""

    def __init__(self, root):
        self.defs = {}
        self.multi = set()
        self.types = {}
        self.payload_defs = {}      # x of `if let Some(x) = e` / `Ok(x)` / `match e { Some(x) => ..}` -> e (provenance only)
        for x in walk(root):
            if x["k"] == "Path" and x.get("rk") == "Local" and "ty" in x:
                self.types.setdefault(x["res"], x["ty"])
            def payload_binder(p):
                """the single binding at the bottom of a chain of one-field variant patterns: Some(x), Ok(x), Some(Ok(x))"""
                depth = 0
                while True:
                    while p["k"] == "PRef":
                        p = p["sub"]
                    if p["k"] == "PTS" and len(p.get("subs", [])) == 1:
                        p = p["subs"][0]
                        depth += 1
                        continue
                    if p["k"] == "PStruct" and len(p.get("fields", [])) == 1:
                        p = p["fields"][0]["pat"]
                        depth += 1
                        continue
                    break
                return p if depth and p["k"] == "Bind" and "sub" not in p else None
            if x["k"] == "LetE":
                b = payload_binder(x["pat"])
                if b is not None:
                    self.payload_defs[b["id"]] = x["init"]
            if x["k"] == "Let" and x.get("els") is not None and x.get("init") is not None:
                # `let Some(x) = e else { .. };` binds the payload of e like `if let`
                b = payload_binder(x["pat"])
                if b is not None:
                    self.payload_defs[b["id"]] = x["init"]
            if x["k"] == "Match":
                for a in x["arms"]:
                    b = payload_binder(a["pat"])
                    if b is not None:
                        self.payload_defs[b["id"]] = x["scrut"]
                    # a catch-all arm that names the scrutinee (`opt if opt.starts_with(..) => ..`): the binder is the scrutinee
                    pa = a["pat"]
                    while pa["k"] == "PRef":
                        pa = pa["sub"]
                    if pa["k"] == "Bind" and "sub" not in pa and x.get("src") == "Normal":
                        self._arm_binders = getattr(self, "_arm_binders", {})
                        self._arm_binders[pa["id"]] = x["scrut"]
            if x["k"] == "Let" and x["pat"]["k"] == "Bind" and "init" in x and "sub" not in x["pat"]:
                i = x["pat"]["id"]
                if i in self.defs:
                    self.multi.add(i)
                self.defs[i] = x["init"]
            elif x["k"] in ("Assign", "AssignOp"):
                l = x["l"]
                if l["k"] == "Path" and l.get("rk") == "Local":
                    self.multi.add(l["res"])
        for i in self.multi:
            self.defs.pop(i, None)
        for i, d in getattr(self, "_arm_binders", {}).items():
            if i not in self.defs and i not in self.multi:
                self.defs[i] = d

    def chase(self, n, limit=8):
        """replace a single-assignment local by its initialiser, repeatedly"""
        while limit > 0:
            p = peel(n, methods=False)
            if p["k"] == "Path" and p.get("rk") == "Local" and p["res"] in self.defs:
                n = self.defs[p["res"]]
                limit -= 1
            else:
                return n
        return n


def root_local(n):
    """name of the local variable a method/field chain starts from"""
    while True:
        n = peel(n)
        k = n["k"]
        if k == "Path":
            return n["name"] if n.get("rk") == "Local" else None
        if k == "MCall":
            n = n["recv"]
        elif k in ("Field", "Index", "Cast", "Un"):
            n = n["e"]
        elif k == "Call" and n["args"]:
            n = n["args"][0]
        else:
            return None


# ------------------------------------------------------------------------------------------
# match tables

def pat_alts(p):
    """flatten or-patterns"""
    if p["k"] == "Or":
        out = []
        for a in p["alts"]:
            out.extend(pat_alts(a))
        return out
    if p["k"] == "PRef":
        return pat_alts(p["sub"])
    if p["k"] == "PTS" and len(p["subs"]) == 1 and p["subs"][0]["k"] == "Or":
        out = []
        for a in pat_alts(p["subs"][0]):
            q = dict(p)
            q["subs"] = [a]
            out.append(q)
        return out
    return [p]


def pat_key(p):
    """canonical key of a single (or-free) pattern: literal value, variant name, or '_'"""
    k = p["k"]
    if k in ("Wild", "Bind"):
        return "_"
    if k == "PLit":
        return ("lit", p["v"])
    if k == "PPath":
        return ("path", short(p["res"]))
    if k == "PTS":
        subs = tuple(pat_key(s) for s in p["subs"])
        if short(p["res"], 1) in ("Some", "Ok") and len(subs) == 1:
            return subs[0] if subs[0] != "_" else ("path", short(p["res"], 1))
        return ("ts", short(p["res"]), subs)
    if k == "PRef":
        return pat_key(p["sub"])
    if k == "PTup":
        return ("tup", tuple(pat_key(s) for s in p["subs"]))
    if k == "PStruct":
        return ("path", short(p["res"]))
    return ("other", render_pat(p))


def match_arms(m):
    """[(keys, guard, body, sp)] for a Match node"""
    out = []
    for a in m["arms"]:
        keys = [pat_key(x) for x in pat_alts(a["pat"])]
        out.append({"keys": keys, "guard": a.get("guard"), "body": a["body"], "sp": a["sp"], "pat": a["pat"]})
    return out


def key_name(k):
    if k == "_":
        return "_"
    if k[0] == "path":
        return k[1]
    if k[0] == "lit":
        return k[1] if isinstance(k[1], str) else str(k[1]).lower() if isinstance(k[1], bool) else str(k[1])
    return str(k)


def find_matches(root, scrut_pred=None, min_arms=2, source="Normal"):
    out = []
    for x in walk_exprs(root):
        if x["k"] == "Match" and (source is None or x.get("src") == source) and len(x["arms"]) >= min_arms:
            if scrut_pred is None or scrut_pred(x["scrut"]):
                out.append(x)
    return out


def table_of(m, value=lambda body: body):
    """dict key_name -> value(body) for a match whose arms are unguarded; '_' holds the default"""
    t = {}
    for a in match_arms(m):
        for k in a["keys"]:
            kn = key_name(k)
            if kn not in t:
                t[kn] = value(a["body"])
    return t


# ------------------------------------------------------------------------------------------
# ancestor chains / guards

def path_to(root, target):
    """[(ancestor, child_key)] from root down to target (identity), or None"""
    stack = [(root, [])]
    while stack:
        n, chain = stack.pop()
        if n is target:
            return chain
        for key, c in children(n):
            stack.append((c, chain + [(n, key)]))
    return None


PURE_METHODS = {"is_empty", "len", "is_some", "is_none", "is_ok", "is_err", "contains", "starts_with", "ends_with", "eq", "ne", "lt", "le",
                "gt", "ge", "saturating_sub", "saturating_add", "min", "max", "clone", "as_ref", "as_str", "to_owned", "abs", "is_dir",
                "is_file", "is_symlink", "contains_key", "first", "last", "get", "unwrap_or", "unwrap_or_default"}
_LOCALS_CACHE = {}


def is_pure(n, depth=0):
    """expression without side effects the analyses care about (no crate calls, no `?`, no assignment)"""
    k = n["k"]
    if depth > 12:
        return False
    if k in ("Path", "Lit"):
        return True
    if k in ("Field", "Un", "Cast", "Ref"):
        return is_pure(n["e"], depth + 1)
    if k == "Bin":
        return is_pure(n["l"], depth + 1) and is_pure(n["r"], depth + 1)
    if k == "Index":
        return is_pure(n["e"], depth + 1) and is_pure(n["i"], depth + 1)
    if k == "Tup":
        return all(is_pure(e, depth + 1) for e in n["es"])
    if k == "Block" and not n["stmts"] and "expr" in n:
        return is_pure(n["expr"], depth + 1)
    if k == "MCall" and n["m"] in PURE_METHODS:
        return is_pure(n["recv"], depth + 1) and all(is_pure(a, depth + 1) for a in n["args"])
    return False


def subst_bool_locals(cond, locs, depth=0):
    """replace boolean single-assignment locals with a pure definition by that definition (a condition hoisted into a named
    local reads like the condition itself); returns the same node when nothing applies"""
    if depth > 4:
        return cond
    k = cond["k"]
    if k == "Path" and cond.get("rk") == "Local" and str(cond.get("ty", "")) in ("bool", "&bool"):
        d = locs.defs.get(cond["res"])
        if d is not None and is_pure(d):
            return subst_bool_locals(d, locs, depth + 1)
        return cond
    if k == "Un" and cond["op"] == "!":
        e = subst_bool_locals(cond["e"], locs, depth)
        if e is not cond["e"]:
            c = dict(cond)
            c["e"] = e
            return c
        return cond
    if k == "Bin" and cond["op"] in ("&&", "||"):
        l, r = subst_bool_locals(cond["l"], locs, depth), subst_bool_locals(cond["r"], locs, depth)
        if l is not cond["l"] or r is not cond["r"]:
            c = dict(cond)
            c["l"], c["r"] = l, r
            return c
        return cond
    if k == "Block" and not cond["stmts"] and "expr" in cond:
        e = subst_bool_locals(cond["expr"], locs, depth)
        return e if e is not cond["expr"] else cond
    return cond


def guards_of(root, target):
    out = _guards_of(root, target)
    if out is None:
        return None
    key = id(root)
    if key not in _LOCALS_CACHE or _LOCALS_CACHE[key][0] is not root:
        _LOCALS_CACHE[key] = (root, Locals(root))
    locs = _LOCALS_CACHE[key][1]
    res = []
    for g in out:
        if g[0] in ("if", "exit") and g[1]["k"] != "LetE":
            c = subst_bool_locals(g[1], locs)
            res.append((g[0], c, g[2]) if c is not g[1] else g)
        else:
            res.append(g)
    return res


def _guards_of(root, target):
    """conditions under which `target` is evaluated inside `root`:
    list of (cond_expr, polarity) for If ancestors, ('match', scrut, pat) for Match arms,
    ('loop', node) for enclosing loops, ('closure', node)."""
    chain = path_to(root, target)
    if chain is None:
        return None
    out = []
    for anc, key in chain:
        k = anc["k"]
        if k == "Block" and (key.startswith("stmts[") or key == "expr"):
            # guard clauses: an earlier statement of the block that leaves (continue / break / return) under a condition puts
            # everything after it under the opposite condition - `if !c { continue }; rest` reads like `if c { rest }`
            upto = int(key[6:key.index("]")]) if key.startswith("stmts[") else len(anc["stmts"])
            for st in anc["stmts"][:upto]:
                out.extend(_exit_guards(st))
        if k == "If":
            if key == "t":
                out.append(("if", anc["c"], True))
            elif key == "e":
                out.append(("if", anc["c"], False))
        elif k == "Match" and key.startswith("arms["):
            idx = int(key[5:key.index("]")])
            part = key[key.index("]") + 2:]
            if part in ("body", "guard"):
                out.append(("match", anc["scrut"], anc["arms"][idx]["pat"], anc.get("src")))
                if part == "body" and anc["arms"][idx].get("guard") is not None:
                    out.append(("if", anc["arms"][idx]["guard"], True))
        elif k == "Loop":
            out.append(("loop", anc))
        elif k == "Closure":
            out.append(("closure", anc))
        elif k == "Bin" and anc["op"] in ("&&", "||") and key == "r":
            out.append(("if", anc["l"], anc["op"] == "&&"))
    return out


def guard_text(g):
    """one-line description of a guards_of entry"""
    if g[0] in ("exit", "exitmatch"):
        return guard_text((("if",) if g[0] == "exit" else ("match",)) + tuple(g[1:]))
    if g[0] == "if":
        return "%s(%s)" % ("" if g[2] else "not ", render(g[1]))
    if g[0] == "match":
        return "%s is %s" % (render(g[1]), render_pat(g[2]))
    return g[0]


def presence_guard(g):
    """if the guard only tests that an optional place is present (`if let Some(x) = &a.b`, `match a.b { Some(x) => ..`),
    return the rendered place (adapters like as_ref/as_deref/& peeled, but no filtering method); else None"""
    pat = init = None
    if g[0] == "if" and g[2] and g[1]["k"] == "LetE":
        pat, init = g[1]["pat"], g[1]["init"]
    elif g[0] == "match":
        pat, init = g[2], g[1]
    if pat is None:
        return None
    txt = render_pat(pat).lstrip("&")
    if not (txt.startswith("Option::Some(") or txt.startswith("Result::Ok(")):
        return None
    base = peel(init)
    r = render(base)
    if base["k"] in ("Field", "Path") or (base["k"] == "MCall" and base["m"] in ("last_mut", "last", "first") and not base["args"]):
        return r
    return None


def diverges(n, inl=True):
    """the block / expression always leaves by return / break / continue (syntactic check of its last statement).  The
    `return` of an inlined helper (InlRet) leaves the helper's block: it counts unless an inlined block lies in between."""
    n = peel(n, methods=False)
    if n["k"] in ("Ret", "Break", "Continue") or (inl and n["k"] == "InlRet"):
        return True
    if n["k"] == "Block":
        last = n["expr"] if "expr" in n else (n["stmts"][-1] if n["stmts"] else None)
        return last is not None and diverges(last, inl and not n.get("inl"))
    if n["k"] == "If" and "e" in n:
        return diverges(n["t"], inl) and diverges(n["e"], inl)
    return False


def find_ifs(root, pred):
    """[(if_node, positive_branch, negative_branch)] for every `if c {..} else {..}` (also `match c {true/false}`, which the
    normaliser reads as if) whose condition is c or !c with pred(c).  For `if c { ..return } rest-of-block` the other branch is
    the rest of the enclosing block (returned as a synthetic Block)."""
    out = []
    for x in walk_exprs(root):
        if x["k"] != "If":
            continue
        c = peel(x["c"], methods=False)
        neg = False
        while c["k"] == "Un" and c["op"] == "!":
            neg = not neg
            c = peel(c["e"], methods=False)
        if not pred(c):
            continue
        t, e = x["t"], x.get("e")
        if e is None and diverges(t):
            chain = path_to(root, x) or []
            for anc, key in reversed(chain):
                if anc["k"] == "Block" and key.startswith("stmts["):
                    i = int(key[6:key.index("]")])
                    e = {"k": "Block", "sp": anc.get("sp", "?"), "stmts": anc["stmts"][i + 1:], "synthetic": True}
                    if "expr" in anc:
                        e["expr"] = anc["expr"]
                    break
                if anc["k"] != "Block":
                    break
        out.append((x, e if neg else t, t if neg else e))
    return out


def guard_atoms(gs):
    """atoms known true / false at a node from its `if` guards: (pos, neg) lists of condition nodes.  `a && b` true gives
    a, b true; `a || b` false gives a, b false; `!a` flips."""
    pos, neg = [], []

    def add(c, val):
        c = peel(c, methods=False)
        if c["k"] == "Un" and c["op"] == "!":
            add(c["e"], not val)
        elif c["k"] == "Bin" and c["op"] == "&&" and val:
            add(c["l"], True)
            add(c["r"], True)
        elif c["k"] == "Bin" and c["op"] == "||" and not val:
            add(c["l"], False)
            add(c["r"], False)
        else:
            (pos if val else neg).append(c)
    for g in gs or []:
        if g[0] == "if" and g[1]["k"] != "LetE":
            add(g[1], g[2])
    return pos, neg


def leaf_results(n):
    """[(leaf_expr, holder_block)]: every expression that can become the value of `n` (its tail, decomposed through blocks,
    `if`, `match`) or be returned from inside it with `return` (decomposed the same way); holder = innermost block"""
    out = []

    def value(x, holder):
        x0 = x
        while x["k"] in ("Ref",) or (x["k"] == "Un" and x["op"] == "*"):
            x = x["e"]
        k = x["k"]
        if k == "Block":
            if x.get("inl"):
                # an inlined helper: its `return v` (InlRet) yields the value of this block
                def inl_rets(n_, top=True):
                    for _key, c in children(n_):
                        if c["k"] == "Block" and c.get("inl"):
                            continue
                        if c["k"] == "Closure":
                            continue
                        if c["k"] == "InlRet":
                            if "e" in c:
                                value(c["e"], x)
                            continue
                        inl_rets(c, False)
                inl_rets(x)
            for st in x["stmts"]:
                stmt(st, x)
            if "expr" in x:
                value(x["expr"], x)
        elif k == "If":
            value(x["t"], holder)
            if "e" in x:
                value(x["e"], holder)
        elif k == "Match":
            for a in x["arms"]:
                value(a["body"], holder)
        elif k == "Ret":
            if "e" in x:
                value(x["e"], holder)
        else:
            out.append((x0, holder))

    def stmt(x, holder):
        k = x["k"]
        if k == "Ret":
            if "e" in x:
                value(x["e"], holder)
        elif k == "Block":
            for st in x["stmts"]:
                stmt(st, x)
            if "expr" in x:
                stmt(x["expr"], x)
        elif k == "If":
            stmt(x["t"], holder)
            if "e" in x:
                stmt(x["e"], holder)
        elif k == "Match":
            for a in x["arms"]:
                stmt(a["body"], holder)
        elif k == "Loop":
            stmt(x["body"], holder)
        elif k == "Let":
            if "init" in x and x["init"] is not None:
                stmt(x["init"], holder)
            if x.get("els"):
                stmt(x["els"], holder)
        elif k in ("Closure",):
            return
    value(n, n if n["k"] == "Block" else None)
    return out


def find_iterations(root):
    """every iteration over a collection, whatever its spelling: `for pat in X { body }` and `X.for_each(|pat| body)`.
    [{node, kind, iter (the iterated expression X), pat (binder pattern), body}]"""
    out = []
    for x in walk_exprs(root):
        if x["k"] == "MCall" and x["m"] == "for_each" and x["args"]:
            cl = peel(x["args"][0], methods=False)
            if cl["k"] == "Closure":
                ps = cl.get("params") or []
                out.append({"node": x, "kind": "for_each", "iter": x["recv"], "pat": ps[0] if ps else None, "body": cl["body"]})
        elif x["k"] == "Match" and str(x.get("src", "")).startswith("ForLoop") and x["arms"]:
            sc = peel(x["scrut"], methods=False)
            it = sc["args"][0] if sc["k"] == "Call" and sc["args"] and "into_iter" in str(sc.get("callee", "")) else sc
            loop = x["arms"][0]["body"]
            for y in walk_exprs(loop):
                if y["k"] == "Match" and str(y.get("src", "")).startswith("ForLoop") and y is not x:
                    for a in y["arms"]:
                        rp = render_pat(a["pat"])
                        if "Some" in rp:
                            subs = a["pat"].get("subs") or ([f["pat"] for f in a["pat"].get("fields", [])] if a["pat"]["k"] == "PStruct" else [])
                            out.append({"node": x, "kind": "for", "iter": it, "pat": subs[0] if subs else None, "body": a["body"]})
                    break
    return out


def pat_binders(p):
    """ids of all bindings of a pattern, in order"""
    return [x["id"] for x in walk(p) if x["k"] == "Bind"] if p else []


def conditions(root):
    """[(condition, guarded_body, node)] for every `if c { body }` and every guarded match arm `pat if c => body`"""
    out = []
    for x in walk_exprs(root):
        if x["k"] == "If" and x["c"]["k"] != "LetE":
            out.append((x["c"], x["t"], x))
        elif x["k"] == "Match":
            for a in x["arms"]:
                if a.get("guard") is not None:
                    out.append((a["guard"], a["body"], x))
    return out


def _exit_guards(st):
    """guards that hold after statement `st` because its other outcome leaves the block: [('if', cond, polarity) | ('match', scrut, pat, src)]"""
    g = []
    x = st
    if x["k"] == "Let" and x.get("init") is not None:
        init = x["init"]
        while init["k"] == "Block" and not init["stmts"] and "expr" in init:
            init = init["expr"]
        if x.get("els") is not None and diverges(x["els"]):
            g.append(("exit", {"k": "LetE", "sp": x.get("sp", "?"), "pat": x["pat"], "init": x["init"]}, True))
        elif init["k"] == "Match" and init.get("src") == "Normal":
            live = [a for a in init["arms"] if not diverges(a["body"])]
            if len(live) == 1 and len(init["arms"]) >= 2:
                g.append(("exitmatch", init["scrut"], live[0]["pat"], init.get("src")))
        elif init["k"] == "If" and "e" in init:
            if diverges(init["e"]) and not diverges(init["t"]):
                g.append(("exit", init["c"], True))
            elif diverges(init["t"]) and not diverges(init["e"]):
                g.append(("exit", init["c"], False))
        return g
    while x["k"] == "Block" and not x["stmts"] and "expr" in x:
        x = x["expr"]
    if x["k"] == "If":
        t_div = diverges(x["t"])
        e_div = "e" in x and diverges(x["e"])
        if t_div and not e_div:
            g.append(("exit", x["c"], False))
        elif e_div and not t_div:
            g.append(("exit", x["c"], True))
    elif x["k"] == "Match" and x.get("src") == "Normal":
        live = [a for a in x["arms"] if not diverges(a["body"])]
        if len(live) == 1 and len(x["arms"]) >= 2:
            g.append(("exitmatch", x["scrut"], live[0]["pat"], x.get("src")))
    if not g:
        g.extend(_deep_exits(x))
    return g


def _deep_exits(st):
    """a statement that leaves the block only on some nested path (`if a { if b { continue } .. }`): what follows it runs under
    the negation of that path's conditions.  One ('exit', a && b, False) entry per leaving path; `?` is not a guard clause."""
    out = []

    def conj(cs):
        c = cs[0]
        for d in cs[1:]:
            c = {"k": "Bin", "op": "&&", "sp": d.get("sp", "?"), "ty": "bool", "l": c, "r": d, "synthetic": True}
        return c

    def rec(n, conds, in_loop, in_inl=False):
        k = n["k"]
        if k == "Closure":
            return
        if k == "Block" and n.get("inl") and n is not st:
            # returns of an inlined helper end the helper only
            for _key, ch in children(n):
                if ch["k"] not in PAT_KINDS:
                    rec(ch, conds, in_loop, True)
            return
        if k in ("Ret",) or (k == "InlRet" and not in_inl) or (k in ("Break", "Continue") and not in_loop):
            if conds:
                out.append(("exit", conj(conds), False))
            return
        if k == "Loop":
            for _key, ch in children(n):
                rec(ch, conds, True, in_inl)
            return
        if k == "If":
            rec(n["c"], conds, in_loop, in_inl)
            rec(n["t"], conds + [n["c"]], in_loop, in_inl)
            if "e" in n:
                rec(n["e"], conds + [{"k": "Un", "op": "!", "sp": n["c"].get("sp", "?"), "ty": "bool", "e": n["c"], "synthetic": True}], in_loop, in_inl)
            return
        if k == "Match":
            if str(n.get("src", "")).startswith("TryDesugar") or n.get("src") == "ForLoopDesugar":
                if n.get("src") == "ForLoopDesugar":
                    for a in n["arms"]:
                        rec(a["body"], conds, True, in_inl)
                return
            rec(n["scrut"], conds, in_loop, in_inl)
            for a in n["arms"]:
                c = {"k": "LetE", "sp": n.get("sp", "?"), "ty": "bool", "pat": a["pat"], "init": n["scrut"], "synthetic": True}
                cs = conds + [c] + ([a["guard"]] if a.get("guard") is not None else [])
                rec(a["body"], cs, in_loop, in_inl)
            return
        for _key, ch in children(n):
            if ch["k"] not in PAT_KINDS:
                rec(ch, conds, in_loop, in_inl)
    rec(st, [], False)
    return out[:4]


def with_exits(gs, after_loop=False):
    """guards_of output with guard clauses read as ordinary guards (`exit` -> `if`, `exitmatch` -> `match`); with
    after_loop only the guard clauses inside the innermost enclosing loop count (a clause before the loop holds for every
    round alike)"""
    out = []
    start = 0
    if after_loop:
        for i, g in enumerate(gs or []):
            if g[0] == "loop":
                start = i
    for i, g in enumerate(gs or []):
        if g[0] == "exit":
            if i >= start:
                out.append(("if",) + tuple(g[1:]))
        elif g[0] == "exitmatch":
            if i >= start:
                out.append(("match",) + tuple(g[1:]))
        else:
            out.append(g)
    return out


def conjuncts(c):
    """split a condition on && (let-chains included)"""
    c = peel(c, methods=False)
    if c["k"] == "Bin" and c["op"] == "&&":
        return conjuncts(c["l"]) + conjuncts(c["r"])
    return [c]


def disjuncts(c):
    c = peel(c, methods=False)
    if c["k"] == "Bin" and c["op"] == "||":
        return disjuncts(c["l"]) + disjuncts(c["r"])
    return [c]


# ------------------------------------------------------------------------------------------
# evaluation of comparison predicates over integer environments

class NotComparison(Exception):
    pass


class Evaluator:
    """Evaluates an extracted Boolean expression over an environment leaf-key -> int.
    `leaf(n)` maps an expression to an environment key or None."""

    def __init__(self, leaf, locals_=None, consts=None):
        self.leaf = leaf
        self.locals = locals_
        self.consts = consts or {}

    def num(self, n, env):
        key0 = self.leaf(peel(n, methods=False))
        if key0 is not None and key0 in env:
            return env[key0]
        if self.locals is not None:
            n = self.locals.chase(n)
        n = peel(n, methods=False)
        key = self.leaf(n)
        if key is not None:
            if key not in env:
                raise NotComparison("no value for leaf %s" % key)
            return env[key]
        k = n["k"]
        if k == "Lit" and n["lk"] in ("int",):
            return n["v"]
        if k == "Lit" and n["lk"] == "bool":
            return 1 if n["v"] else 0
        if k == "Lit" and n["lk"] == "float":
            f = float(n["v"])
            return f
        if k == "Path" and n.get("rk") in ("Const", "AssocConst") and n["res"] in self.consts:
            return self.consts[n["res"]]["int"]
        if k == "Bin" and n["op"] in ("+", "-", "*", "&", "|"):
            a, b = self.num(n["l"], env), self.num(n["r"], env)
            return {"+": a + b, "-": a - b, "*": a * b, "&": a & b, "|": a | b}[n["op"]]
        if k == "Cast":
            return self.num(n["e"], env)
        if k == "MCall" and n["m"] in ("clone", "to_owned") and not n["args"]:
            return self.num(n["recv"], env)
        if k == "MCall" and n["m"] in ("saturating_sub", "saturating_add", "wrapping_sub", "wrapping_add", "min", "max") and len(n["args"]) == 1:
            a, b = self.num(n["recv"], env), self.num(n["args"][0], env)
            return {"saturating_sub": max(a - b, 0), "saturating_add": a + b, "wrapping_sub": a - b, "wrapping_add": a + b,
                    "min": min(a, b), "max": max(a, b)}[n["m"]]
        if k == "Match" and n.get("src") == "Normal":
            v = self.num(n["scrut"], env)
            for a in match_arms(n):
                for key in a["keys"]:
                    if key == "_" or key == ("lit", v):
                        return self.num(a["body"], env)
        if k == "If" and "e" in n:
            return self.num(n["t"], env) if self.boolean(n["c"], env) else self.num(n["e"], env)
        if k == "Block" and not n["stmts"] and "expr" in n:
            return self.num(n["expr"], env)
        raise NotComparison("not a numeric leaf: %s" % render(n))

    def boolean(self, n, env):
        key0 = self.leaf(peel(n, methods=False))
        if key0 is not None and key0 in env:
            return bool(env[key0])
        if self.locals is not None:
            n = self.locals.chase(n)
        n = peel(n, methods=False)
        key0 = self.leaf(n)
        if key0 is not None and key0 in env:
            return bool(env[key0])
        k = n["k"]
        if k == "Lit" and n["lk"] == "bool":
            return bool(n["v"])
        if k == "Un" and n["op"] == "!":
            return not self.boolean(n["e"], env)
        if k == "Bin":
            op = n["op"]
            if op == "&&":
                return self.boolean(n["l"], env) and self.boolean(n["r"], env)
            if op == "||":
                return self.boolean(n["l"], env) or self.boolean(n["r"], env)
            if op in ("==", "!=", "<", "<=", ">", ">="):
                a, b = self.num(n["l"], env), self.num(n["r"], env)
                return {"==": a == b, "!=": a != b, "<": a < b, "<=": a <= b, ">": a > b, ">=": a >= b}[op]
        if k == "MCall" and n["m"] in ("eq", "ne", "lt", "le", "gt", "ge") and len(n["args"]) == 1:
            a, b = self.num(n["recv"], env), self.num(n["args"][0], env)
            return {"eq": a == b, "ne": a != b, "lt": a < b, "le": a <= b, "gt": a > b, "ge": a >= b}[n["m"]]
        if k == "If" and "e" in n:
            return self.boolean(n["t"], env) if self.boolean(n["c"], env) else self.boolean(n["e"], env)
        if k == "Match" and n.get("src") == "Normal":
            # match <bool> { true => .., false => .. }
            arms = match_arms(n)
            try:
                c = self.boolean(n["scrut"], env)
            except NotComparison:
                raise
            for a in arms:
                for key in a["keys"]:
                    if key == "_" or key == ("lit", c):
                        return self.boolean(a["body"], env)
        key = self.leaf(n)
        if key is not None and key in env:
            return bool(env[key])
        raise NotComparison("not a comparison predicate: %s" % render(n))


def weak_orderings(names):
    """all weak orderings of `names` as dict name->rank (ranks 0..)"""
    names = list(names)
    if not names:
        yield {}
        return
    first, rest = names[0], names[1:]
    for sub in weak_orderings(rest):
        dense = {v: i for i, v in enumerate(sorted(set(sub.values())))}
        sub = {k: dense[v] for k, v in sub.items()}
        ranks = sorted(set(sub.values()))
        # tie with an existing rank
        for r in ranks:
            d = dict(sub)
            d[first] = r
            yield d
        # strictly between / below / above: renumber to 2*r and insert odd
        base = {k: 2 * v + 1 for k, v in sub.items()}
        for slot in range(0, 2 * len(ranks) + 1, 2):
            d = dict(base)
            d[first] = slot
            yield d


# ------------------------------------------------------------------------------------------
# format!/write! templates (the compiler encodes the template as a byte string: <len> bytes ... 0xC0 = argument)

def fmt_templates(root):
    """decoded templates of every format_args! expansion under root, arguments rendered as {}"""
    out = []
    for x in walk_exprs(root):
        if x["k"] == "Lit" and x.get("lk") == "bytestr" and x.get("exp") and "bytes" in x:
            b = x["bytes"]
            i = 0
            s = ""
            ok = True
            while i < len(b):
                c = b[i]
                if c == 0:
                    break
                if c < 0x80:
                    s += bytes(b[i + 1:i + 1 + c]).decode("utf-8", "replace")
                    i += 1 + c
                elif c == 0xC0:
                    s += "{}"
                    i += 1
                else:
                    ok = False
                    break
            if not ok:
                s = "".join(ch if ch != "�" else "{}" for ch in x["v"] if ord(ch) >= 32)
            out.append((s, x))
        elif x["k"] == "Lit" and x.get("lk") == "str" and x.get("exp") and x.get("mac") in (
                "format", "write", "writeln", "print", "println", "eprint", "eprintln", "panic"):
            out.append((x["v"], x))
    return out
