"""T — parser cursor analysis over MIR (termination / no-underflow clause of C10).

The parser cursor `Parser.index` is moved only by next_lexem (+1) and drop_lexem (-1) (who-may-write rule in
progress.py).  For every method of `parser::Parser` a *product graph* is built whose nodes are (basic block,
variant facts) — facts record, per place, which enum variants are still possible after the discriminant switches
taken so far, so that infeasible combinations ("took the ArithmeticOperator branch, then matched String") are not
explored — and whose edges carry the cursor delta of the block's call (+1, -1, or the callee's summary).
Summaries (per return class: minimal net delta; overall: lowest prefix) are computed by Kleene iteration over the
mutually recursive methods.  Decided:
  T1  no cycle of any product graph has net delta <= 0 (every loop iteration consumes a lexem);
  T2  the cursor never falls below its value at the entry of `parse` (drop_lexem cannot underflow);
  T3  every cycle of the call graph consumes a lexem before recursing."""
import re

from mirq import place_str, op_place

INF = 10 ** 9
PARSER = "parser::Parser::"


def split_generics(ty):
    """'A<B, C<D>>' -> ('A', ['B', 'C<D>'])"""
    i = ty.find("<")
    if i < 0 or not ty.endswith(">"):
        return ty, []
    head, inner = ty[:i], ty[i + 1:-1]
    args, depth, cur = [], 0, ""
    for ch in inner:
        if ch == "<" or ch == "(" or ch == "[":
            depth += 1
        elif ch == ">" or ch == ")" or ch == "]":
            depth -= 1
        if ch == "," and depth == 0:
            args.append(cur.strip())
            cur = ""
        else:
            cur += ch
    if cur.strip():
        args.append(cur.strip())
    return head, args


class Types:
    def __init__(self, prog):
        self.prog = prog

    def variants(self, ty):
        ty = ty.strip()
        while ty.startswith("&"):
            ty = ty[1:].strip()
            if ty.startswith("mut "):
                ty = ty[4:]
            if ty.startswith("'"):
                ty = ty.split(" ", 1)[1] if " " in ty else ty
        head, _ = split_generics(ty)
        if head == "core::option::Option":
            return ["None", "Some"]
        if head == "core::result::Result":
            return ["Ok", "Err"]
        if head == "core::ops::control_flow::ControlFlow":
            return ["Continue", "Break"]
        v = self.prog.adt_variants(head)
        if v and self.prog.adts[head]["kind"] == "enum":
            return v
        return None

    def project(self, ty, proj):
        ty = ty.strip()
        if proj in ("*", ".*"):
            t = ty
            if t.startswith("&"):
                t = t[1:].strip()
                if t.startswith("'"):
                    t = t.split(" ", 1)[1] if " " in t else t
                if t.startswith("mut "):
                    t = t[4:]
                return t
            head, args = split_generics(t)
            if head in ("alloc::boxed::Box",) and args:
                return args[0]
            return None
        m = re.match(r"^@(\w+)\.0$", proj)
        if m:
            head, args = split_generics(ty)
            v = m.group(1)
            if head == "core::option::Option" and v == "Some" and args:
                return args[0]
            if head == "core::result::Result" and args:
                return args[0] if v == "Ok" else (args[1] if len(args) > 1 else None)
            if head == "core::ops::control_flow::ControlFlow" and args:
                return args[1] if v == "Continue" and len(args) > 1 else args[0]
        return None


def place_key(p):
    """canonical key; a downcast followed by field 0 becomes one segment '@V.0'"""
    segs = []
    pr = p["pr"]
    i = 0
    while i < len(pr):
        x = pr[i]
        if x.startswith("@") and i + 1 < len(pr) and pr[i + 1] in (".0",):
            segs.append(x + ".0")
            i += 2
            continue
        segs.append(".*" if x == "*" else x)
        i += 1
    return "_%d" % p["l"], segs


def key_str(base, segs):
    return base + "".join(("|" + s) for s in segs)


class Facts:
    """immutable map key -> frozenset(variants)"""

    def __init__(self, d=None):
        self.d = dict(d or {})

    def frozen(self):
        return frozenset(self.d.items())

    def kill(self, k):
        return Facts({a: v for a, v in self.d.items() if not (a == k or a.startswith(k + "|"))})

    def copy_prefix(self, src, dst):
        out = Facts(self.d).kill(dst)
        for a, v in self.d.items():
            if a == src or a.startswith(src + "|"):
                out.d[dst + a[len(src):]] = v
        return out

    def set(self, k, vs):
        out = Facts(self.d)
        out.d[k] = frozenset(vs)
        return out

    def get(self, k):
        return self.d.get(k)


class FnGraph:
    def __init__(self, prog, name, summaries, types, stmt_weight=None, self_summary=None):
        self.prog, self.name, self.summ, self.types = prog, name, summaries, types
        self.stmt_weight = stmt_weight      # optional: cursor advance performed by the statements of a block
        self.self_summary = self_summary
        self.b = prog.body(name)
        self.nodes = {}     # (bb, frozen facts) -> id
        self.node_list = []
        self.edges = []     # (u, v, w, info)
        self.returns = []   # (node id, class)
        self.calls = []     # (node id, callee, weight-before?) for underflow / recursion
        self.lexer_driven = set()   # node ids whose block calls the lexer
        self.live = self.may_use_later()
        self.relevant = self.relevant_locals()
        self.build()

    def ty_of(self, base, segs):
        ty = self.b.local_ty(int(base[1:]))
        for s in segs:
            ty = self.types.project(ty, s) if ty else None
            if ty is None:
                return None
        return ty

    def mentioned(self, bb):
        """locals mentioned anywhere in block bb"""
        out = set()

        def pl(p):
            if p is not None:
                out.add(p["l"])
                for x in p["pr"]:
                    if x.startswith("[_"):
                        out.add(int(x[2:-1]))

        def op(o):
            if isinstance(o, dict) and "p" in o:
                pl(o["p"])

        blk = self.b.blocks[bb]
        for s in blk["stmts"]:
            if s["k"] != "A":
                continue
            pl(s["p"])
            rv = s["rv"]
            for key in ("o", "a", "b"):
                if key in rv:
                    op(rv[key])
            if "p" in rv:
                pl(rv["p"])
            for o in rv.get("ops", []):
                op(o)
        t = blk["term"]
        if t["k"] == "Call":
            for a in t["args"]:
                op(a)
            pl(t["dest"])
        elif t["k"] == "Sw":
            op(t["o"])
        elif t["k"] == "Drop":
            pass
        elif t["k"] == "Return":
            out.add(0)
        return out

    def relevant_locals(self):
        """locals whose variant matters: switched on through a discriminant read, the return place, and whatever flows into them"""
        rel = {0}
        for blk in self.b.blocks:
            for s in blk["stmts"]:
                if s["k"] == "A" and s["rv"]["k"] == "Discr":
                    rel.add(s["rv"]["p"]["l"])
        changed = True
        while changed:
            changed = False
            for blk in self.b.blocks:
                for s in blk["stmts"]:
                    if s["k"] != "A" or s["p"]["l"] not in rel:
                        continue
                    rv = s["rv"]
                    srcs = []
                    if rv["k"] == "Use" and "p" in rv["o"]:
                        srcs.append(rv["o"]["p"]["l"])
                    elif rv["k"] == "Ref":
                        srcs.append(rv["p"]["l"])
                    elif rv["k"] == "Agg" and len(rv["ops"]) == 1 and rv["ak"].rsplit(":", 1)[-1] in ("Some", "Ok", "Err", "Continue", "Break"):
                        srcs += [o["p"]["l"] for o in rv["ops"] if "p" in o]
                    for l in srcs:
                        if l not in rel:
                            rel.add(l)
                            changed = True
                t = blk["term"]
                if t["k"] == "Call" and t["dest"]["l"] in rel:
                    cal = t.get("inst") or t.get("f") or ""
                    if cal.endswith("Try>::branch") or cal.endswith("Clone>::clone"):
                        for a in t["args"]:
                            if "p" in a and a["p"]["l"] not in rel:
                                rel.add(a["p"]["l"])
                                changed = True
        return rel

    def may_use_later(self):
        """live-in sets of locals per block (backward liveness with kills of whole-local assignments)"""
        n = self.b.n
        gen, kill = [], []
        for i in range(n):
            g, k = set(), set()

            def rd(p):
                if p is None:
                    return
                if p["l"] not in k:
                    g.add(p["l"])
                for x in p["pr"]:
                    if x.startswith("[_"):
                        l = int(x[2:-1])
                        if l not in k:
                            g.add(l)

            def op(o):
                if isinstance(o, dict) and "p" in o:
                    rd(o["p"])

            blk = self.b.blocks[i]
            for s_ in blk["stmts"]:
                if s_["k"] != "A":
                    continue
                rv = s_["rv"]
                for key in ("o", "a", "b"):
                    if key in rv:
                        op(rv[key])
                if "p" in rv:
                    rd(rv["p"])
                for o in rv.get("ops", []):
                    op(o)
                if s_["p"]["pr"]:
                    rd(s_["p"])        # partial write keeps the rest alive
                else:
                    k.add(s_["p"]["l"])
            t = blk["term"]
            if t["k"] == "Call":
                for a in t["args"]:
                    op(a)
                if t["dest"]["pr"]:
                    rd(t["dest"])
                else:
                    k.add(t["dest"]["l"])
            elif t["k"] == "Sw":
                op(t["o"])
            elif t["k"] == "Drop":
                rd(t["p"])
            elif t["k"] == "Return":
                if 0 not in k:
                    g.add(0)
            elif t["k"] == "Assert":
                op(t.get("cond"))
            gen.append(g)
            kill.append(k)
        live_in = [set(g) for g in gen]
        changed = True
        while changed:
            changed = False
            for i in range(n - 1, -1, -1):
                out = set()
                for s_ in self.b.succ[i]:
                    out |= live_in[s_]
                new = gen[i] | (out - kill[i])
                if new != live_in[i]:
                    live_in[i] = new
                    changed = True
        return live_in

    def node(self, bb, facts):
        # forget facts about locals that no block reachable from here mentions
        lv = self.live[bb]
        rel = self.relevant
        facts = Facts({k: v for k, v in facts.d.items() if int(k.split("|", 1)[0][1:]) in lv and int(k.split("|", 1)[0][1:]) in rel})
        k = (bb, facts.frozen())
        if k not in self.nodes:
            self.nodes[k] = len(self.node_list)
            self.node_list.append((bb, facts))
            self.work.append(self.nodes[k])
        return self.nodes[k]

    def apply_stmts(self, bb, facts):
        for s in self.b.blocks[bb]["stmts"]:
            if s["k"] != "A":
                continue
            base, segs = place_key(s["p"])
            pk = key_str(base, segs)
            rv = s["rv"]
            k = rv["k"]
            if k == "Agg" and rv["ak"].startswith("Adt:"):
                variant = rv["ak"].rsplit(":", 1)[1]
                facts = facts.kill(pk)
                if self.types.variants(self.ty_of(base, segs) or ""):
                    facts = facts.set(pk, [variant])
                    if len(rv["ops"]) == 1 and "p" in rv["ops"][0]:
                        qb, qs = place_key(rv["ops"][0]["p"])
                        qk = key_str(qb, qs)
                        tmp = facts.copy_prefix(qk, pk + "|@%s.0" % variant)
                        tmp.d[pk] = frozenset([variant])
                        facts = tmp
            elif k == "Use" and "p" in rv["o"]:
                qb, qs = place_key(rv["o"]["p"])
                facts = facts.copy_prefix(key_str(qb, qs), pk)
            elif k == "Ref":
                qb, qs = place_key(rv["p"])
                facts = facts.kill(pk).copy_prefix(key_str(qb, qs), pk + "|.*")
            else:
                facts = facts.kill(pk)
        return facts

    def discr_place(self, bb, local):
        for s in reversed(self.b.blocks[bb]["stmts"]):
            if s["k"] == "A" and s["p"]["l"] == local and not s["p"]["pr"]:
                if s["rv"]["k"] == "Discr":
                    return s["rv"]["p"]
                return None
        return None

    def build(self):
        self.work = []
        self.node(0, Facts())
        while self.work:
            u = self.work.pop()
            bb, facts = self.node_list[u]
            blk = self.b.blocks[bb]
            f2 = self.apply_stmts(bb, facts)
            t = blk["term"]
            k = t["k"]
            if self.stmt_weight is not None:
                w0 = self.stmt_weight(blk)
                if w0:
                    # the block's own statements advance the cursor: route through an intermediate node
                    mid = len(self.node_list)
                    self.node_list.append((bb, f2))
                    self.edges.append((u, mid, w0, "stmts"))
                    u = mid
            if k in ("Goto", "Drop", "Assert"):
                if "t" in t:
                    self.edges.append((u, self.node(t["t"], f2), 0, None))
            elif k == "Return":
                top = f2.get("_0")
                cls = []
                for v in (top or [None]):
                    inner = f2.get("_0|@%s.0" % v) if v else None
                    if inner:
                        cls.extend((v, w) for w in inner)
                    else:
                        cls.append((v, None))
                self.returns.append((u, cls))
            elif k == "Sw":
                o = op_place(t["o"])
                dp = self.discr_place(bb, o["l"]) if o is not None and not o["pr"] else None
                if dp is None:
                    for tgt in self.b.succ[bb]:
                        self.edges.append((u, self.node(tgt, f2), 0, None))
                    continue
                base, segs = place_key(dp)
                pk = key_str(base, segs)
                vs = self.types.variants(self.ty_of(base, segs) or "")
                cur = f2.get(pk)
                listed = set()
                for val, tgt in t["vals"]:
                    vn = vs[val] if vs and val < len(vs) else None
                    if vn is None:
                        self.edges.append((u, self.node(tgt, f2), 0, None))
                        continue
                    listed.add(vn)
                    if cur is not None and vn not in cur:
                        continue    # infeasible
                    self.edges.append((u, self.node(tgt, f2.set(pk, [vn])), 0, None))
                if vs:
                    rest = set(vs) - listed
                    if cur is not None:
                        rest &= set(cur)
                    if rest:
                        self.edges.append((u, self.node(t["else"], f2.set(pk, rest)), 0, None))
                else:
                    self.edges.append((u, self.node(t["else"], f2), 0, None))
            elif k == "Call":
                cal = t.get("inst") or t.get("f") or ""
                db, dsg = place_key(t["dest"])
                dk = key_str(db, dsg)
                f3 = f2.kill(dk)
                if "t" not in t:
                    continue    # diverges
                tgt = t["t"]
                if cal == "lexer::Lexer::next_lexem":
                    self.lexer_driven.add(bb)
                if cal == PARSER + "next_lexem":
                    self.edges.append((u, self.node(tgt, f3), 1, "next"))
                elif cal == PARSER + "drop_lexem":
                    self.edges.append((u, self.node(tgt, f3), -1, "drop"))
                elif cal.startswith(PARSER) and cal in self.summ:
                    s = self.summ[cal]
                    self.calls.append((u, cal))
                    for cls, net in s["ret"].items():
                        f4 = f3
                        if cls[0] is not None:
                            f4 = f4.set(dk, [cls[0]])
                            if cls[1] is not None:
                                f4 = f4.set(dk + "|@%s.0" % cls[0], [cls[1]])
                        self.edges.append((u, self.node(tgt, f4), net, "call:" + cal))
                elif cal.startswith(PARSER) and (cal.rsplit("::", 1)[1].startswith(("parse_", "there_are")) or cal in ANALYSED):
                    self.calls.append((u, cal))     # no summary yet: no finite path through it
                elif cal.endswith("Try>::branch") and t["args"] and "p" in t["args"][0]:
                    qb, qs = place_key(t["args"][0]["p"])
                    qk = key_str(qb, qs)
                    top = f2.get(qk)
                    for v, cv in (("Ok", "Continue"), ("Err", "Break"), ("Some", "Continue"), ("None", "Break")):
                        if top is not None and v not in top:
                            continue
                        vs = self.types.variants(self.ty_of(qb, qs) or "")
                        if vs and v not in vs:
                            continue
                        f4 = f3.set(dk, [cv])
                        inner = f2.get(qk + "|@%s.0" % v)
                        if inner is not None and cv == "Continue":
                            f4 = f4.set(dk + "|@Continue.0", inner)
                        self.edges.append((u, self.node(tgt, f4), 0, None))
                elif cal.endswith("::from_residual"):
                    vs = self.types.variants(self.ty_of(db, dsg) or "")
                    f4 = f3
                    if vs == ["Ok", "Err"]:
                        f4 = f3.set(dk, ["Err"])
                    elif vs == ["None", "Some"]:
                        f4 = f3.set(dk, ["None"])
                    self.edges.append((u, self.node(tgt, f4), 0, None))
                else:
                    # a clone keeps the variant facts of its argument
                    if cal.endswith("Clone>::clone") and t["args"] and "p" in t["args"][0]:
                        qb, qs = place_key(t["args"][0]["p"])
                        src = key_str(qb, qs)
                        f3 = f2.copy_prefix(src + "|.*", dk) if f2.get(src + "|.*") is not None else f3
                    self.edges.append((u, self.node(tgt, f3), 0, None))
            else:
                for tgt in self.b.succ[bb]:
                    self.edges.append((u, self.node(tgt, f2), 0, None))

    # ------------------------------------------------------------------ analyses
    def distances(self):
        n = len(self.node_list)
        dist = [INF] * n
        dist[0] = 0
        for _ in range(n + 2):
            ch = False
            for u, v, w, _i in self.edges:
                if dist[u] < INF and dist[u] + w < dist[v]:
                    dist[v] = dist[u] + w
                    ch = True
            if not ch:
                break
        return dist

    def nonprogress_cycles(self):
        """cycles with net delta <= 0 (reported by the blocks they pass through), excluding lexer-driven loops"""
        n = len(self.node_list)
        adj = {}
        for u, v, w, i in self.edges:
            adj.setdefault(u, []).append((v, w))
        # Tarjan SCC
        index, low, onst, st, comps = {}, {}, set(), [], []
        sys_stack = []

        def strong(v0):
            sys_stack.append((v0, 0))
            index[v0] = low[v0] = len(index)
            st.append(v0)
            onst.add(v0)
            while sys_stack:
                v, i = sys_stack.pop()
                succ = adj.get(v, [])
                if i < len(succ):
                    sys_stack.append((v, i + 1))
                    w = succ[i][0]
                    if w not in index:
                        index[w] = low[w] = len(index)
                        st.append(w)
                        onst.add(w)
                        sys_stack.append((w, 0))
                    elif w in onst:
                        low[v] = min(low[v], index[w])
                else:
                    if sys_stack:
                        p = sys_stack[-1][0]
                        low[p] = min(low[p], low[v])
                    if low[v] == index[v]:
                        comp = []
                        while True:
                            w = st.pop()
                            onst.discard(w)
                            comp.append(w)
                            if w == v:
                                break
                        comps.append(comp)

        for v in range(n):
            if v not in index:
                strong(v)
        bad = []
        for comp in comps:
            cs = set(comp)
            inner = [(u, v, w) for u, v, w, i in self.edges if u in cs and v in cs]
            if not inner:
                continue
            if any(self.node_list[u][0] in self.lexer_driven for u in cs):
                continue
            # is there a cycle with sum(w) <= 0 ?  transform w' = w*(K+1) - 1 and look for a negative cycle
            K = len(cs)
            d = {u: 0 for u in cs}
            changed_node = None
            for it in range(K + 1):
                changed_node = None
                for u, v, w in inner:
                    nw = d[u] + w * (K + 1) - 1
                    if nw < d[v]:
                        d[v] = nw
                        changed_node = v
                if changed_node is None:
                    break
            if changed_node is not None:
                blocks = sorted({self.node_list[u][0] for u in cs})
                bad.append(blocks)
        return bad


def return_classes(graph, dist):
    out = {}
    for u, cls in graph.returns:
        if dist[u] >= INF:
            continue
        for c in cls:
            out[c] = min(out.get(c, INF), dist[u])
    return out


def lowest_prefix(graph, dist, summaries):
    low = 0
    for u, v, w, info in graph.edges:
        if dist[u] >= INF:
            continue
        if info == "drop":
            low = min(low, dist[u] - 1)
        elif info and info.startswith("call:"):
            low = min(low, dist[u] + summaries[info[5:]]["low"])
    return low


ANALYSED = set()      # functions whose summaries are being computed: a call to one that has none yet has no finite path yet


def analyse(prog):
    types = Types(prog)
    fns = [n for n in prog.fns if n.startswith(PARSER) and "mir" in prog.fns[n] and "::{" not in n
           and n not in (PARSER + "next_lexem", PARSER + "drop_lexem", PARSER + "new")
           and prog.fns[n]["mir"]["argc"] >= 1 and "parser::Parser" in prog.fns[n]["mir"]["locals"][1]["ty"]]
    # associated functions of the parser that take no parser (`Self::signed_operand(expr, minus) -> Result<Option<Expr>, _>`):
    # they cannot move the cursor, but the class of what they return (Ok(Some) / Ok(None) / Err) flows into their callers
    helpers = [n for n in prog.fns if n.startswith(PARSER) and "mir" in prog.fns[n] and "::{" not in n and n not in fns
               and n not in (PARSER + "next_lexem", PARSER + "drop_lexem", PARSER + "new")
               and str(prog.fns[n]["mir"]["locals"][0]["ty"]).startswith(("core::result::Result<", "core::option::Option<"))
               and not any("parser::Parser" in str(l_["ty"]) for l_ in prog.fns[n]["mir"]["locals"][1:1 + prog.fns[n]["mir"]["argc"]])]
    summaries = {}
    graphs = {}
    ANALYSED.clear()
    ANALYSED.update(fns + helpers)
    for it in range(40):
        new = {}
        for fn in fns + helpers:
            g = FnGraph(prog, fn, summaries, types)
            d = g.distances()
            rc = return_classes(g, d)
            if rc:
                new[fn] = {"ret": rc, "low": lowest_prefix(g, d, {**summaries, **new})}
            if fn in fns:
                graphs[fn] = (g, d)
        if new == summaries:
            break
        summaries = new
    return fns, summaries, graphs


LEXER_NEXT = "lexer::Lexer::next_lexem"


def lexer_check(ctx):
    """lexer progress: every cycle of Lexer::next_lexem advances (input_index, char_index) lexicographically, and every
    lexem it returns has consumed at least one character (so the lexem list is finite and `parse` terminates)"""
    prog = ctx.prog
    ctx.anchor_fn(LEXER_NEXT)
    types = Types(prog)

    def advance(blk):
        w = 0
        for s in blk["stmts"]:
            if s["k"] == "A" and s["p"]["pr"] and s["p"]["pr"][-1] in (".char_index", ".input_index"):
                rv = s["rv"]
                if rv["k"] == "Use" and "p" in rv["o"] and rv["o"]["p"]["pr"] == [".0"]:
                    w += 1      # result of a checked `+ 1`
        return w

    summ = {}
    for it in range(4):
        g = FnGraph(prog, LEXER_NEXT, {}, types, stmt_weight=advance)
        # the recursive call for `asc` counts as the callee's own summary
        d = g.distances()
        rc = return_classes(g, d)
        break
    bad = g.nonprogress_cycles()
    ctx.obligation(not bad)
    for blocks in bad:
        lines = sorted({g.b.blocks[b]["term"].get("sp", "?").rsplit(":", 1)[0] for b in blocks})
        ctx.violation("progress/lexer", "%s (%s)" % (g.b.blocks[blocks[0]]["term"].get("sp", "?"), LEXER_NEXT),
                      "the lexer's loop can go round without advancing its cursor (through %s): some input makes the lexer spin forever" % ", ".join(lines[:6]))
    some = min((v for (c, _n), v in rc.items() if c in ("Some", None)), default=None)
    ok = some is not None and some >= 1
    ctx.obligation(ok)
    if not ok:
        ctx.violation("progress/lexer-empty-lexem", ctx.where(LEXER_NEXT),
                      "the lexer can return a lexem without having consumed a character (minimal advance %s): the lexem list would be unbounded" % some)
    ctx.covered("product graph of Lexer::next_lexem (%d nodes): cycles advance the cursor, returned lexems consume input" % len(g.node_list),
                len(g.node_list), distinct_keys=[LEXER_NEXT], sample={str(k): v for k, v in rc.items()})


def check(ctx):
    lexer_check(ctx)
    prog = ctx.prog
    fns, summ, graphs = analyse(prog)
    n_nodes = sum(len(g.node_list) for g, d in graphs.values())
    n_edges = sum(len(g.edges) for g, d in graphs.values())
    ctx.floor(len(fns), 18, "parser methods analysed by the cursor analysis", "parser.rs")
    missing = [f for f in fns if f not in summ]
    for f in missing:
        ctx.violation("cursor/no-summary/%s" % f.rsplit("::", 1)[1], ctx.where(f),
                      "%s has no path to a return under the cursor analysis (diverges on every path?)" % f)
    # T1: cycles without progress
    for fn in fns:
        g, d = graphs[fn]
        for blocks in g.nonprogress_cycles():
            sp = g.b.blocks[blocks[0]]["term"].get("sp", "?")
            lines = sorted({g.b.blocks[b]["term"].get("sp", "?").rsplit(":", 1)[0] for b in blocks})
            ctx.obligation(False)
            ctx.violation("progress/%s" % fn.rsplit("::", 1)[1], "%s (%s)" % (sp, fn),
                          "a loop of %s can go round without consuming a lexem (net cursor delta <= 0 on a feasible cycle "
                          "through %s): a query that takes this path makes the parser spin forever" % (fn.rsplit("::", 1)[1], ", ".join(lines[:6])))
        ctx.obligation(True)
    # T2: the cursor never falls below its value at the entry of parse
    root = PARSER + "parse"
    low = summ.get(root, {}).get("low")
    ok = low is not None and low >= 0
    ctx.obligation(ok)
    if not ok:
        worst = sorted(((s["low"], f) for f, s in summ.items()))[:3]
        ctx.violation("cursor/underflow", ctx.where(root),
                      "the parser cursor can fall below its initial value (lowest prefix %s): drop_lexem would underflow; "
                      "lowest prefixes per method: %s" % (low, worst))
    # T3: recursion consumes before recursing
    edges = []
    for fn in fns:
        g, d = graphs[fn]
        for u, cal in g.calls:
            if cal in fns and d[u] < INF:
                edges.append((fn, cal, d[u]))
    best = {}
    for a, b_, w in edges:
        best[(a, b_)] = min(best.get((a, b_), INF), w)
    # Floyd–Warshall on min prefix deltas; a cycle of total weight <= 0 means unbounded recursion without progress
    idx = {f: i for i, f in enumerate(fns)}
    N = len(fns)
    D = [[INF] * N for _ in range(N)]
    for (a, b_), w in best.items():
        D[idx[a]][idx[b_]] = min(D[idx[a]][idx[b_]], w)
    for k in range(N):
        for i in range(N):
            if D[i][k] >= INF:
                continue
            for j in range(N):
                if D[k][j] < INF and D[i][k] + D[k][j] < D[i][j]:
                    D[i][j] = D[i][k] + D[k][j]
    rec_bad = [fns[i] for i in range(N) if D[i][i] <= 0]
    ctx.obligation(not rec_bad)
    for f in rec_bad:
        ctx.violation("recursion/%s" % f.rsplit("::", 1)[1], ctx.where(f),
                      "%s can call itself again (directly or through other grammar functions) without having consumed a lexem" % f.rsplit("::", 1)[1])
    ctx.covered("product graphs (basic block x variant facts) of the parser methods: %d nodes, %d edges; cycles, lowest prefix, recursion"
                % (n_nodes, n_edges), n_nodes, distinct_keys=fns,
                sample={f.rsplit("::", 1)[1]: {"ret": {str(k): v for k, v in s["ret"].items()}, "low": s["low"]} for f, s in list(summ.items())[:8]},
                exhaustive=True)
    ctx._cursor_ok = ok and not missing
    return summ
