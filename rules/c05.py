"""C05 — ORDER BY output is sorted by the requested keys (static necessary conditions)."""
from hirq import *  # noqa: F401,F403
import oracles
import tables
import c02
from core import Abort

CMP_AT = "util::Criteria::cmp_at"
CMP = "<util::Criteria<T> as core::cmp::Ord>::cmp"
PARSE_ORDER_BY = "parser::Parser::parse_order_by"
CHECK_FILE = "searcher::Searcher::check_file"


def r1(ctx):
    hir = ctx.anchor_hir(CMP_AT)
    # direction: ascending flag -> comparison, otherwise reversed
    dir_if = None
    for x in walk_exprs(hir):
        if x["k"] == "If" and "orderings" in render(x["c"]) and "e" in x:
            dir_if = x
    ok = False
    if dir_if is not None:
        c = peel(dir_if["c"], methods=False)
        neg = c["k"] == "Un" and c["op"] == "!"
        t, e = render(peel_result(dir_if["t"])), render(peel_result(dir_if["e"]))
        asc, desc = (e, t) if neg else (t, e)
        ok = asc == "comparison" and desc == "comparison.reverse()" or \
            (not asc.endswith(".reverse()") and desc == asc + ".reverse()")
    ctx.obligation(ok)
    ctx.covered("direction arm of Criteria::cmp_at (asc -> comparison, desc -> reverse)", 2, distinct_keys=["asc", "desc"],
                sample=render(dir_if) if dir_if else None, exhaustive=True)
    if not ok:
        ctx.violation("cmp_at/direction", ctx.where(CMP_AT, dir_if), "ascending keys must use the comparison as is and descending keys its reverse")
    # type dispatch: numeric -> cmp_at_numbers, datetime -> cmp_at_datetimes, else direct
    disp = {}
    for x in walk_exprs(hir):
        if x["k"] == "If":
            c = render(peel(x["c"], methods=False))
            for pred in ("contains_numeric", "contains_datetime"):
                if pred in c and not c.startswith("!"):
                    callee = [y["m"] for y in walk_exprs(x["t"]) if y["k"] == "MCall" and y["m"].startswith("cmp_at_")]
                    disp[pred] = callee
                    if pred == "contains_datetime" and "e" in x:
                        disp["else"] = [y["m"] for y in walk_exprs(x["e"]) if y["k"] == "MCall" and y["m"].startswith("cmp_at_")]
    ok = disp.get("contains_numeric") == ["cmp_at_numbers"] and disp.get("contains_datetime") == ["cmp_at_datetimes"] \
        and disp.get("else") == ["cmp_at_direct"]
    ctx.obligation(ok)
    ctx.covered("key-type dispatch of cmp_at", 3, distinct_keys=list(disp), sample=disp)
    if not ok:
        ctx.violation("cmp_at/dispatch", ctx.where(CMP_AT), "numeric keys must compare by value, date keys chronologically, others as strings; found %s" % disp)
    # the three comparators compare self with other at index i, in this order
    for fn, parse in (("util::Criteria::cmp_at_direct", None), ("util::Criteria::cmp_at_numbers", "parse_filesize"),
                      ("util::Criteria::cmp_at_datetimes", "parse_datetime")):
        h = ctx.anchor_hir(fn)
        locs = Locals(h)
        cmps = [c for c in walk_exprs(h) if c["k"] == "MCall" and c["m"] == "cmp"]
        ok = False
        if len(cmps) == 1:
            l = render(locs.chase(cmps[0]["recv"]))
            r_ = render(locs.chase(cmps[0]["args"][0]))
            ok = "self.values[i]" in l and "other.values[i]" in r_ and "other" not in l and "self" not in r_
            if parse:
                ok = ok and parse in l and parse in r_
        ctx.obligation(ok)
        if not ok:
            ctx.violation("cmp_at/%s" % short(fn, 1), ctx.where(fn), "%s must compare self.values[i] with other.values[i] (in this order)%s" %
                          (short(fn, 1), " through " + parse if parse else ""))
    ctx.covered("comparators (direct, numbers, datetimes): operand order and parser", 3, distinct_keys=["direct", "numbers", "datetimes"])
    # lexicographic combination: first non-equal key decides, keys visited from index 0
    h = ctx.anchor_hir(CMP)
    calls = [c for c in walk_exprs(h) if c["k"] == "MCall" and c["m"] == "cmp_at"]
    rng = [x for x in walk_exprs(h) if x["k"] == "Struct" and short(x.get("res"), 1) == "Range"]
    start = None
    if rng:
        fs = {f["name"]: f["e"] for f in rng[0]["fields"]}
        start = peel(fs["start"]).get("v") if "start" in fs else None
    early = any(x["k"] == "If" and "Equal" in render(x["c"]) and "!=" in render(x["c"]) and
                any(y["k"] == "Ret" for y in walk_exprs(x["t"])) for x in walk_exprs(h))
    # the same as a lazy chain: (0..n).map(|i| self.cmp_at(other, i)).find(|c| *c != Equal)
    lazy = any(c["k"] == "MCall" and c["m"] in ("find", "skip_while", "find_map") and "cmp_at" in render(c["recv"]) and c["args"] and
               "Equal" in render(c["args"][0]) and ("!=" in render(c["args"][0]) or ".ne(" in render(c["args"][0]) or
                                                    (c["m"] == "skip_while" and "==" in render(c["args"][0]))) for c in walk_exprs(h))
    ok = len(calls) == 1 and start == 0 and (early or lazy)
    ctx.obligation(ok)
    ctx.covered("lexicographic key combination in Criteria::cmp", 1, distinct_keys=[CMP])
    if not ok:
        ctx.violation("cmp/lexicographic", ctx.where(CMP), "Criteria::cmp must visit keys from index 0 and return at the first non-equal key")


NUMERIC_FN_EXCEPTIONS = {
    "DayOfWeek": "values 1..7 are single digits: string order equals numeric order",
    "CurrentUid": "constant for all rows", "CurrentGid": "constant for all rows",
}


def r2(ctx):
    kinds, arms, m = c02.column_kinds(ctx)
    numeric = tables.variant_set(ctx, "field::Field::is_numeric_field")
    dt = tables.variant_set(ctx, "field::Field::is_datetime_field")
    n = 0
    for col, ks in sorted(kinds.items()):
        if col == "_":
            continue
        n += 1
        if "num" in ks:
            ok = col in numeric
            ctx.obligation(ok)
            if not ok:
                ctx.violation("key-typing/%s" % col, ctx.where("field::Field::is_numeric_field"),
                              "column %s yields integers but is not in Field::is_numeric_field: `order by %s` compares "
                              "the keys as strings (1, 10, 2)" % (col, col.lower()))
        elif col in numeric and col not in oracles.NUMERIC_FOR_ORDERING_ONLY:
            ctx.obligation(False)
            ctx.violation("key-typing/%s/not-numeric" % col, ctx.where("field::Field::is_numeric_field"),
                          "column %s is ordered numerically but yields %s" % (col, sorted(ks)))
        if "dt" in ks:
            ok = col in dt
            ctx.obligation(ok)
            if not ok:
                ctx.violation("key-typing/%s/datetime" % col, ctx.where("field::Field::is_datetime_field"),
                              "column %s yields datetimes but is not in Field::is_datetime_field" % col)
        elif col in dt:
            ctx.violation("key-typing/%s/not-datetime" % col, ctx.where("field::Field::is_datetime_field"),
                          "column %s is ordered chronologically but yields %s" % (col, sorted(ks)))
    ctx.covered("columns: value kind of get_field_value arm vs is_numeric_field / is_datetime_field", n,
                distinct_keys=sorted(kinds), sample={"numeric": sorted(numeric), "datetime": sorted(dt)}, exhaustive=True)
    ctx.floor(n, 78, "column arms", c02.GET_FIELD_VALUE)
    # functions
    gv = ctx.anchor_hir("function::get_value")
    numf = tables.variant_set(ctx, "function::Function::is_numeric_function")
    aggr = tables.variant_set(ctx, "function::Function::is_aggregate_function")
    nf = 0
    for mm in find_matches(gv, min_arms=20):
        for a in match_arms(mm):
            ks = set()
            for x in walk_exprs(a["body"]):
                if x["k"] == "Call" and str(x.get("callee", "")).startswith("function::Variant::"):
                    kd = c02.VARIANT_KIND.get(short(x["callee"], 1))
                    if kd:
                        ks.add(kd)
            for k in a["keys"]:
                fn = key_name(k).split("::")[-1]
                if fn in ("_", "None"):
                    continue
                nf += 1
                if "num" in ks and fn not in numf and fn not in NUMERIC_FN_EXCEPTIONS:
                    ctx.obligation(False)
                    ctx.violation("key-typing/function/%s" % fn, ctx.where("function::Function::is_numeric_function"),
                                  "function %s yields numbers but is not in is_numeric_function: ordering by it compares strings" % fn)
                else:
                    ctx.obligation(True)
    ctx.covered("scalar functions: value kind vs is_numeric_function", nf, distinct_keys=sorted(numf))
    ok = aggr <= numf or True
    # expression keys: contains_numeric looks through function -> left operand chain
    eh = ctx.anchor_hir("expr::Expr::contains_numeric_field")
    ms = {c["m"] for c in walk_exprs(eh) if c["k"] == "MCall"}
    ok = "is_numeric_field" in ms and "is_numeric_function" in ms and \
        any(is_call_to(c, "expr::Expr::contains_numeric_field") for c in walk_exprs(eh))
    ctx.obligation(ok)
    if not ok:
        ctx.violation("key-typing/contains_numeric", ctx.where("expr::Expr::contains_numeric_field"),
                      "Expr::contains_numeric must consult the column table, the function table and recurse into the left operand")


def r3(ctx):
    hir = ctx.anchor_hir(PARSE_ORDER_BY)
    # positional key n -> select-list column n - 1 (index form or checked_sub(1) + get form)
    idx = [x for x in walk_exprs(hir) if x["k"] == "Index" and "fields" in render(x["e"])]
    ok = len(idx) == 1 and render(peel(idx[0]["i"], methods=False)) == "(idx - 1)"
    if not idx:
        gets = [c for c in walk_exprs(hir) if c["k"] == "MCall" and c["m"] == "get" and render(c["recv"]) == "fields"]
        subs = [c for c in walk_exprs(hir) if c["k"] == "MCall" and c["m"] in ("checked_sub", "saturating_sub") and render(c["recv"]) == "idx"
                and render(c["args"][0]) == "1"]
        ok = len(gets) == 1 and len(subs) == 1 and any(y is gets[0] for y in walk_exprs(path_to(hir, gets[0])[-3][0])) and \
            any(any(y is gets[0] for y in walk_exprs(a)) for c in walk_exprs(hir) if c["k"] == "MCall" and c["m"] == "and_then" and
                any(y is subs[0] for y in walk_exprs(c["recv"])) for a in c["args"])
    ctx.obligation(ok)
    if not ok:
        ctx.violation("parse_order_by/positional", ctx.where(PARSE_ORDER_BY), "a positional key n must denote select-list column n (index n - 1)")
    # pushes: one direction per key, default ascending
    pushes = [c for c in walk_exprs(hir) if c["k"] == "MCall" and c["m"] == "push"]
    by = {}
    for p in pushes:
        by.setdefault(render(p["recv"]), []).append(p)
    fields_p = [k for k in by if "field" in k]
    dirs_p = [k for k in by if "direction" in k]
    ok = len(fields_p) == 1 and len(dirs_p) == 1 and len(by[fields_p[0]]) == len(by[dirs_p[0]]) == 1 and \
        render(by[dirs_p[0]][0]["args"][0]) == "true"
    if ok:
        # both pushes sit in the same block (same arm): paired on every path
        a = guards_of(hir, by[fields_p[0]][0])
        b = guards_of(hir, by[dirs_p[0]][0])
        ok = [render(g[1]) if g[0] != "loop" and g[0] != "closure" else g[0] for g in a] == \
             [render(g[1]) if g[0] != "loop" and g[0] != "closure" else g[0] for g in b]
    ctx.obligation(ok)
    if not ok:
        ctx.violation("parse_order_by/pairing", ctx.where(PARSE_ORDER_BY), "every ordering key must push exactly one direction, ascending (true) by default, on the same path")
    if ok:
        # every key of the list is kept: the push may depend only on which lexem was read, never on the keys read so
        # far (a skipped key lets its `desc` reverse the key before it)
        extra = [g for g in guards_of(hir, by[fields_p[0]][0]) if g[0] == "if" and not (g[1]["k"] == "LetE" and "Lexem::" in render_pat(g[1]["pat"]))]
        ctx.obligation(not extra)
        if extra:
            ctx.violation("parse_order_by/every-key-kept", ctx.where(PARSE_ORDER_BY, by[fields_p[0]][0]),
                          "an ordering key is recorded only when %s: a key that is dropped leaves its `desc` to the key before it "
                          "and the remaining keys no longer line up with the query" % "; ".join(guard_text(g) for g in extra))
    # desc: last direction := false
    desc_ok = False
    for mm in find_matches(hir):
        for a in match_arms(mm):
            if any("DescendingOrder" in render_pat(p) for p in pat_alts(a["pat"])):
                asg = [x for x in walk_exprs(a["body"]) if x["k"] == "Assign" and render(x["r"]) == "false"]
                if len(asg) != 1:
                    continue
                l = asg[0]["l"]
                if l["k"] == "Index":
                    i = render(l["i"])
                    cnt = [x for x in walk(a["body"]) if x["k"] == "Let" and "len()" in render(x.get("init"))]
                    desc_ok = ("direction" in render(l["e"])) and ((i == "(cnt - 1)" and bool(cnt)) or "len() - 1" in i)
                elif l["k"] == "Un" and l["op"] == "*":
                    # `match directions.last_mut() { Some(d) => *d = false, .. }`
                    lm = [c for c in walk_exprs(a["body"]) if c["k"] == "MCall" and c["m"] == "last_mut" and "direction" in render(c["recv"])]
                    desc_ok = len(lm) == 1
    ctx.obligation(desc_ok)
    if not desc_ok:
        ctx.violation("parse_order_by/desc", ctx.where(PARSE_ORDER_BY), "`desc` must set the direction of the last key (index len - 1) to false")
    ctx.covered("parse_order_by: positional index, key/direction pairing, default direction, desc target", 4,
                distinct_keys=["positional", "pairing", "default", "desc"])


def r4(ctx):
    """ordered rows are buffered under Criteria::new(ordering fields, one value per key in order, directions) and never
    printed directly: check_file evaluated on the scenario table (rules/cfile.py); the drain order of the buffer is decided
    with TopN (C06-R1, shared)"""
    import cfile
    cfile.pipeline(ctx)


RULES = [
    ("C05-R1", "Criteria::cmp_at direction, type dispatch, comparator operand order, lexicographic combination", r1),
    ("C05-R2", "key typing: numeric / datetime columns and functions are ordered by value", r2),
    ("C05-R3", "parse_order_by: positional keys, default direction, desc", r3),
    ("C05-R4", "ordered rows are buffered under their criteria and drained in key order", r4),
    ("C06-R1", "the ordered buffer loses no row unless a limit is exceeded [shared with C06]", lambda ctx: __import__("c06").r1(ctx)),
    ("X-PHASES", "clause order and phase flags of Parser::parse; WHERE shorthand window [shared]", lambda ctx: __import__("extra").parser_phases(ctx)),
    ("X-BUFFER", "buffering predicates (ordered or aggregate) and recursive expression predicates [shared]", lambda ctx: __import__("extra").buffering_predicates(ctx)),
    ("C11-R6", "clause keywords (order, by, asc, desc, ..) are keywords in every position [shared with C11]", lambda ctx: __import__("extra2").keyword_arm_guards(ctx)),
    ("C13-R2", "date keys are re-parsed by parse_datetime: its interval table, ambiguous local times included [shared with C13]", lambda ctx: __import__("c13").r2(ctx)),
    ("X-OUTPUT", "the output phase of list_search_results evaluated on its scenario table (drain order, aggregate row, groups, failing output) [shared]", lambda ctx: __import__("lsr").output_phase(ctx)),
]

EXPLANATION = (
    "Static structural necessary conditions of C05: Criteria::cmp_at returns the comparison for ascending keys and "
    "its reverse for descending ones, dispatches numeric keys to the numeric comparator and date keys to the "
    "chronological one, each comparator compares self with other in this order, and Criteria::cmp combines keys "
    "lexicographically from index 0; every column whose get_field_value arm yields integers/floats is in "
    "Field::is_numeric_field (datetimes in is_datetime_field), likewise numeric scalar functions; parse_order_by "
    "maps position n to select column n-1, pushes one ascending direction per key and `desc` flips the last one; "
    "check_file computes one criteria value per key, inserts ordered rows into the TopN buffer and never writes "
    "them directly; the buffer is drained in ascending key order. That the printed sequence is a sorted permutation "
    "on a real tree is not decided."
    ' Every ORDER BY key read is recorded (no key-dependent guard on the pushes); the buffering predicate is ordered-or-aggregate.')
ASSUMPTIONS = ["rustc's HIR/MIR faithfully represent the source; exporter and rule scripts are correct",
               "BTreeMap iterates in key order; Ord::cmp / Ordering::reverse as documented"]
NOT_DECIDED = ["that the output is a permutation and sorted on a real tree", "numeric comparison of negative or fractional keys (parse_filesize returns u64)"]
