"""C05 — ORDER BY output is sorted by the requested keys (static necessary conditions)."""
from hirq import *  # noqa: F401,F403
import oracles
import tables
import c02
from core import Abort

CMP_AT = "util::Criteria::cmp_at"
CMP = "<util::Criteria<T> as core::cmp::Ord>::cmp"
PARSE_ORDER_BY = "parser::Parser::parse_order_by"
CHECK_FILE = "searcher::Searcher::check_file"


def r1(ctx):
    """the ordering of two buffer keys: `<Criteria as Ord>::cmp` evaluated (finite interpreter, crate calls interpreted; the
    key-type predicates, parse_filesize and parse_datetime answer by contract) for every key kind (text, numeric, date) x
    direction x all orderings of two values, for two-key combinations and for keys of different length"""
    import interp
    from extra import _expr_dict
    h = ctx.anchor_hir(CMP)
    ps = ctx.prog.fns[CMP]["params"]
    n = 0
    seen = set()

    def bad(key, msg):
        if key not in seen:
            seen.add(key)
            ctx.violation(key, ctx.where(CMP), msg)

    clock = [0]

    def call(node, recv, args, it, env):
        callee = str(node.get("callee", ""))
        m = node.get("m")
        if m in ("contains_numeric", "contains_datetime") and isinstance(recv, dict) and "__kind" in recv:
            return (recv["__kind"] in (("numeric", "numeric+date") if m == "contains_numeric" else ("date", "numeric+date")),)
        if callee.endswith("parse_filesize") and args and isinstance(args[0], str):
            return (interp.some(int(args[0])) if args[0].isdigit() else interp.NONE,)
        if callee.endswith("parse_datetime") and args and isinstance(args[0], str):
            if args[0].startswith("d") and args[0][1:].isdigit():
                return (interp.V("Result::Ok", [(int(args[0][1:]), int(args[0][1:]))]),)
            return (interp.V("Result::Err", ["no date"]),)
        # the default instant of an unparsable date (1970-01-01 00:00:00, however it is built) is the integer 0
        if "NaiveDate" in callee or m in ("and_hms_opt", "and_hms", "and_time"):
            return (interp.some(0) if (m or callee).endswith("_opt") else 0,)
        if callee.endswith("Local::now") or callee.endswith("Utc::now"):
            # every reading of the clock is a later instant: an "epoch" built from now() with year .. second overwritten keeps
            # the sub-second part of that reading, so two of them are different instants unless the fraction is cleared too
            clock[0] += 1
            return (clock[0] * 1e-9,)
        if m in ("naive_local", "naive_utc") and isinstance(recv, float):
            return (recv,)
        if m in ("with_year", "with_month", "with_day", "with_hour", "with_minute", "with_second") and isinstance(recv, (int, float)) and not isinstance(recv, bool) and recv < 1:
            return (interp.some(recv),)
        if m == "with_nanosecond" and isinstance(recv, (int, float)) and not isinstance(recv, bool) and recv < 1:
            return (interp.some(0),)
        return None

    def key(kind):
        # `text:Path`: a text key that is the bare column Path (its value is still compared as text, byte by byte)
        d = _expr_dict(interp) if ":" not in kind else _expr_dict(interp, field=interp.some(interp.V("Field::" + kind.split(":")[1])))
        d["__kind"] = kind.split(":")[0]
        return d

    def crit(kinds, values, asc):
        return {"fields": [key(k) for k in kinds], "values": list(values), "orderings": list(asc)}

    def run(a, b):
        r = interp.Interp(call=call, prog=ctx.prog, max_steps=40000).run(h, {ps[0]["id"]: a, ps[1]["id"]: b})
        if isinstance(r, interp.V) and r.name.startswith("Ordering::") or (isinstance(r, interp.V) and "Ordering::" in r.name):
            return {"Less": -1, "Equal": 0, "Greater": 1}[r.name.rsplit("::", 1)[-1]]
        raise interp.Undecided("not an Ordering: %r" % (r,))
    sgn = lambda x: (x > 0) - (x < 0)
    domains = {"text": (["10", "2", "b"], lambda v: v), "numeric": (["10", "2", "x"], lambda v: int(v) if v.isdigit() else 0),
               # (`x`: a key of the date kind that is not a date - an empty exif_datetime, say - sorts as the epoch, and equal to
               # another such key: the ordered buffer looks its keys up by this comparison)
               "date": (["d10", "d2", "d7", "x"], lambda v: int(v[1:]) if v[1:].isdigit() else 0),
               # an expression with a numeric and a date part (`size + modified`) is ordered by value, as the numeric kind
               "numeric+date": (["10", "2", "x"], lambda v: int(v) if v.isdigit() else 0)}
    # text keys that are real columns, on values whose byte order differs from their order as paths / numbers / words
    for col in ("Path", "AbsPath", "Directory", "AbsDir", "Name", "Extension", "User"):
        domains["text:" + col] = (["pkg", "pkg.d", "pkg/x", "Pkg", "pkg x"], lambda v: v.encode())
    try:
        for kind, (vals, keyf) in domains.items():
            for asc in (True, False):
                for x in vals:
                    for y in vals:
                        got = run(crit([kind], [x], [asc]), crit([kind], [y], [asc]))
                        kx, ky = keyf(x), keyf(y)
                        want = sgn((kx > ky) - (kx < ky)) * (1 if asc else -1)
                        n += 1
                        ok = got == want
                        ctx.obligation(ok)
                        if not ok:
                            sub = "direction" if got == -want and want != 0 else ("dispatch" if kind != "text" else "cmp_at_direct")
                            bad("cmp_at/%s" % (sub if sub != "dispatch" else ("cmp_at_numbers" if kind.startswith("numeric") else "cmp_at_datetimes")),
                                "a %s key in %s order: comparing `%s` with `%s` gives %s, expected %s (numeric keys compare by value, date keys chronologically, "
                                "others as text; descending keys reverse the comparison; self is compared with other in this order)" %
                                (kind, "ascending" if asc else "descending", x, y, got, want))
        # lexicographic combination from key 0; the shorter key list is smaller when all common keys agree
        for (a, b, want, what) in (((["text", "numeric"], ["a", "2"], [True, True]), (["text", "numeric"], ["a", "10"], [True, True]), -1, "first keys equal, second decides"),
                                   ((["text", "numeric"], ["b", "2"], [True, True]), (["text", "numeric"], ["a", "10"], [True, True]), 1, "first key decides"),
                                   ((["text", "numeric"], ["a", "2"], [True, False]), (["text", "numeric"], ["a", "10"], [True, False]), 1, "second key descending"),
                                   ((["numeric", "text"], ["2", "z"], [False, True]), (["numeric", "text"], ["10", "a"], [False, True]), 1, "first key descending decides"),
                                   ((["text", "text"], ["a", "b"], [True, True]), (["text", "text"], ["a", "b"], [True, True]), 0, "all keys equal"),
                                   ((["text"], ["a"], [True]), (["text", "text"], ["a", "b"], [True, True]), -1, "fewer keys")):
            got = run(crit(*a), crit(*b))
            n += 1
            ok = got == want
            ctx.obligation(ok)
            if not ok:
                bad("cmp/lexicographic", "Criteria::cmp must visit keys from index 0 and return at the first non-equal key (%s): %s vs %s gives %s, expected %s" % (what, a[1], b[1], got, want))
    except interp.Undecided as e:
        ctx.obligation(False)
        bad("cmp_at/unreadable", "cannot evaluate the comparison of two buffer keys: %s" % e)
    ctx.covered("Criteria::cmp evaluated: 3 key kinds x 2 directions x 9 value pairs, 6 key combinations", n,
                distinct_keys=["text", "numeric", "date", "asc", "desc", "lexicographic"], exhaustive=True)
    ctx.floor(n, 50, "comparisons of buffer keys", CMP)


NUMERIC_FN_EXCEPTIONS = {
    "DayOfWeek": "values 1..7 are single digits: string order equals numeric order",
    "CurrentUid": "constant for all rows", "CurrentGid": "constant for all rows",
}


def r2(ctx):
    kinds, arms, m = c02.column_kinds(ctx)
    numeric = tables.variant_set(ctx, "field::Field::is_numeric_field")
    dt = tables.variant_set(ctx, "field::Field::is_datetime_field")
    n = 0
    for col, ks in sorted(kinds.items()):
        if col == "_":
            continue
        n += 1
        if "num" in ks:
            ok = col in numeric
            ctx.obligation(ok)
            if not ok:
                ctx.violation("key-typing/%s" % col, ctx.where("field::Field::is_numeric_field"),
                              "column %s yields integers but is not in Field::is_numeric_field: `order by %s` compares "
                              "the keys as strings (1, 10, 2)" % (col, col.lower()))
        elif col in numeric and col not in oracles.NUMERIC_FOR_ORDERING_ONLY:
            ctx.obligation(False)
            ctx.violation("key-typing/%s/not-numeric" % col, ctx.where("field::Field::is_numeric_field"),
                          "column %s is ordered numerically but yields %s" % (col, sorted(ks)))
        if "dt" in ks:
            ok = col in dt
            ctx.obligation(ok)
            if not ok:
                ctx.violation("key-typing/%s/datetime" % col, ctx.where("field::Field::is_datetime_field"),
                              "column %s yields datetimes but is not in Field::is_datetime_field" % col)
        elif col in dt:
            ctx.violation("key-typing/%s/not-datetime" % col, ctx.where("field::Field::is_datetime_field"),
                          "column %s is ordered chronologically but yields %s" % (col, sorted(ks)))
    ctx.covered("columns: value kind of get_field_value arm vs is_numeric_field / is_datetime_field", n,
                distinct_keys=sorted(kinds), sample={"numeric": sorted(numeric), "datetime": sorted(dt)}, exhaustive=True)
    ctx.floor(n, 78, "column arms", c02.GET_FIELD_VALUE)
    # functions
    gv = ctx.anchor_hir("function::get_value")
    numf = tables.variant_set(ctx, "function::Function::is_numeric_function")
    aggr = tables.variant_set(ctx, "function::Function::is_aggregate_function")
    nf = 0
    for mm in find_matches(gv, min_arms=20):
        for a in match_arms(mm):
            ks = set()
            for x in walk_exprs(a["body"]):
                if x["k"] == "Call" and str(x.get("callee", "")).startswith("function::Variant::"):
                    kd = c02.VARIANT_KIND.get(short(x["callee"], 1))
                    if kd:
                        ks.add(kd)
            for k in a["keys"]:
                fn = key_name(k).split("::")[-1]
                if fn in ("_", "None"):
                    continue
                nf += 1
                if "num" in ks and fn not in numf and fn not in NUMERIC_FN_EXCEPTIONS:
                    ctx.obligation(False)
                    ctx.violation("key-typing/function/%s" % fn, ctx.where("function::Function::is_numeric_function"),
                                  "function %s yields numbers but is not in is_numeric_function: ordering by it compares strings" % fn)
                else:
                    ctx.obligation(True)
    ctx.covered("scalar functions: value kind vs is_numeric_function", nf, distinct_keys=sorted(numf))
    ok = aggr <= numf or True
    # expression keys: Expr::contains_numeric / contains_datetime evaluated (finite interpreter) on key shapes: a column, a
    # function of a column, arithmetic over them - numeric exactly when the key's value is a number
    import interp
    import extra
    some = interp.some
    E = lambda **kw: extra._expr_dict(interp, **kw)
    col = lambda c: E(field=some(interp.V("Field::" + c)))
    fn_ = lambda f, a: E(function=some(interp.V("Function::" + f)), left=some(a))
    plus = lambda a: E(left=some(a), arithmetic_op=some(interp.V("ArithmeticOp::Add")), right=some(E(val=some("1"))))
    shapes = {"size": (col("Size"), True, False), "name": (col("Name"), False, False), "modified": (col("Modified"), False, True),
              "length(name)": (fn_("Length", col("Name")), True, False), "lower(name)": (fn_("Lower", col("Name")), False, False),
              "size + 1": (plus(col("Size")), True, False), "length(name) + 1": (plus(fn_("Length", col("Name"))), True, False),
              "abs(size)": (fn_("Abs", col("Size")), True, False), "uid": (col("Uid"), True, False), "is_dir": (col("IsDir"), False, False),
              "accessed": (col("Accessed"), False, True), "created": (col("Created"), False, True)}
    nb = 0
    for which, idx in (("expr::Expr::contains_numeric", 1), ("expr::Expr::contains_datetime", 2)):
        if which not in ctx.prog.fns:
            ctx.obligation(False)
            ctx.violation("key-typing/%s" % short(which, 1), "expr.rs", "%s no longer exists: the ordering's choice of a comparison cannot be read; failing closed" % which)
            continue
        eh = ctx.anchor_hir(which)
        pid = ctx.prog.fns[which]["params"][0]["id"]
        for label, sh in shapes.items():
            want = sh[idx]
            try:
                got = interp.Interp(prog=ctx.prog, max_steps=10000).run(eh, {pid: sh[0]})
            except interp.Undecided as e:
                got = "unreadable (%s)" % e
            nb += 1
            ok = got == want
            ctx.obligation(ok)
            if not ok:
                ctx.violation("key-typing/%s" % short(which, 1), ctx.where(which),
                              "an ordering key `%s` is %s %s, but %s gives %s: its values would be compared the wrong way" %
                              (label, "" if want else "not", "a number" if idx == 1 else "a date", short(which, 1), got))
                break
    ctx.covered("contains_numeric / contains_datetime evaluated on 12 key shapes (columns, functions, arithmetic)", nb, distinct_keys=sorted(shapes), exhaustive=True)


def r3(ctx):
    """parse_order_by evaluated (finite interpreter; the parser's cursor is its lexem list and index, parse_expr is a stand-in
    that takes one lexem and returns a tagged expression) on the shapes an ORDER BY clause can take over a select list of
    three columns: a positional key n denotes select-list column n, every key is kept with one direction (ascending by
    default), `desc` flips the key just before it, a position outside 1..3 and a `desc` without a key are errors, an absent
    clause leaves the cursor where it was"""
    import interp
    import norm
    V = interp.V
    hir = ctx.anchor_hir(PARSE_ORDER_BY)
    ps = ctx.prog.fns[PARSE_ORDER_BY]["params"]
    tys = norm.param_types(ctx.prog.fns[PARSE_ORDER_BY].get("sig"))
    self_p = [p_["id"] for p_, t_ in zip(ps, tys) if "Parser" in t_]
    fields_p = [p_["id"] for p_, t_ in zip(ps, tys) if "Expr" in t_]
    if len(self_p) != 1 or len(fields_p) != 1:
        ctx.obligation(False)
        ctx.violation("parse_order_by/unreadable", ctx.where(PARSE_ORDER_BY), "parse_order_by no longer takes the parser and the select list: %s" % tys)
        return
    R, ORDER, BY, DESC, COMMA, LIMIT = (lambda t: V("Lexem::RawString", [t])), V("Lexem::Order"), V("Lexem::By"), V("Lexem::DescendingOrder"), V("Lexem::Comma"), V("Lexem::Limit")
    F = [{"__expr": "col%d" % i} for i in (1, 2, 3)]
    E = lambda t: {"__expr": t}
    shapes = [
        ("no clause", [], ([], []), 0),
        ("another clause", [LIMIT, R("5")], ([], []), 0),
        ("one key", [ORDER, BY, R("name")], ([E("name")], [True]), None),
        ("one key desc", [ORDER, BY, R("name"), DESC], ([E("name")], [False]), None),
        ("positions 2 desc, 1", [ORDER, BY, R("2"), DESC, COMMA, R("1")], ([F[1], F[0]], [False, True]), None),
        ("position 3", [ORDER, BY, R("3")], ([F[2]], [True]), None),
        ("three keys, middle desc", [ORDER, BY, R("name"), COMMA, R("size"), DESC, COMMA, R("3")], ([E("name"), E("size"), F[2]], [True, False, True]), None),
        ("same key twice, second desc", [ORDER, BY, R("name"), COMMA, R("name"), DESC], ([E("name"), E("name")], [True, False]), None),
        ("first of two desc", [ORDER, BY, R("name"), DESC, COMMA, R("size")], ([E("name"), E("size")], [False, True]), None),
        ("followed by LIMIT", [ORDER, BY, R("name"), LIMIT, R("5")], ([E("name")], [True]), 3),
        ("position 0", [ORDER, BY, R("0")], "err", None),
        ("position 4", [ORDER, BY, R("4")], "err", None),
        ("desc without a key", [ORDER, BY, DESC], "err", None),
    ]
    n = 0
    for label, lexems, want, want_index in shapes:
        selfv = interp.LazySelf({"lexems": list(lexems), "index": 0, "roots_parsed": True, "where_parsed": True})

        def call(node, recv, args, it, env, selfv=selfv):
            m_ = node.get("m")
            callee = str(node.get("callee", ""))
            if m_ == "parse_expr" or callee.endswith("Parser::parse_expr"):
                i = selfv["index"]
                if i < len(selfv["lexems"]) and selfv["lexems"][i].name in ("Lexem::RawString", "Lexem::String"):
                    selfv["index"] = i + 1
                    return (V("Result::Ok", [interp.some({"__expr": selfv["lexems"][i].args[0]})]),)
                return (V("Result::Err", ["Error parsing expression"]),)
            if m_ in ("clone", "to_owned") and isinstance(recv, dict) and "__expr" in recv:
                return (recv,)
            return None
        try:
            got = interp.Interp(call=call, prog=ctx.prog, max_steps=20000).run(hir, {self_p[0]: selfv, fields_p[0]: list(F)})
        except interp.Undecided as e:
            ctx.obligation(False)
            ctx.violation("parse_order_by/unreadable", ctx.where(PARSE_ORDER_BY), "cannot evaluate parse_order_by on `%s` %s: %s" % (label, lexems, e))
            return
        n += 1
        if isinstance(got, V) and got.name == "Result::Err":
            g = "err"
        elif isinstance(got, V) and got.name == "Result::Ok" and isinstance(got.args[0], tuple) and len(got.args[0]) == 2:
            g = (list(got.args[0][0]), list(got.args[0][1]))
        else:
            g = ("?", got)
        ok = g == want and (want_index is None or selfv["index"] == want_index)
        ctx.obligation(ok)
        if not ok:
            key = {"position 0": "positional", "position 4": "positional", "positions 2 desc, 1": "positional", "position 3": "positional",
                   "desc without a key": "desc", "one key desc": "desc", "first of two desc": "desc", "three keys, middle desc": "desc",
                   "same key twice, second desc": "every-key-kept", "no clause": "absent", "another clause": "absent", "followed by LIMIT": "absent"}.get(label, "pairing")
            ctx.violation("parse_order_by/%s" % key, ctx.where(PARSE_ORDER_BY),
                          "ORDER BY clause `%s` over the select list (col1, col2, col3): lexems %s give %s%s, expected %s: a positional key n denotes column n, every key is kept "
                          "with one direction, ascending unless `desc` follows it" %
                          (label, lexems, g, " (cursor left at %s)" % selfv["index"] if want_index is not None else "", want))
    ctx.covered("parse_order_by evaluated on 13 clause shapes (positional keys, directions, errors, cursor)", n, distinct_keys=[s_[0] for s_ in shapes], exhaustive=True)
    ctx.floor(n, 13, "ORDER BY clause shapes", PARSE_ORDER_BY)


def r4(ctx):
    """ordered rows are buffered under Criteria::new(ordering fields, one value per key in order, directions) and never
    printed directly: check_file evaluated on the scenario table (rules/cfile.py); the drain order of the buffer is decided
    with TopN (C06-R1, shared)"""
    import cfile
    cfile.pipeline(ctx)


RULES = [
    ("C05-R1", "Criteria::cmp_at direction, type dispatch, comparator operand order, lexicographic combination", r1),
    ("C05-R2", "key typing: numeric / datetime columns and functions are ordered by value", r2),
    ("C05-R3", "parse_order_by: positional keys, default direction, desc", r3),
    ("C05-R4", "ordered rows are buffered under their criteria and drained in key order", r4),
    ("C06-R1", "the ordered buffer loses no row unless a limit is exceeded [shared with C06]", lambda ctx: __import__("c06").r1(ctx)),
    ("X-PHASES", "clause order and phase flags of Parser::parse; WHERE shorthand window [shared]", lambda ctx: __import__("extra").parser_phases(ctx)),
    ("X-BUFFER", "buffering predicates (ordered or aggregate) and recursive expression predicates [shared]", lambda ctx: __import__("extra").buffering_predicates(ctx)),
    ("C11-R6", "clause keywords (order, by, asc, desc, ..) are keywords in every position [shared with C11]", lambda ctx: __import__("extra2").keyword_arm_guards(ctx)),
    ("C13-R2", "date keys are re-parsed by parse_datetime: its interval table, ambiguous local times included [shared with C13]", lambda ctx: __import__("c13").r2(ctx)),
    ("X-OUTPUT", "the output phase of list_search_results evaluated on its scenario table (drain order, aggregate row, groups, failing output) [shared]", lambda ctx: __import__("lsr").output_phase(ctx)),
]

EXPLANATION = (
    "Static structural necessary conditions of C05: Criteria::cmp_at returns the comparison for ascending keys and "
    "its reverse for descending ones, dispatches numeric keys to the numeric comparator and date keys to the "
    "chronological one, each comparator compares self with other in this order, and Criteria::cmp combines keys "
    "lexicographically from index 0; every column whose get_field_value arm yields integers/floats is in "
    "Field::is_numeric_field (datetimes in is_datetime_field), likewise numeric scalar functions; parse_order_by "
    "maps position n to select column n-1, pushes one ascending direction per key and `desc` flips the last one; "
    "check_file computes one criteria value per key, inserts ordered rows into the TopN buffer and never writes "
    "them directly; the buffer is drained in ascending key order. That the printed sequence is a sorted permutation "
    "on a real tree is not decided."
    ' Every ORDER BY key read is recorded (no key-dependent guard on the pushes); the buffering predicate is ordered-or-aggregate.')
ASSUMPTIONS = ["rustc's HIR/MIR faithfully represent the source; exporter and rule scripts are correct",
               "BTreeMap iterates in key order; Ord::cmp / Ordering::reverse as documented"]
NOT_DECIDED = ["that the output is a permutation and sorted on a real tree", "numeric comparison of negative or fractional keys (parse_filesize returns u64)"]
