"""More second-line rules, each written after an independent seeded change showed a clause of a property to be decided by
a place no rule was reading.  Each is stated as a necessary condition of its property, not as a match of the change."""
import re

from hirq import *  # noqa: F401,F403


def lexer_reads_characters(ctx):
    """the lexer walks the query by characters: the current character comes from `chars()`; a byte-wise read
    (`as_bytes`, `bytes()`, `u8 as char`) splits every non-ASCII character of a literal into bytes"""
    name = "lexer::Lexer::next_lexem"
    h = ctx.anchor_hir(name)
    n = 0
    bad = []
    for x in walk_exprs(h):
        if x["k"] == "MCall" and x["m"] in ("as_bytes", "bytes", "into_bytes", "as_bytes_mut"):
            bad.append((x, "`%s`" % render(x)[:60]))
        if x["k"] == "Cast" and str(x.get("ty")) == "char" and str(peel(x["e"]).get("ty", "")).lstrip("&") == "u8":
            bad.append((x, "`%s` (a byte read as a character)" % render(x)[:60]))
        if x["k"] == "Index" and str(peel(x["e"]).get("ty", "")).replace("&", "").replace("mut ", "").strip() in ("str", "alloc::string::String"):
            bad.append((x, "`%s` (byte-offset slicing of the query text)" % render(x)[:60]))
    src = [c for c in walk_exprs(h) if c["k"] == "MCall" and c["m"] == "chars"]
    n += 1
    ok = not bad and bool(src)
    ctx.obligation(ok)
    for x, what in bad[:3]:
        ctx.violation("lexer/byte-wise", ctx.where(name, x), "the lexer reads the query byte-wise through %s: every non-ASCII character of a literal or pattern "
                      "(`name = 'café.txt'`) reaches the comparison as separate bytes" % what)
    if not bad and not src:
        ctx.violation("lexer/byte-wise", ctx.where(name), "the lexer no longer takes its characters from `chars()`")
    ctx.covered("character source of the lexer (chars(), no byte-wise access)", n + len(src), distinct_keys=["chars:%d" % len(src)])


def comparison_branch(h):
    """(body, ids bound to the operator) of the part of conforms that handles a comparison: the then-branch of
    `if let Some(op) = expr.op`, the Some arm of `match expr.op`, or what follows `let Some(op) = expr.op else { .. }`"""
    for x in walk_exprs(h):
        if x["k"] == "If" and x["c"]["k"] == "LetE" and render(peel(x["c"]["init"])).endswith("expr.op") and "Some" in render_pat(x["c"]["pat"]):
            return x["t"], set(pat_binders(x["c"]["pat"]))
        if x["k"] == "Match" and x.get("src") == "Normal" and render(peel(x["scrut"])).endswith("expr.op"):
            for a in x["arms"]:
                if "Some" in render_pat(a["pat"]) and pat_binders(a["pat"]):
                    return a["body"], set(pat_binders(a["pat"]))
    for b in walk(h):
        if b["k"] == "Block":
            for i, st in enumerate(b["stmts"]):
                if st["k"] == "Let" and st.get("els") is not None and st.get("init") is not None and render(peel(st["init"])).endswith("expr.op") and \
                        "Some" in render_pat(st["pat"]):
                    rest = {"k": "Block", "sp": b.get("sp", "?"), "stmts": b["stmts"][i + 1:], "synthetic": True}
                    if "expr" in b:
                        rest["expr"] = b["expr"]
                    return rest, set(pat_binders(st["pat"]))
    return None, set()


def comparison_is_operator_dependent(ctx):
    """in the comparison branch of conforms every outcome is produced by the operator table: a result returned before the
    dispatch on `op` (e.g. `if value is empty { return false }`) makes `A` and `not A` both false for the same entry"""
    name = "searcher::Searcher::conforms"
    h = ctx.anchor_hir(name)
    # by evaluation (rules/conf.py): a comparison and the same comparison under the opposite operator never agree, whatever
    # the column holds (text, empty text, a number, a boolean), whether the literal has wildcards, and whatever the regex says
    import conf
    import interp
    run = conf.Run(ctx)
    pairs = (("Eq", "Ne"), ("Eeq", "Ene"), ("Gt", "Lte"), ("Gte", "Lt"), ("Rx", "NotRx"), ("Like", "NotLike"))
    lefts = {"text": (conf.variant("a.txt"), ("a.txt", "*.txt", "a%")), "empty text": (conf.variant(""), ("", "*.txt", "x")),
             "integer": (conf.variant("5", "Int", int_value=5, float_value=5.0), ("5", "7")), "float": (conf.variant("2.5", "Float", int_value=2, float_value=2.5), ("2.5", "1")),
             "boolean": (conf.variant("true", "Bool", bool_value=True), ("true", "false"))}
    ne = 0
    agree = None
    unread = None
    for kind, (left, lits) in lefts.items():
        for lit in lits:
            for a, b in pairs:
                if kind in ("integer", "float", "boolean") and a in ("Rx", "Like"):
                    continue
                if kind in ("boolean", "text", "empty text") and a in ("Gt", "Gte"):
                    continue        # ordering is defined for numbers and dates only (C02: text compares by equality or pattern)
                for matched in (False, True):
                    for glob in ((True, False) if ("*" in lit or "?" in lit) else (False,)):
                        try:
                            ra, _t = run.run(a, dict(left), conf.variant(lit), matched=matched, is_glob=glob)
                            rb, _t = run.run(b, dict(left), conf.variant(lit), matched=matched, is_glob=glob)
                        except interp.Undecided as e:
                            unread = unread or "%s %s `%s`: %s" % (kind, a, lit, e)
                            continue
                        ne += 1
                        if isinstance(ra, bool) and isinstance(rb, bool) and ra == rb and agree is None:
                            agree = "a column holding %s (`%s`) compared with `%s`%s: %s gives %s and %s gives %s too" % (
                                kind, left["string_value"], lit, " (regex verdict %s)" % matched if a in ("Rx", "Like", "Eq") else "", a, ra, b, rb)
    ctx.obligation(agree is None)
    if agree:
        ctx.violation("conforms/operator-independent-result", ctx.where(name),
                      "a comparison and the same comparison under the opposite operator must never agree (NOT is the complement): %s" % agree)
    ctx.covered("pairs of opposite operators evaluated on text / empty text / number / boolean columns x literals x regex verdicts (never the same answer)", ne,
                distinct_keys=[a for a, _b in pairs], exhaustive=True)
    ctx.floor(ne, 100, "opposite-operator evaluations of conforms", name)
    body, op_ids = comparison_branch(h)
    if body is None or unread is None and not [m_ for m_ in walk_exprs(body) if m_["k"] == "Match" and any(y["k"] == "Path" and y.get("res") in op_ids for y in walk_exprs(m_["scrut"]))]:
        # the comparison branch is not written as a dispatch on the operator that the structural part below could read: the
        # evaluation above stands alone, provided it covered every scenario
        if unread:
            ctx.obligation(False)
            ctx.violation("anchor/comparison-branch", name, "the comparison branch of conforms is neither a readable dispatch on the operator nor evaluable: %s" % unread)
        return
    br = {"t": body}
    n = 0
    for x in walk_exprs(br["t"]):
        if x["k"] != "Ret":
            continue
        gs = guards_of(br["t"], x) or []
        under_op = any(g[0] == "match" and any(y["k"] == "Path" and y.get("res") in op_ids for y in walk_exprs(g[1])) for g in gs)
        n += 1
        ctx.obligation(under_op)
        if not under_op:
            ctx.violation("conforms/operator-independent-result", ctx.where(name, x),
                          "conforms returns `%s` under `%s` without looking at the operator: for such an entry `A` and `not A` (the same "
                          "comparison with the opposite operator) get the same answer, so NOT is no longer the complement" %
                          (render(x.get("e")), "; ".join(guard_text(g) for g in gs if g[0] == "if")[:160]))
    asg = [x for x in walk_exprs(br["t"]) if x["k"] == "Assign" and render(x["l"]) == "result"]
    ctx.covered("results of the comparison branch of conforms produced under the dispatch on the operator", n + len(asg), distinct_keys=["returns:%d" % n])
    tables_ = [m for m in walk_exprs(br["t"]) if m["k"] == "Match" and any(y["k"] == "Path" and y.get("res") in op_ids for y in walk_exprs(m["scrut"]))]
    ctx.floor(len(tables_), 1, "dispatch on the operator inside the comparison branch of conforms", name)


def read_amount_used(ctx):
    """every `Read::read(&mut buf)` in the content readers uses the number of bytes read to bound the data it looks at
    (`&buf[..n]`); with the count discarded, the tail of the buffer still holds bytes of the previous chunk"""
    n = 0
    for name in sorted(ctx.prog.fns):
        if not name.startswith("util::") or "{closure" in name:
            continue
        h = ctx.prog.hir(name)
        if h is None:
            continue
        for c in walk_exprs(h):
            if c["k"] == "MCall" and c["m"] == "read" and len(c["args"]) == 1 and "Read" in str(c.get("callee", "")):
                n += 1
                buf = render(peel(c["args"][0]))
                chain = path_to(h, c) or []
                bound = []
                for anc, key in reversed(chain):
                    if anc["k"] == "Match" and key == "scrut":
                        for a in anc["arms"]:
                            if "Result::Ok" in render_pat(a["pat"]):
                                bs = pat_binders(a["pat"])
                                lit = any(y["k"] == "PLit" for y in walk(a["pat"]))
                                bound.append((bs, a["body"], lit))
                        break
                    if anc["k"] == "LetE" and key == "init":
                        bound.append((pat_binders(anc["pat"]), None, False))
                        break
                    if anc["k"] == "Let" and key == "init":
                        bound.append((pat_binders(anc["pat"]), None, False))
                        break
                # whole-buffer uses of the same buffer anywhere in the function
                whole = [y for y in walk_exprs(h) if y["k"] in ("Call", "MCall") and y is not c and
                         any(render(peel(a_)) == buf for a_ in (y["args"] if y["k"] == "Call" else y["args"])) and
                         (y["k"] == "Call" or y["m"] not in ("read", "fill", "len", "clear"))]
                unbound = [b for b in bound if not b[0] and not b[2]]
                ok = not (whole and (unbound or not bound))
                ctx.obligation(ok)
                if not ok:
                    ctx.violation("read-amount/%s" % short(name, 1), ctx.where(name, c),
                                  "the number of bytes returned by `%s` is discarded and `%s` is then examined whole (%s): after a short "
                                  "read the rest of the buffer still holds the previous chunk" % (render(c)[:50], buf, render(whole[0])[:60]))
    ctx.covered("Read::read calls in util:: whose byte count bounds the examined data", n, distinct_keys=["reads:%d" % n])


GUARD_OK = {
    "not": {"self.after_where"},
}


def keyword_arm_guards(ctx):
    """clause keywords are keywords wherever they stand: the lexer's arms for order / by / asc / desc / limit / into / from /
    where carry no context guard (only the reviewed ones: `not` after WHERE, operator words in expression context)"""
    import tables
    name = "lexer::Lexer::next_lexem"
    h = ctx.anchor_hir(name)
    m = tables.string_match(h, 8)
    if m is None:
        ctx.violation("anchor/keyword-table", name, "keyword table of the lexer not found")
        return
    n = 0
    plain = {"from", "where", "order", "by", "asc", "desc", "limit", "into", "group", "and", "or"}
    for a in m["arms"]:
        words = [str(p["v"]) for p in pat_alts(a["pat"]) if p["k"] == "PLit" and p.get("lk") == "str"]
        g = a.get("guard")
        for w in words:
            if w not in plain:
                continue
            n += 1
            ok = g is None
            ctx.obligation(ok)
            if not ok:
                ctx.violation("lexer/keyword-guard/%s" % w, ctx.where(name, g),
                              "the keyword `%s` is a keyword only under `%s`: where the guard fails it is lexed as a plain word, so a query "
                              "spelled with the clause in another (documented) position silently means something else" % (w, render(g)[:80]))
    ctx.covered("clause keyword arms of the lexer without a context guard", n, distinct_keys=sorted(plain))
    ctx.floor(n, 9, "clause keyword arms", name)


def operator_is_the_lexed_one(ctx):
    """the comparison node built by parse_cond carries the operator the query spells, whatever the operands look like: `like`
    without wildcards is still a case-insensitive whole-string match, `=` with a `%` is still `=`.  parse_cond is evaluated
    (c03.eval_parse_cond: the operand level is a stand-in) for every documented operator spelling with a literal without
    wildcards, with glob wildcards and with LIKE wildcards"""
    import interp
    import oracles
    import c03
    V = interp.V
    name = "parser::Parser::parse_cond"
    n = 0
    for op, words in oracles.OP_SPELLINGS.items():
        if op == "Between":
            continue
        for word in words:
            for lit in ("abc", "a*c?", "a%c_"):
                lex = [V("Lexem::RawString", ["x"]), V("Lexem::Operator", [word]), V("Lexem::String", [lit])]
                try:
                    g, idx = c03.eval_parse_cond(ctx, lex)
                except interp.Undecided as e:
                    ctx.obligation(False)
                    ctx.violation("parse_cond/operator-provenance/unreadable", ctx.where(name), "cannot evaluate parse_cond on `x %s '%s'`: %s" % (word, lit, e))
                    return
                n += 1
                ok = g == (op, "x", lit) and idx == 3
                ctx.obligation(ok)
                if not ok:
                    ctx.violation("parse_cond/operator-provenance", ctx.where(name),
                                  "`x %s '%s'` is parsed as %s: the comparison must carry the operator written in the query (%s) and its operands as written, "
                                  "whatever the literal looks like" % (word, lit, g, op))
    ctx.covered("parse_cond evaluated for every documented operator spelling x 3 kinds of literal (operator and operands as written)", n,
                distinct_keys=sorted(oracles.OP_SPELLINGS), exhaustive=True)
    ctx.floor(n, 60, "operator spellings through parse_cond", name)


def format_size_arguments_unchanged(ctx):
    """FORMAT_SIZE hands its specifier to format_filesize unchanged: in the specifier grammar a blank is the `space before
    the unit` flag, so trimming (or any other rewriting) changes the rendering"""
    name = "function::get_value"
    h = ctx.anchor_hir(name)
    cs = [c for c in walk_exprs(h) if c["k"] == "Call" and str(c.get("callee", "")).endswith("util::format_filesize")]
    n = 0
    locs = Locals(h)
    for c in cs:
        n += 1
        a = c["args"][1]
        seen = []
        cur = a
        for _ in range(10):
            cur = peel(cur, methods=False)
            if cur["k"] == "MCall":
                seen.append(cur["m"])
                cur = cur["recv"]
                continue
            if cur["k"] == "Path" and cur.get("rk") == "Local":
                d = locs.defs.get(cur["res"]) or locs.payload_defs.get(cur["res"])
                if d is None:
                    break
                if peel(d, methods=False)["k"] in ("Match", "If"):
                    leaves = [l for l, _ in leaf_results(d)]
                    for l in leaves:
                        for y in walk_exprs(l):
                            if y["k"] == "MCall":
                                seen.append(y["m"])
                    cur = peel(d, methods=False).get("scrut") or d
                    if cur is d:
                        break
                    continue
                cur = d
                continue
            break
        bad = [m_ for m_ in seen if m_ not in TRANSPARENT_METHODS and m_ not in ("first", "get", "unwrap_or", "map", "unwrap_or_default", "as_deref", "map_or")]
        ctx.obligation(not bad)
        if bad:
            ctx.violation("format-size/specifier-rewritten", ctx.where(name, c),
                          "FORMAT_SIZE passes its specifier through %s before format_filesize: a leading or trailing blank of the specifier "
                          "(the space flag) is lost" % bad)
    ctx.covered("format_filesize calls of get_value receiving the specifier argument unchanged", n, distinct_keys=["calls:%d" % n])
    ctx.floor(n, 1, "format_filesize calls in get_value", name)


def repository_discovered_upwards(ctx):
    """the git repository of a search root is looked up with Repository::discover (which searches the enclosing
    directories): a root that is a sub-directory of a work tree is still governed by that tree's .gitignore"""
    name = "searcher::Searcher::list_search_results"
    h = ctx.anchor_hir(name)
    top = [c for c in walk_exprs(h) if c["k"] == "MCall" and c["m"] == "visit_dir"]
    has_git = any("git2" in str(x.get("callee", "")) or "git2" in str(x.get("ty", "")) for x in walk_exprs(h))
    if not has_git:
        ctx.covered("git support not compiled in this configuration", 1, distinct_keys=["no-git"])
        ctx.obligation(True)
        return
    n = 0
    ok = False
    if len(top) == 1:
        for a in top[0]["args"]:
            if "git2" in str(a.get("ty", "")) or "Repository" in str(a.get("ty", "")):
                n += 1
                callees = [str(y.get("callee", "")) for y in walk_exprs(a) if y["k"] in ("Call", "MCall")]
                ok = any(cn.endswith("Repository::discover") for cn in callees) and not any(cn.endswith("Repository::open") for cn in callees)
    ctx.obligation(ok)
    if not ok:
        ctx.violation("git/root-repository", ctx.where(name, top[0] if top else None),
                      "the repository handed to the walker for a root must be found with Repository::discover (upward search); with "
                      "Repository::open a root inside a work tree has no repository and nothing is git-ignored")
    ctx.covered("repository lookup for search roots", max(n, 1), distinct_keys=["discover"])


def literal_is_its_text(ctx):
    """X-LITVALUE: a literal of the query evaluates to the text written in the query (with its sign): the literal branch of
    Searcher::get_column_expr_value is evaluated (finite interpreter, crate calls interpreted) on literal expressions whose
    text looks numeric but is not in the form Rust prints, and the text of the resulting Variant is compared"""
    import interp
    name = "searcher::Searcher::get_column_expr_value"
    h = ctx.anchor_hir(name)
    ps = ctx.prog.fns[name]["params"]
    pid = {p.get("name"): p["id"] for p in ps}
    if "column_expr" not in pid:
        import norm
        cands = [p for p, t in zip(ps, norm.param_types(ctx.prog.fns[name].get("sig"))) if t.endswith("expr::Expr")]
        if len(cands) != 1:
            ctx.violation("literal-value/anchor", ctx.where(name), "the expression parameter of get_column_expr_value was not found")
            return
        pid["column_expr"] = cands[0]["id"]
    ts = ctx.prog.hir("function::Variant::to_string")
    n = 0
    texts = ["abc", "5", "1.50", "007", "1e3", "3.0", "inf", ""]

    def call(node, recv, args, it, env):
        callee = str(node.get("callee", ""))
        m = node.get("m")
        if m == "to_string" and isinstance(recv, dict) and "val" in recv:
            return ("<text of the expression>",)
        if m in ("contains_key", "get") and not isinstance(recv, (dict, list, str)):
            return (False,) if m == "contains_key" else (interp.NONE,)
        return None
    for text in texts:
        for minus in (False, True):
            expr = {"left": interp.NONE, "right": interp.NONE, "arithmetic_op": interp.NONE, "logical_op": interp.NONE, "op": interp.NONE,
                    "field": interp.NONE, "function": interp.NONE, "args": interp.NONE, "val": interp.some(text), "minus": minus,
                    "weight": 0}
            env = {p["id"]: interp.Opaque(p.get("name") or "?") for p in ps}
            env[pid["column_expr"]] = expr
            for p in ps:
                if p.get("name") == "file_map":
                    env[p["id"]] = interp.HMap()
            want = ("-" if minus else "") + text
            n += 1
            try:
                got = interp.Interp(call=call, prog=ctx.prog, max_steps=20000).run(h, env)
                if isinstance(got, dict) and ts is not None:
                    tps = ctx.prog.fns["function::Variant::to_string"]["params"]
                    got_text = interp.Interp(prog=ctx.prog).run(ts, {tps[0]["id"]: got})
                else:
                    got_text = got
            except interp.Undecided as e:
                ctx.obligation(False)
                ctx.violation("literal-value/unreadable", ctx.where(name), "cannot evaluate the value of the literal `%s`: %s" % (text, e))
                return
            ok = got_text == want
            ctx.obligation(ok)
            if not ok:
                ctx.violation("literal-value/%s" % ("numeric-looking" if text not in ("abc", "") else "text"), ctx.where(name),
                              "the literal `%s`%s evaluates to the text `%s`: a literal is the text written in the query (`%s`), which is "
                              "what the string functions and the text comparisons must see" % (text, " with a leading minus" if minus else "", got_text, want))
                return
    ctx.covered("literal expressions evaluated through get_column_expr_value (text preserved)", n, distinct_keys=texts, exhaustive=True)


def lexems_are_kept(ctx):
    """X-LEXEMS: Parser::parse hands every lexem of the query to the grammar, except empty quoted strings: the statement that
    stores (or drops) a lexem is evaluated for quoted strings that are empty, blank, ordinary, and for other lexem kinds"""
    import interp
    name = "parser::Parser::parse"
    h = ctx.anchor_hir(name)
    pushes = [c for c in walk_exprs(h) if c["k"] == "MCall" and c["m"] == "push" and render(c["recv"]).endswith("self.lexems")]
    if len(pushes) != 1:
        ctx.violation("lexems/anchor", ctx.where(name), "the statement storing the lexems of the query was not found (%d candidates)" % len(pushes))
        return
    chain = path_to(h, pushes[0]) or []
    # the outermost conditional construct around the push inside the lexing loop
    stmt = None
    seen_loop = False
    for a, _k in chain:
        if a["k"] == "Loop":
            seen_loop = True
            stmt = None
        elif seen_loop and stmt is None and a["k"] in ("Match", "If", "Block") and \
                not any(y["k"] in ("MCall", "Call") and (y.get("m") == "next_lexem" or str(y.get("callee", "")).endswith("next_lexem")) for y in walk_exprs(a)):
            # the outermost construct inside the lexing loop that does not fetch the lexem itself: the whole handling of one lexem
            stmt = a
    if stmt is None:
        stmt = pushes[0]
    var = next((y.get("name") for y in walk_exprs(stmt) if y["k"] == "Path" and y.get("rk") == "Local" and "Lexem" in str(y.get("ty", ""))), "lexem")
    n = 0
    cases = [(interp.V("Lexem::String", [""]), False), (interp.V("Lexem::String", [" "]), True), (interp.V("Lexem::String", ["\t "]), True),
             (interp.V("Lexem::String", ["x"]), True), (interp.V("Lexem::RawString", ["name"]), True), (interp.V("Lexem::RawString", [""]), True),
             (interp.V("Lexem::Comma"), True), (interp.V("Lexem::Operator", ["="]), True)]
    for lx, kept in cases:
        selfv = {"lexems": []}
        try:
            try:
                interp.eval_in(h, stmt, {"self": selfv, var: lx}, prog=ctx.prog)
            except (interp._Continue, interp._Break):
                pass        # `continue` ends the handling of this lexem
        except interp.Undecided as e:
            ctx.obligation(False)
            ctx.violation("lexems/unreadable", ctx.where(name, stmt), "cannot evaluate the statement storing a lexem: %s" % e)
            return
        n += 1
        got = selfv["lexems"] == [lx]
        ok = got == kept and (kept or selfv["lexems"] == [])
        ctx.obligation(ok)
        if not ok:
            ctx.violation("lexems/%s" % ("dropped" if kept else "empty-string-kept"), ctx.where(name, stmt),
                          "the lexem %r is %s: only an empty quoted string is left out (a blank one is a value: format_size(size, ' '), "
                          "replace(name, ' ', '_'))" % (lx, "dropped" if kept else "kept"))
    ctx.covered("lexems handed to the grammar by Parser::parse (8 lexem shapes)", n, distinct_keys=["String", "RawString", "Comma", "Operator"], exhaustive=True)


def names_disjoint(ctx):
    """X-NAMES: the parser tries a bare word as a column before it tries it as a function, and as a keyword before both: the
    name tables must not overlap (a column alias `year` would swallow every call of YEAR(..)).  Keys are read from the
    string tables of Field::from_str and Function::from_str; the overlap is also decided by evaluating Field::from_str on
    every function name"""
    import interp
    import tables
    ff = "<field::Field as core::str::traits::FromStr>::from_str"
    fu = "<function::Function as core::str::traits::FromStr>::from_str"
    fh, uh = ctx.anchor_hir(ff), ctx.anchor_hir(fu)
    fm, um = tables.string_match(fh, 20), tables.string_match(uh, 20)
    if fm is None or um is None:
        ctx.violation("names/anchor", ctx.where(fu), "the name tables of columns / functions were not found")
        return
    cols = {k for k in tables.table_of(fm, lambda b: "x") if k != "_"}
    funs = {k for k in tables.table_of(um, lambda b: "x") if k != "_"}
    both = sorted(cols & funs)
    ctx.obligation(not both)
    for w in both:
        ctx.violation("names/overlap/%s" % w, ctx.where(ff, fm), "`%s` is both a column name and a function name: the parser resolves a bare word as a column first, so %s(..) "
                      "is no longer a function call" % (w, w.upper()))
    # the same by evaluation (robust to a table that is not a plain match)
    ps = ctx.prog.fns[ff]["params"]
    n = 0
    for w in sorted(funs):
        try:
            got = interp.Interp(prog=ctx.prog).run(fh, {ps[0]["id"]: w})
        except interp.Undecided:
            continue
        n += 1
        ok = isinstance(got, interp.V) and got.name == "Result::Err"
        ctx.obligation(ok)
        if not ok and w not in both:
            ctx.violation("names/overlap/%s" % w, ctx.where(ff), "Field::from_str(%r) gives %s: a function name must not be a column name" % (w, got))
    ctx.covered("column names vs function names (tables and evaluation of Field::from_str on every function name)", len(cols) + len(funs) + n,
                distinct_keys=["columns:%d" % len(cols), "functions:%d" % len(funs)], exhaustive=True)
    ctx.floor(len(cols), 90, "column names", ff)
    ctx.floor(len(funs), 70, "function names", fu)


def bracket_styles_agree(ctx):
    """X-BRACKETS: curly and round brackets are interchangeable: wherever the parser tests for a closing bracket of one style,
    an enclosing decision (`if` / `match`) also provides for the other style"""
    n = 0
    pairs = (("Lexem::Close", "Lexem::CurlyClose"), ("Lexem::CurlyClose", "Lexem::Close"))
    for name in sorted(ctx.prog.fns):
        if not name.startswith("parser::Parser::") or "{closure" in name:
            continue
        h = ctx.prog.hir(name)
        if h is None:
            continue

        def mentions(node, what):
            for y in walk(node):
                r = y.get("res") or y.get("path") or ""
                if isinstance(r, str) and r.endswith(what):
                    return True
                if y["k"] in ("PPath", "PTupleStruct", "PStruct") and str(y.get("res", y.get("name", ""))).endswith(what):
                    return True
            return what.split("::")[-1] in [t for t in _idents(node)] and False
        for x in walk(h):
            r = x.get("res") if isinstance(x.get("res"), str) else None
            for a, b in pairs:
                if r and r.endswith(a) and x["k"] in ("Path", "PPath", "PTupleStruct", "PStruct", "PLit", "Bind", "PPathExpr") or (r and r.endswith(a) and x["k"].startswith("P")):
                    chain = path_to(h, x) or []
                    ancs = [n_ for n_, _k in chain if n_["k"] in ("Match", "If")]
                    n += 1
                    ok = any(mentions(anc, b) for anc in ancs)
                    ctx.obligation(ok)
                    if not ok:
                        ctx.violation("brackets/%s/%s" % (short(name, 1), a.split("::")[-1]), ctx.where(name, x),
                                      "%s tests for %s in a decision that does not provide for %s: a query written with the other bracket style is "
                                      "parsed differently" % (short(name, 1), a, b))
    ctx.covered("bracket tests of the parser paired with the other style in the same decision", n, distinct_keys=["sites:%d" % n])
    ctx.floor(n, 4, "closing-bracket tests in the parser", "parser::Parser")


def _idents(node):
    return []


def canonical_path_is_canonical(ctx):
    """X-CANON: util::canonical_path answers with the path the operating system resolved (fs::canonicalize): the visited-directory
    set, the nesting depth and the ignore filters compare its results as text, so a shortcut that returns the path as given
    (absolute but through a symbolic link, or with another spelling) makes one directory look like two"""
    name = "util::canonical_path"
    h = ctx.anchor_hir(name)
    locs = Locals(h)
    n = 0
    canon = [c for c in walk_exprs(h) if c["k"] == "Call" and str(c.get("callee", "")).endswith("fs::canonicalize")]
    if len(canon) != 1:
        ctx.violation("canonical/anchor", ctx.where(name), "canonical_path must call fs::canonicalize exactly once (found %d calls)" % len(canon))
        return
    for leaf, _holder in leaf_results(h):
        e = peel(leaf, methods=False)
        if not (e["k"] == "Call" and e.get("ctor") and short(e["callee"], 1) == "Ok"):
            continue
        n += 1
        arg = e["args"][0]
        # the text comes from the resolved path: format_absolute_path(<payload of canonicalize(..) = Ok(path)>) or that payload itself
        inner = peel(arg, methods=False)
        while inner["k"] == "Call" and not inner.get("ctor") and inner["args"] and str(inner.get("callee", "")).endswith("format_absolute_path"):
            inner = peel(inner["args"][0], methods=False)
        while inner["k"] == "MCall" and inner["m"] in ("to_string_lossy", "to_string", "display", "as_path", "to_path_buf", "into_owned", "clone"):
            inner = peel(inner["recv"], methods=False)
        src = None
        if inner["k"] == "Path" and inner.get("rk") == "Local":
            src = locs.payload_defs.get(inner["res"]) or locs.defs.get(inner["res"])
        resolved = src is not None and any(y is canon[0] for y in walk_exprs(src))
        gs = guards_of(h, leaf) or []
        windows_fallback = any("Incorrect function" in guard_text(g) for g in gs if g[0] in ("if", "match"))
        ok = resolved or windows_fallback
        ctx.obligation(ok)
        if not ok:
            ctx.violation("canonical/not-resolved", ctx.where(name, leaf),
                          "canonical_path returns `%s` without resolving it through fs::canonicalize: a path given through a symbolic link (or spelled differently) "
                          "is then not the canonical one, and the same directory is visited, measured and filtered under two names" % render(arg)[:80])
    # combinator form: canonicalize(p).map(|path| format_absolute_path(&path)).or_else(|err| ..): the chain is rooted in the
    # resolution; an Ok(..) built inside a closure of the chain is the reviewed fallback only under the "Incorrect function." test
    tail = peel(h.get("expr", h), methods=False) if h["k"] == "Block" else peel(h, methods=False)
    r = tail
    chain_ok = False
    while r["k"] == "MCall":
        r = peel(r["recv"], methods=False)
    if tail["k"] == "MCall" and r is canon[0]:
        chain_ok = True
        n += 1
        for c in walk_exprs(tail):
            if c["k"] == "Closure":
                for e in walk_exprs(c["body"]):
                    if e["k"] == "Call" and e.get("ctor") and short(e["callee"], 1) == "Ok":
                        inner_ids = {y.get("res") for y in walk_exprs(e) if y["k"] == "Path" and y.get("rk") == "Local"}
                        own = set(pat_binders(c["params"][0])) if c.get("params") else set()
                        from_resolution = bool(inner_ids & own) and "or_else" not in render(path_to(tail, c)[-1][0])[:0]
                        gs = guards_of(c["body"], e) or []
                        fallback = any("Incorrect function" in guard_text(g) for g in gs if g[0] in ("if", "match"))
                        n += 1
                        okc = fallback or from_resolution
                        ctx.obligation(okc)
                        if not okc:
                            ctx.violation("canonical/not-resolved", ctx.where(name, e), "canonical_path builds `%s` outside the resolution by fs::canonicalize" % render(e)[:80])
    ctx.covered("Ok results of util::canonical_path traced to fs::canonicalize", n, distinct_keys=["results:%d" % n])
    ctx.floor(n, 1, "Ok results of canonical_path", name)


def lexer_by_interpretation(ctx):
    """-> lex(parts): the lexem list Lexer::new(parts) + next_lexem yield, read off the source by the finite interpreter (the static
    regexes of the lexer are matched with Python's re on their extracted literals)"""
    import interp
    new, nx = "lexer::Lexer::new", "lexer::Lexer::next_lexem"
    nh, xh = ctx.anchor_hir(new), ctx.anchor_hir(nx)
    nps, xps = ctx.prog.fns[new]["params"], ctx.prog.fns[nx]["params"]
    import re as _re
    statics = {}
    for name_, f_ in ctx.prog.fns.items():
        if name_.startswith("lexer::") and name_.rsplit("::", 1)[-1].isupper() and "hir" in f_:
            lits_ = [x["v"] for x in walk_exprs(f_["hir"]) if x["k"] == "Lit" and x.get("lk") == "str"]
            if len(lits_) == 1:
                statics[name_] = lits_[0]

    def rx_call(node, recv, args, it, env):
        """the regex crate by contract, for the static patterns of the lexer (their literal is read from the source; the syntax
        used there - digits classes, groups, ?, counted repetition - means the same in Python's re)"""
        m_ = node.get("m")
        if m_ in ("captures", "is_match", "find") and isinstance(recv, interp.Opaque):
            pat = next((v for k_, v in statics.items() if k_ in str(recv.what) or str(recv.what) in k_), None)
            if pat is None or not args or not isinstance(args[0], str):
                return None
            mt = _re.search(pat, args[0])
            if m_ == "is_match":
                return (mt is not None,)
            if mt is None:
                return (interp.NONE,)
            return (interp.some({"__cap": {i: mt.group(i) for i in range(0, (mt.re.groups or 0) + 1)}}),)
        if node.get("k") == "Index" and isinstance(recv, dict) and "__cap" in recv and args:
            g = recv["__cap"].get(args[0])
            if g is None:
                raise interp.Undecided("capture group %s absent (a panic in the analysed code)" % args[0])
            return (g,)
        if isinstance(recv, dict) and "__cap" in recv and m_ == "get" and args:
            g = recv["__cap"].get(args[0])
            return (interp.some({"__match": g}) if g is not None else interp.NONE,)
        if isinstance(recv, dict) and "__match" in recv and m_ == "as_str":
            return (recv["__match"],)
        if m_ == "parse" and isinstance(recv, str):
            try:
                return (interp.V("Result::Ok", [int(recv)]),) if _re.fullmatch(r"[+-]?[0-9]+", recv) else (interp.V("Result::Err", [interp.Opaque("parse error")]),)
            except ValueError:
                return (interp.V("Result::Err", [interp.Opaque("parse error")]),)
        return None

    def lex(parts):
        L = interp.Interp(prog=ctx.prog, call=rx_call).run(nh, {nps[0]["id"]: list(parts)})
        out = []
        for _ in range(60):
            r = interp.Interp(prog=ctx.prog, call=rx_call, max_steps=400000).run(xh, {xps[0]["id"]: L})
            if r == interp.NONE:
                return out
            out.append(r.args[0] if isinstance(r, interp.V) and r.args else r)
        raise interp.Undecided("the lexer does not come to an end")
    return lex


def lexer_split_invariance(ctx):
    """C11-R7: a query passed as several shell words is lexed like the same words joined by single blanks.  The lexer
    (Lexer::new + next_lexem) is read by the finite interpreter on a small family of inputs, each once as one argument and
    once split at every blank - also at blanks inside quoted literals of the three styles -, and the two lexem sequences
    are compared with each other (no table of expected lexems is involved)"""
    import interp
    import itertools
    new, nx = "lexer::Lexer::new", "lexer::Lexer::next_lexem"
    nh, xh = ctx.anchor_hir(new), ctx.anchor_hir(nx)
    nps, xps = ctx.prog.fns[new]["params"], ctx.prog.fns[nx]["params"]

    lex = lexer_by_interpretation(ctx)
    queries = ["name, size from /tmp/a b where name = 'my notes.txt'",
               'select name from . where name like "a b  c" and size gt 3',
               "name from . where name eq `x y` or {size + 1 gt 2}",
               "count(*), max(size) from /x where ext = 'r s' group by ext order by 1 desc limit 3"]
    n = 0

    def renderings(q):
        """shell-word renderings of q that fselect documents as equivalent: the word right after FROM is taken whole as a search
        root (a path may contain blanks), so from FROM on every blank is a cut, except that a quoted literal may stay one word;
        before FROM any single blank may be left uncut"""
        words = q.split(" ")
        fi = next(i for i, w in enumerate(words) if w.lower() == "from")
        out = [list(words)]
        for k in range(1, fi):
            out.append(words[:k - 1] + [" ".join(words[k - 1:k + 1])] + words[k + 1:])
        # quoted literals kept as one shell word
        merged, cur, quote = [], None, None
        for w in words:
            if cur is None and w[:1] in "'\"`" and not (len(w) > 1 and w.endswith(w[0])):
                cur, quote = [w], w[0]
            elif cur is not None:
                cur.append(w)
                if w.endswith(quote):
                    merged.append(" ".join(cur))
                    cur = None
            else:
                merged.append(w)
        if cur is None and merged != words:
            out.append(merged)
        return out
    for q in queries:
        try:
            whole = lex([q])
            for parts in renderings(q):
                got = lex(parts)
                n += 1
                ok = got == whole
                ctx.obligation(ok)
                if not ok:
                    ctx.violation("lexer/split/%d" % queries.index(q), ctx.where(nx),
                                  "passed as the shell words %s, the query `%s` is lexed as %s instead of %s: the same query must mean the same "
                                  "whether it is passed as one argument or as several" % (parts, q, got, whole))
                    break
        except interp.Undecided as e:
            ctx.obligation(False)
            ctx.violation("lexer/split/unreadable", ctx.where(nx), "cannot evaluate the lexer on `%s`: %s" % (q, e))
            break
    ctx.covered("one-argument vs. split renderings of 4 queries lexed by interpretation and compared", n, distinct_keys=["split-points:%d" % n], exhaustive=False)
    ctx.floor(n, 10, "split renderings compared", nx)
    # the same relation for letter case: keywords, column and function names are case-insensitive, so a query and its
    # upper-cased spelling (outside quoted literals) are cut into the same lexems - also where an arithmetic operator is
    # glued to a name (`SIZE-1`, `Size*2`), which the lexer decides by looking at the pieces around the operator
    def upper_outside_quotes(q):
        out, quote = [], None
        for ch in q:
            if quote:
                out.append(ch)
                if ch == quote:
                    quote = None
            elif ch in "'\"`":
                quote = ch
                out.append(ch)
            else:
                out.append(ch.upper())
        return "".join(out)

    def capitalised(q):
        out, quote, start = [], None, True
        for ch in q:
            if quote:
                out.append(ch)
                if ch == quote:
                    quote = None
                continue
            if ch in "'\"`":
                quote = ch
            out.append(ch.upper() if start and ch.isalpha() else ch)
            start = not (ch.isalnum() or ch == "_")
        return "".join(out)
    cq = ["name, size-1, size*2 from /tmp/x where size%2 eq 1 and size/3 gt 1",
          "select name from . where not name like 'A b' or size between 1 and 5 order by size desc limit 3 into json",
          "count(*), max(size)+1, line_count-1 from /x where is_dir eq false group by ext",
          "lower(name), length(name)*2 from . where modified gte 2020-01-01 and name rx x.*"]
    m = 0
    norm_ = lambda ls: [(l.name, tuple(str(a).lower() for a in l.args)) if isinstance(l, interp.V) else repr(l).lower() for l in ls]
    for q in cq:
        try:
            base = lex([q])
            for variant in (upper_outside_quotes(q), capitalised(q)):
                got = lex([variant])
                m += 1
                ok = norm_(got) == norm_(base)
                ctx.obligation(ok)
                if not ok:
                    ctx.violation("lexer/case/%d" % cq.index(q), ctx.where(nx),
                                  "the query `%s` is lexed as %s, its spelling `%s` as %s: letter case outside quoted literals must not change how the "
                                  "query is cut into lexems" % (q, base, variant, got))
                    break
        except interp.Undecided as e:
            ctx.obligation(False)
            ctx.violation("lexer/case/unreadable", ctx.where(nx), "cannot evaluate the lexer on `%s`: %s" % (q, e))
            break
    ctx.covered("lower-case vs. upper-case / capitalised spellings of 4 queries lexed by interpretation and compared", m, distinct_keys=["spellings:%d" % m], exhaustive=False)
    ctx.floor(m, 8, "letter-case spellings compared", nx)


def user_config_wins(ctx):
    """X-CONFIG: wherever a setting is read from both the user's configuration and the built-in default configuration, the
    user's value wins and the default is only the fallback: every expression of the searcher that mentions `self.config.F`
    and `self.default_config.F` for the same F is evaluated for (user set / not set)"""
    import interp
    n = 0
    for name in sorted(ctx.prog.fns):
        if not name.startswith("searcher::") or "{closure" in name:
            continue
        h = ctx.prog.hir(name)
        if h is None:
            continue
        fields_u = {}
        fields_d = {}
        for x in walk_exprs(h):
            if x["k"] == "Field" and x["e"]["k"] == "Field" and render(x["e"]) in ("self.config", "self.default_config"):
                (fields_u if render(x["e"]) == "self.config" else fields_d).setdefault(x["name"], []).append(x)
        for f in sorted(set(fields_u) & set(fields_d)):
            # the smallest expression containing a read of both
            best = None
            for x in walk_exprs(h):
                if x["k"] in ("MCall", "Call", "If", "Match", "Block") and any(y is fields_u[f][0] for y in walk_exprs(x)) and any(y is fields_d[f][0] for y in walk_exprs(x)):
                    if best is None or len(list(walk_exprs(x))) < len(list(walk_exprs(best))):
                        best = x
            if best is None:
                continue
            ids = {y["res"] for y in walk_exprs(best) if y["k"] == "Path" and y.get("rk") == "Local"}
            res = {}
            try:
                for user in (interp.some("<user>"), interp.NONE):
                    selfv = {"config": {f: user}, "default_config": {f: interp.some("<default>")}}
                    v = interp.Interp(prog=ctx.prog).ev(best, {i: selfv for i in ids})
                    while isinstance(v, interp.V) and v.name == "Option::Some":
                        v = v.args[0]
                    res[user == interp.NONE] = v
            except interp.Undecided:
                continue
            n += 1
            ok = res.get(False) == "<user>" and res.get(True) == "<default>"
            ctx.obligation(ok)
            if not ok:
                ctx.violation("config-precedence/%s/%s" % (short(name, 1), f), ctx.where(name, best),
                              "the setting `%s` must be the user's value when the user's configuration has one and the built-in default otherwise; "
                              "`%s` gives %r with a user value and %r without" % (f, render(best)[:90], res.get(False), res.get(True)))
    ctx.covered("settings read from the user configuration with the default configuration as fallback (evaluated both ways)", n, distinct_keys=["settings:%d" % n])
    ctx.floor(n, 8, "settings read from both configurations", "searcher")


def value_walks_reach_arguments(ctx):
    """X-EXPRWALK: a recursive walk of the value layer of an expression tree (a function that calls itself on `left` and on
    `right` of an Expr and does not look at `logical_op`) also visits `args`, where the parser keeps the second and later
    arguments of a function: a predicate such as "reads no column" / "has an aggregate" that skips them misjudges
    `least(4096, size)`.  Walks of the left spine only (contains_numeric ..) and walks of the Boolean layer (negation,
    conforms) are other shapes and not concerned."""
    prog = ctx.prog
    n = 0
    walks = []
    for name in sorted(prog.fns):
        if "{closure" in name or "mir" not in prog.fns[name]:
            continue
        sig = str(prog.fns[name].get("sig") or "")
        if "Expr" not in sig:
            continue
        # recursive: the function is reachable from its own callees
        callees = prog.local_callees(name)
        if name not in callees and name not in prog.reachable_fns(callees - {name}):
            continue
        # the walk is the whole recursion cycle (get_column_expr_value <-> get_function_value): union of its members' reads
        cycle = [g for g in prog.reachable_fns([name]) if "{closure" not in g and name in prog.reachable_fns([g])]
        reads = set()
        for g in cycle:
            for m in prog.with_closures(g):
                b = prog.body(m)
                if b:
                    reads |= b.field_reads()
        if not ({"left", "right"} <= reads) or "logical_op" in reads:
            continue
        n += 1
        walks.append(name)
        ok = "args" in reads
        ctx.obligation(ok)
        if not ok:
            ctx.violation("expr-walk/%s" % short(name, 2), ctx.where(name),
                          "%s walks an expression tree through `left` and `right` but never looks at `args` (the further arguments of a function): "
                          "what it decides is wrong for expressions such as least(4096, size) or concat(name, count(*))" % short(name, 2))
    ctx.covered("recursive walks of the value layer of Expr (left, right and args visited)", n, distinct_keys=walks)
    ctx.floor(n, 2, "recursive value-layer walks of Expr", "expr::Expr")


def where_tree_reaches_query(ctx):
    """X-QUERY: what the clause parsers return is what the Query holds.  The initialisers of the fields `expr`, `fields` and
    `grouping_fields` of the Query built by Parser::parse are evaluated (finite interpreter) with the clause parsers as
    stand-ins.  For the WHERE tree the stand-in returns every tree of three conditions joined by AND / OR in both bracketings,
    each condition cheap (a name test) or expensive (reads the file): the tree stored in the query must have the same truth
    table over the same conditions - a pass that reorders or rewrites the tree between parse_where and the query (an
    optimiser) is followed through and must preserve the Boolean function."""
    import interp
    import itertools
    from extra import _expr_dict
    PARSE = "parser::Parser::parse"
    hir = ctx.anchor_hir(PARSE)
    lits = [x for x in walk_exprs(hir) if x["k"] == "Struct" and str(x.get("res", "")).endswith("query::Query")]
    if len(lits) != 1:
        ctx.obligation(False)
        ctx.violation("query-literal/anchor", ctx.where(PARSE), "Parser::parse no longer builds exactly one Query (found %d struct literals)" % len(lits))
        return
    finit = {f["name"]: f["e"] for f in lits[0]["fields"]}
    some, NONE, V = interp.some, interp.NONE, interp.V
    E = lambda **kw: _expr_dict(interp, **kw)

    def atom(name, expensive):
        col = "Field::LineCount" if expensive else "Field::Name"
        d = E(left=some(E(field=some(V(col)))), op=some(V("Op::Eq")), right=some(E(val=some(name))))
        return d

    def truth(t, env, seen):
        """truth value of a tree of Expr dictionaries; leaves are recognised by the literal on their right-hand side"""
        t = t.args[0] if isinstance(t, V) and t.name == "Option::Some" else t
        if not isinstance(t, dict):
            raise interp.Undecided("not an expression: %r" % (t,))
        lo = t.get("logical_op")
        if isinstance(lo, V) and lo.name == "Option::Some":
            l, r = truth(t["left"], env, seen), truth(t["right"], env, seen)
            nm = lo.args[0].name if isinstance(lo.args[0], V) else str(lo.args[0])
            if nm.endswith("And"):
                return l and r
            if nm.endswith("Or"):
                return l or r
            raise interp.Undecided("connective %s" % nm)
        r = t.get("right")
        r = r.args[0] if isinstance(r, V) and r.name == "Option::Some" else r
        v = r.get("val") if isinstance(r, dict) else None
        v = v.args[0] if isinstance(v, V) and v.name == "Option::Some" else v
        if v not in env:
            raise interp.Undecided("a condition that was not in the parsed tree: %r" % (v,))
        seen.append(v)
        return env[v]

    def join(l, op, r):
        return E(left=some(l), logical_op=some(V("LogicalOp::" + op)), right=some(r))
    n = 0
    bad = None
    for costs in itertools.product((False, True), repeat=3):
        A, B, C = (atom(nm, c) for nm, c in zip("ABC", costs))
        for o1, o2 in itertools.product(("And", "Or"), repeat=2):
            for shape in ("A o1 (B o2 C)", "(A o1 B) o2 C"):
                tree = join(A, o1, join(B, o2, C)) if shape.startswith("A") else join(join(A, o1, B), o2, C)
                import copy
                given = copy.deepcopy(tree)

                def call(node, recv, args, it, env, given=given):
                    m_ = node.get("m")
                    callee = str(node.get("callee", ""))
                    if m_ == "parse_where" or callee.endswith("Parser::parse_where"):
                        return (V("Result::Ok", [some(given)]),)
                    if (m_ or "").startswith("parse_") or "Parser::parse_" in callee:
                        return (V("Result::Ok", [interp.Opaque(m_ or callee)]),)
                    if m_ in ("clone", "to_owned") and isinstance(recv, dict):
                        return (copy.deepcopy(recv),)
                    return None
                try:
                    it = interp.Interp(call=call, prog=ctx.prog, max_steps=40000)
                    locs_ = Locals(hir)
                    node_ = peel(finit["expr"])
                    if node_["k"] == "Path" and node_.get("rk") == "Local" and node_["res"] in locs_.defs:
                        node_ = locs_.defs[node_["res"]]          # evaluated directly, so that what cannot be read is named
                    got = it.run(node_, interp.LazyEnv(it, locs_, {}))
                    if isinstance(got, interp.Opaque):
                        raise interp.Undecided("the WHERE tree of the query is %r" % (got,))
                    for vals in itertools.product((False, True), repeat=3):
                        env = dict(zip("ABC", vals))
                        s1, s2 = [], []
                        if truth(got, env, s1) != truth(tree, env, s2):
                            raise ValueError("with A=%s B=%s C=%s the stored tree is %s, the parsed one %s" % (vals + (truth(got, env, []), truth(tree, env, []))))
                except interp.Undecided as e:
                    bad = ("unreadable", "cannot follow the WHERE tree from parse_where to the query (%s, conditions reading the file: %s): %s" %
                           (shape.replace("o1", o1.upper()).replace("o2", o2.upper()), [nm for nm, c in zip("ABC", costs) if c], e))
                    break
                except ValueError as e:
                    bad = ("rewritten", "the WHERE tree parsed as `%s` (conditions reading the file: %s) is stored in the query as another Boolean function: %s" %
                           (shape.replace("o1", o1.upper()).replace("o2", o2.upper()), [nm for nm, c in zip("ABC", costs) if c] or "none", e))
                    break
                n += 1
            if bad:
                break
        if bad:
            break
    ctx.obligation(bad is None)
    if bad:
        ctx.violation("query-literal/where/%s" % bad[0], ctx.where(PARSE, finit["expr"]), bad[1])
    ctx.covered("WHERE trees (3 conditions x AND/OR x bracketing x cheap/expensive) followed from parse_where into the Query: same truth table", n,
                distinct_keys=["expr"], exhaustive=True)
    ctx.floor(n, 64, "WHERE trees followed into the query", PARSE)


def number_minus_is_arithmetic(ctx):
    """X-NUMMINUS: a minus glued to a number is the arithmetic operator (`1024-size`, `size*1500-1`): the lexer keeps a `-` inside a
    token only for what starts like a date, a four-digit year of the supported range 1970..2999 (`2023-12-11`); any other number
    followed by `-` is cut into number, operator, operand.  Lexer::new + next_lexem evaluated (finite interpreter)"""
    import interp
    lex = lexer_by_interpretation(ctx)
    nx = "lexer::Lexer::next_lexem"
    n = 0
    for text, want_split in (("1024-size", True), ("999-size", True), ("1500-1", True), ("1969-12", True), ("3000-size", True), ("10000-size", True), ("12-size", True),
                             ("size*1500-1", True), ("2023-12-11", False), ("1970-01-01", False), ("2999-12", False), ("2023-1-5", False), ("2023-1-05", False), ("2023-01-5", False)):
        q = "select %s from ." % text
        try:
            ls = lex([q])
        except interp.Undecided as e:
            ctx.obligation(False)
            ctx.violation("lexer/number-minus/unreadable", ctx.where(nx), "cannot evaluate the lexer on `%s`: %s" % (q, e))
            return
        n += 1
        minus = [l for l in ls if isinstance(l, interp.V) and l.name == "Lexem::ArithmeticOperator" and l.args and l.args[0] == "-"]
        ok = bool(minus) == want_split
        ctx.obligation(ok)
        if not ok:
            ctx.violation("lexer/number-minus/%s" % ("date" if not want_split else "number"), ctx.where(nx),
                          "`%s` is lexed as %s: %s" % (text, ls[1:-2], "a number followed by `-` is number, minus, operand (only a year 1970..2999 starts a date literal)"
                                                       if want_split else "an unquoted date literal must stay one token"))
    ctx.covered("numbers and dates followed by `-` lexed by interpretation (operator vs. date literal)", n, distinct_keys=["numbers", "dates"], exhaustive=False)
    ctx.floor(n, 14, "number-minus spellings lexed", nx)


def memo_key_complete(ctx):
    """a map kept in `self` that a function consults before computing and fills afterwards (a memo) must be keyed by everything
    the stored value depends on: every parameter of the function that the inserted value - or a condition the insertion stands
    under - is computed from must also flow into the key.  (`owner_name(id, group)` caching under `id` alone answers "user 4" and
    "group 4" with whichever was asked first.)  Parameter granularity: two parts of one parameter are not told apart - the
    pattern cache of `conforms` (a map of compiled patterns) is counted as seen and left to C12-R2."""
    n_sites, n_fns = 0, 0
    for name in sorted(ctx.prog.fns):
        f = ctx.prog.fns[name]
        if "hir" not in f or not f.get("params"):
            continue
        h = f["hir"]
        sites = []
        for x in walk_exprs(h):
            if x["k"] == "MCall" and x["m"] == "insert" and len(x["args"]) == 2:
                r = peel(x["recv"], methods=False)
                ty = str(r.get("ty", ""))
                if r["k"] == "Field" and peel(r["e"], methods=False).get("name") == "self" and ("HashMap<" in ty or "BTreeMap<" in ty):
                    sites.append((r["name"], x))
        if not sites:
            continue
        looked = {peel(c["recv"], methods=False)["name"] for c in walk_exprs(h) if c["k"] == "MCall" and c["m"] in ("get", "contains_key", "get_mut", "entry") and
                  peel(c["recv"], methods=False)["k"] == "Field" and peel(peel(c["recv"], methods=False)["e"], methods=False).get("name") == "self"}
        sites = [(fl, x) for fl, x in sites if fl in looked]
        if not sites:
            continue
        n_fns += 1
        locs = Locals(h)
        params = {p_["id"]: p_.get("name") for p_ in f["params"] if p_.get("id") and p_.get("name") != "self"}
        assigns = {}
        for x in walk_exprs(h):
            if x["k"] in ("Assign", "AssignOp"):
                l_ = peel(x["l"], methods=False)
                if l_["k"] == "Path" and l_.get("rk") == "Local":
                    assigns.setdefault(l_["res"], []).append(x["r"])

        def deps(e, seen=None):
            seen = set() if seen is None else seen
            out = set()
            for y in walk_exprs(e):
                if y["k"] == "Path" and y.get("rk") == "Local":
                    i_ = y["res"]
                    if i_ in params:
                        out.add(params[i_])
                    elif i_ not in seen:
                        seen.add(i_)
                        for d_ in [locs.defs.get(i_), locs.payload_defs.get(i_)] + assigns.get(i_, []):
                            if d_ is not None:
                                out |= deps(d_, seen)
            return out
        for fl, x in sites:
            n_sites += 1
            if "regex::" in str(peel(x["recv"], methods=False).get("ty", "")):
                continue        # the pattern cache: what its key must contain (the operator's translator) is C12-R2's decision
            kd = deps(x["args"][0])
            vd = deps(x["args"][1])
            for g in guards_of(h, x) or []:
                if g[0] in ("if", "match") and isinstance(g[1], dict):
                    vd |= deps(g[1]["init"] if g[1].get("k") == "LetE" else g[1])
            missing = sorted(vd - kd)
            ctx.obligation(not missing)
            if missing:
                ctx.violation("memo-key/%s/%s" % (short(name, 1), fl), ctx.where(name, x),
                              "the value stored in `self.%s` is computed from the parameter%s %s of %s, which the key `%s` does not contain: the next call with another "
                              "%s and the same key is answered with this value" % (fl, "s" if len(missing) > 1 else "", ", ".join("`%s`" % m_ for m_ in missing), short(name, 1),
                                                                                 render(x["args"][0])[:60], missing[0]))
    ctx.covered("memo maps kept in self (looked up and filled in one function): the key contains every parameter the stored value is computed from", n_sites,
                distinct_keys=["fns:%d" % n_fns, "sites:%d" % n_sites])
    ctx.floor(n_sites, 1, "memo insertion sites (at least the pattern cache of conforms is seen)", "searcher.rs")


def operator_spellings_lex_whole(ctx):
    """C11-R8: every documented operator spelling, written between two operands after WHERE (with and without blanks around a
    symbolic one), is lexed as ONE operator lexem carrying that spelling - the lexer (Lexer::new + next_lexem) read by the finite
    interpreter.  (`!~=` is the one symbolic operator whose proper prefix `!~` is not an operator.)"""
    import interp
    import oracles
    lex = lexer_by_interpretation(ctx)
    V = interp.V
    n, bad = 0, []
    for op, spellings in sorted(oracles.OP_SPELLINGS.items()):
        for sp in spellings:
            symbolic = not sp[0].isalpha()
            forms = ["name from . where size %s 5" % sp] + (["name from . where size%s5" % sp] if symbolic else [])
            for q in forms:
                for parts in ([q], q.split(" ")):
                    try:
                        got = lex(parts)
                    except interp.Undecided as e:
                        bad.append("cannot lex `%s`: %s" % (q, str(e)[:120]))
                        break
                    n += 1
                    tail = got[-3:] if isinstance(got, list) else got
                    names = [(x.name.split("::")[-1], x.args[0] if x.args else None) for x in tail] if isinstance(tail, list) and all(isinstance(x, V) for x in tail) else tail
                    want_kind = "Operator" if sp.lower() not in ("like", "notlike", "between", "in") or True else "Operator"
                    ok = isinstance(names, list) and len(names) == 3 and names[0][1] == "size" and names[2][1] == "5" and names[1][0] == want_kind and str(names[1][1]).lower() == sp.lower()
                    ctx.obligation(ok)
                    if not ok:
                        bad.append("`%s` (%s) ends in the lexems %s, expected size, Operator(%s), 5" % (q, "one argument" if len(parts) == 1 else "shell words", names, sp))
    ctx.covered("documented operator spellings lexed between two operands (symbolic ones also without blanks; one argument and shell words)", n, distinct_keys=sorted(oracles.OP_SPELLINGS), exhaustive=True)
    seen = set()
    for b in bad:
        k_ = b.split("`")[1] if "`" in b else b
        if k_ not in seen and len(seen) < 4:
            seen.add(k_)
            ctx.violation("lexer/operator-spelling", ctx.where("lexer::Lexer::next_lexem"), "every documented operator spelling is one operator lexem: %s" % b)
    ctx.floor(n, 60, "operator spellings lexed", "lexer.rs")
