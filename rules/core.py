"""Check context: findings, floors (fail closed), known findings, evidence, replay reports."""
import hashlib
import json
import os
import re
import time
import traceback

VERIF = os.path.dirname(os.path.dirname(os.path.abspath(__file__)))
KNOWN = os.path.join(VERIF, "known_findings.json")


class Abort(Exception):
    """a rule cannot continue (anchor missing); already recorded as a finding"""


class Ctx:
    def __init__(self, pid, tier, prog, config="default"):
        self.pid = pid
        self.tier = tier
        self.prog = prog
        self.config = config
        self.findings = []      # dicts: key, rule, where, msg, detail
        self.rules = []         # per-rule coverage records
        self.samples = []
        self.evaluations = 0
        self.distinct = set()
        self.obligations = 0
        self.discharged = 0
        self.assumptions = []
        self.not_decided = []
        self.exhaustive_rules = []
        self._cur = None

    # ---------------------------------------------------------------- rule bookkeeping
    def begin(self, rid, title):
        self._cur = {"rule": rid, "title": title, "instances": 0, "analysed": [], "findings": 0}
        self.rules.append(self._cur)

    def covered(self, what, n=1, distinct_keys=None, sample=None, exhaustive=False):
        """record that the current rule evaluated n instances of `what`"""
        self._cur["instances"] += n
        self._cur["analysed"].append("%d %s" % (n, what))
        self.evaluations += n
        if distinct_keys is not None:
            for k in distinct_keys:
                self.distinct.add((self._cur["rule"], str(k)))
        if sample is not None and len(self.samples) < 40:
            self.samples.append({"rule": self._cur["rule"], "what": what, "sample": sample})
        if exhaustive and self._cur["rule"] not in self.exhaustive_rules:
            self.exhaustive_rules.append(self._cur["rule"])

    def obligation(self, ok):
        self.obligations += 1
        if ok:
            self.discharged += 1

    def violation(self, key, where, msg, detail=None):
        rid = self._cur["rule"] if self._cur else "?"
        full = "%s/%s" % (rid, key)
        for f in self.findings:
            if f["key"] == full:
                return
        self._cur["findings"] += 1
        self.findings.append({"key": full, "rule": rid, "where": where, "msg": msg, "detail": detail or {},
                              "config": self.config})

    def floor(self, found, floor, what, where="?"):
        """fail closed when fewer instances than counted by hand on the pinned tree are visible"""
        if found < floor:
            self.violation("floor/%s" % re.sub(r"[^A-Za-z0-9_]+", "_", what), where,
                           "only %d %s visible to the extractor, expected at least %d: the rule would pass "
                           "vacuously, failing closed" % (found, what, floor))
            return False
        return True

    def anchor_fn(self, name):
        f = self.prog.fns.get(name)
        if f is None:
            self.violation("anchor/%s" % name, name, "anchor function `%s` not found in the analysed crate "
                           "(renamed or removed): cannot decide this rule, failing closed" % name)
            raise Abort()
        return f

    def anchor_hir(self, name):
        f = self.anchor_fn(name)
        if "hir" not in f:
            self.violation("anchor/%s" % name, name, "no HIR body for `%s`" % name)
            raise Abort()
        return self.prog.hir(name)

    def anchor_body(self, name):
        self.anchor_fn(name)
        b = self.prog.body(name)
        if b is None:
            self.violation("anchor/%s" % name, name, "no MIR body for `%s`" % name)
            raise Abort()
        return b

    def where(self, name, node=None):
        if node is not None and "sp" in node:
            return "%s (%s)" % (node["sp"], name)
        return "%s (%s)" % (self.prog.span(name), name)


def run_rules(ctx, rules):
    for rid, title, fn in rules:
        ctx.begin(rid, title)
        try:
            fn(ctx)
        except Abort:
            pass
        except Exception as e:  # extractor met a shape it cannot read: fail closed, with the trace
            ctx.violation("extractor-error", rid, "rule %s could not read the code shape it is anchored in (%s: %s); "
                          "failing closed" % (rid, type(e).__name__, e),
                          {"traceback": traceback.format_exc().splitlines()[-12:]})


def load_known():
    if not os.path.exists(KNOWN):
        return {"findings": [], "fixed": []}
    with open(KNOWN) as fh:
        return json.load(fh)


def safe_name(key):
    s = re.sub(r"[^A-Za-z0-9_.-]+", "_", key)[:100]
    return s + "-" + hashlib.sha1(key.encode()).hexdigest()[:8]


def finish(pid, tier, ctxs, t0, meta, explanation, assumptions, not_decided, seed=0):
    """prints verdict lines, writes reports and evidence; returns exit code"""
    known = load_known()
    known_keys = {f["key"]: f for f in known.get("findings", []) if f.get("property") == pid}
    merged = {}
    for c in ctxs:
        for f in c.findings:
            merged.setdefault(f["key"], f)
    rc = 0
    n_viol = 0
    n_known = 0
    rep_dir = os.path.join(os.environ.get("VERIF_REPORTS_DIR", os.path.join(VERIF, "reports")), pid)
    for key, f in sorted(merged.items()):
        if key in known_keys:
            n_known += 1
            print("KNOWN-FINDING: property=%s %s — %s [%s]" % (pid, known_keys[key].get("what", f["msg"]), f["where"], key))
            continue
        os.makedirs(rep_dir, exist_ok=True)
        path = os.path.join(rep_dir, safe_name(key) + ".json")
        with open(path, "w") as fh:
            json.dump({"property": pid, "key": key, "rule": f["rule"], "where": f["where"], "message": f["msg"],
                       "detail": f["detail"], "config": f["config"], "tier": tier,
                       "source_hash": meta.get("source_hash")}, fh, indent=1, default=str)
        print("  %s: %s" % (f["where"], f["msg"]))
        print("VIOLATION property=%s replay=%s" % (pid, path))
        n_viol += 1
        rc = 1
    # known findings that no longer fire are reported informationally (never an error)
    fired = set(merged)
    for key, kf in known_keys.items():
        if key not in fired:
            print("note: known finding %s did not fire on this tree (repaired or code moved)" % key)

    c0 = ctxs[0]
    rules_cov = []
    for c in ctxs:
        for r in c.rules:
            rules_cov.append({"config": c.config, "rule": r["rule"], "title": r["title"], "instances": r["instances"],
                              "analysed": r["analysed"], "findings": r["findings"]})
    evaluations = sum(c.evaluations for c in ctxs)
    distinct = set()
    for c in ctxs:
        distinct |= c.distinct
    samples = []
    for c in ctxs:
        samples.extend(c.samples)
    ev = {
        "property_id": pid,
        "tier": tier,
        "seed": seed,
        "level": "other",
        "coverage": {
            "explanation": explanation,
            "evaluations": evaluations,
            "distinct_nontrivial": len(distinct),
            "rule": "each evaluation is one rule instance (a table arm, a comparison predicate under one ordering of "
                    "its operands, a call site, a CFG path obligation) extracted from the type-checked HIR/MIR of "
                    "/repo's current tree; distinct = distinct (rule, code construct) pairs",
            "samples": samples[:40] or [{"note": "no instance extracted"}],
            "obligations": sum(c.obligations for c in ctxs),
            "discharged": sum(c.discharged for c in ctxs),
            "exhaustive": bool(c0.exhaustive_rules),
            "exhaustive_rules": c0.exhaustive_rules,
            "rules": rules_cov,
            "configs": [c.config for c in ctxs],
            "not_decided": not_decided,
            "known_findings_printed": n_known,
            "source_hash": meta.get("source_hash"),
            "functions_in_crate": meta.get("n_mir"),
            "trusted_base": ["rustc nightly front end (HIR, typeck, MIR construction)", "fsfacts exporter",
                             "frozen oracle tables under rules/oracles.py", "rule scripts"],
        },
        "assumptions": assumptions,
        "wall_s": round(time.time() - t0, 3),
        "violations": n_viol,
    }
    ev_dir = os.environ.get("VERIF_EVIDENCE_DIR", os.path.join(VERIF, "evidence"))
    os.makedirs(ev_dir, exist_ok=True)
    with open(os.path.join(ev_dir, pid + ".json"), "w") as fh:
        json.dump(ev, fh, indent=1, default=str)
    total_inst = sum(r["instances"] for r in rules_cov)
    print("%s %s: %d rules, %d instances analysed, %d violations, %d known findings, %.1fs" % (
        pid, tier, len(rules_cov), total_inst, n_viol, n_known, time.time() - t0))
    return rc
