"""Second-line rules shared by several properties: small helpers on the main path whose tables/definitions the
properties silently depend on (value constructors, default options, buffering predicates, lexer character classes)."""
import itertools
from hirq import *  # noqa: F401,F403
from core import Abort


def field_writers(ctx, ty, field):
    """functions (MIR) that assign to <ty>.<field>"""
    out = set()
    for b in ctx.prog.bodies():
        for i, j, p, rv in b.assigns():
            if p["pr"] and p["pr"][-1] == "." + field and ty in b.local_ty(p["l"]):
                out |= ctx.prog.owners(b.name)
    return out


def struct_fields_of(hir, name):
    for x in walk_exprs(hir):
        if x["k"] == "Struct" and short(x.get("res"), 1) == name:
            return {f["name"]: f["e"] for f in x["fields"]}, x
    return None, None


def variant_coercion_table(ctx):
    """values of Variant::to_int / to_float / to_bool read off their source by the finite interpreter on representative
    variants (own slot filled; other slot filled; plain number text; size-literal text; garbage text).  parse_filesize and
    str_to_bool are mocked by their contract (C14-R1 / C02-R6 decide them)."""
    import interp

    def call(node, recv, args, it, env):
        callee = str(node.get("callee", ""))
        m = node.get("m")
        if m == "parse" and isinstance(recv, str):
            ty = str(node.get("ty", ""))
            try:
                if "f64" in ty or "f32" in ty:
                    return (interp.V("Result::Ok", [float(recv)]),)
                if recv.isdigit() or ("usize" not in ty and "u64" not in ty and recv[:1] == "-" and recv[1:].isdigit()):
                    return (interp.V("Result::Ok", [int(recv)]),)
            except ValueError:
                pass
            return (interp.V("Result::Err", [interp.Opaque("parse error")]),)
        if callee.endswith("parse_filesize") and args and isinstance(args[0], str):
            return (interp.some(2000) if args[0] == "2k" else interp.NONE,)
        if callee.endswith("str_to_bool") and args and isinstance(args[0], str):
            return ({"true": interp.some(True), "false": interp.some(False)}.get(args[0], interp.NONE),)
        if callee.endswith("error_exit"):
            raise interp._Return("error_exit")
        if m == "is_empty" and isinstance(recv, str):
            return (recv == "",)
        return None

    def variant(i=None, f=None, b=None, s=""):
        opt = lambda x: interp.NONE if x is None else interp.some(x)
        return {"int_value": opt(i), "float_value": opt(f), "bool_value": opt(b), "string_value": s, "dt_from": interp.NONE, "dt_to": interp.NONE,
                "value_type": interp.Opaque("type")}
    cases = {
        "to_int": [(variant(i=2 ** 60 + 1, f=float(2 ** 60 + 1), s=str(2 ** 60 + 1)), 2 ** 60 + 1), (variant(i=7, f=7.0, s="7"), 7), (variant(f=2.0, s="2"), 2), (variant(s="42"), 42), (variant(s="2k"), 2000), (variant(s="abc"), 0)],
        "to_float": [(variant(f=1.5, s="1.5"), 1.5), (variant(i=3, s="3"), 3.0), (variant(s="2.5"), 2.5), (variant(s="2k"), 2000.0), (variant(s="abc"), 0.0)],
        "to_bool": [(variant(b=True, s="true"), True), (variant(b=False, s="false"), False), (variant(s="true"), True), (variant(s="false"), False),
                    (variant(i=1), True), (variant(i=0), False), (variant(), False)],
    }
    out = {}
    for fn, cs in cases.items():
        name = "function::Variant::" + fn
        h = ctx.anchor_hir(name)
        pid = ctx.prog.fns[name]["params"][0]["id"]
        res = []
        for selfv, want in cs:
            try:
                got = interp.Interp(call=call).run(h, {pid: selfv})
            except interp.Undecided as e:
                got = "undecided: %s" % e
            res.append((selfv, want, got))
        out[fn] = res
    return out


def interp_none():
    import interp
    return interp.NONE


def variant_constructors(ctx):
    """Variant::from_* store the value in the slot of their own type and render it plainly; coercions read their own slot
    first.  The constructors are evaluated (finite interpreter, crate calls interpreted) on sample values and the fields of
    the resulting struct are compared."""
    import interp

    def call(node, recv, args, it, env):
        callee = str(node.get("callee", ""))
        if callee.endswith("format_datetime") or callee.endswith("format_date"):
            return ("<formatted %s>" % (args[0],),)
        return None

    _inner_call = call

    def call(node, recv, args, it, env):        # noqa: F811
        # a time handed to a constructor is kept as it is: any chrono method that alters it yields another value
        if isinstance(recv, str) and recv.startswith("<dt") and node.get("m") in ("round_subsecs", "trunc_subsecs", "with_nanosecond", "with_second", "with_minute",
                                                                                     "with_hour", "duration_round", "duration_trunc", "checked_add_signed", "checked_sub_signed"):
            return ("<dt altered by %s>" % node.get("m"),)
        return _inner_call(node, recv, args, it, env)

    def build(fn, value):
        name = "function::Variant::" + fn
        h = ctx.anchor_hir(name)
        ps = ctx.prog.fns[name]["params"]
        return interp.Interp(call=call, prog=ctx.prog).run(h, {ps[0]["id"]: value})
    some, NONE = interp.some, interp.NONE
    want = {
        ("from_int", 7): {"value_type": "VariantType::Int", "int_value": some(7), "float_value": some(7.0), "string_value": "7"},
        ("from_int", -3): {"value_type": "VariantType::Int", "int_value": some(-3), "string_value": "-3"},
        ("from_float", 2.5): {"value_type": "VariantType::Float", "float_value": some(2.5), "int_value": some(2), "string_value": "2.5"},
        ("from_float", 8.0): {"value_type": "VariantType::Float", "float_value": some(8.0), "string_value": "8"},
        ("from_float", 1e19): {"value_type": "VariantType::Float", "float_value": some(1e19), "string_value": "10000000000000000000"},
        ("from_bool", True): {"value_type": "VariantType::Bool", "bool_value": some(True), "string_value": "true"},
        ("from_bool", False): {"value_type": "VariantType::Bool", "bool_value": some(False), "string_value": "false"},
        ("from_string", "abc"): {"value_type": "VariantType::String", "string_value": "abc", "int_value": NONE, "float_value": NONE, "bool_value": NONE},
        ("from_datetime", "<dt>"): {"value_type": "VariantType::DateTime", "dt_from": some("<dt>"), "dt_to": some("<dt>")},
    }
    n = 0
    for (fn, value), fields in want.items():
        try:
            got = build(fn, value)
        except interp.Undecided as e:
            ctx.violation("variant/%s/shape" % fn, ctx.where("function::Variant::" + fn), "cannot evaluate Variant::%s: %s" % (fn, e))
            continue
        if not isinstance(got, dict):
            ctx.violation("variant/%s/shape" % fn, ctx.where("function::Variant::" + fn), "Variant::%s does not build a Variant literal" % fn)
            continue
        for k, v in fields.items():
            n += 1
            g = got.get(k)
            if isinstance(g, interp.V) and k == "value_type":
                g = g.name
            if isinstance(v, str) and k == "string_value" and fn == "from_float" and isinstance(g, str):
                # Rust prints 1e19 as 10000000000000000000 and 8.0 as 8; the model of f64::to_string prints the same
                pass
            ok = g == v
            ctx.obligation(ok)
            if not ok:
                key = "text" if k == "string_value" and fn in ("from_int", "from_float", "from_bool") else k
                ctx.violation("variant/%s/%s" % (fn, key), ctx.where("function::Variant::" + fn),
                              "Variant::%s(%r) sets %s to `%s`, expected `%s`" % (fn, value, k, g, v))
    # with_sign: a leading minus negates the value in its own type (an integer as an integer, a float as a float - no
    # truncation -, a text gets the sign in front), and no minus leaves the value alone
    ws = "function::Variant::with_sign"
    if ws in ctx.prog.fns:
        wh = ctx.prog.hir(ws)
        wps = ctx.prog.fns[ws]["params"]
        for fn, value, want_text, want_ty in (("from_int", 7, "-7", "Int"), ("from_int", -3, "3", "Int"), ("from_float", 2.5, "-2.5", "Float"),
                                              ("from_float", -0.75, "0.75", "Float"), ("from_float", 8.0, "-8", "Float"), ("from_string", "abc", "-abc", "String")):
            try:
                base = build(fn, value)
                keep = interp.Interp(call=call, prog=ctx.prog).run(wh, {wps[0]["id"]: dict(base), wps[1]["id"]: False})
                neg = interp.Interp(call=call, prog=ctx.prog).run(wh, {wps[0]["id"]: dict(base), wps[1]["id"]: True})
            except interp.Undecided as e:
                ctx.violation("variant/with_sign/shape", ctx.where(ws), "cannot evaluate Variant::with_sign on %s(%r): %s" % (fn, value, e))
                break
            n += 1
            ty = neg.get("value_type").name.split("::")[-1] if isinstance(neg, dict) and isinstance(neg.get("value_type"), interp.V) else None
            ok = isinstance(neg, dict) and neg.get("string_value") == want_text and ty == want_ty and isinstance(keep, dict) and keep.get("string_value") == base.get("string_value")
            ctx.obligation(ok)
            if not ok:
                ctx.violation("variant/with_sign/%s" % want_ty, ctx.where(ws),
                              "a leading minus on %s(%r) gives `%s` of type %s, expected `%s` of type %s (the value negated in its own type, nothing truncated)" %
                              (fn, value, neg.get("string_value") if isinstance(neg, dict) else neg, ty, want_text, want_ty))
    # coercions: own slot first, then the other slot, then the text (number, size literal), else zero / false
    tbl = variant_coercion_table(ctx)
    for fn, res in tbl.items():
        for selfv, want_v, got in res:
            n += 1
            ok = got == want_v and type(got) == type(want_v)
            ctx.obligation(ok)
            if not ok:
                desc = {k: v for k, v in selfv.items() if k in ("int_value", "float_value", "bool_value", "string_value") and v != interp_none()}
                slot = "own-slot" if (fn == "to_int" and selfv["int_value"] != interp_none()) or (fn == "to_float" and selfv["float_value"] != interp_none()) or \
                    (fn == "to_bool" and selfv["bool_value"] != interp_none()) else "fallback"
                ctx.violation("variant/%s/%s" % (fn, slot), ctx.where("function::Variant::" + fn),
                              "Variant::%s of a value with %s yields %r, expected %r" % (fn, desc, got, want_v))
    # get_type returns the stored type; to_string the stored text
    gt = ctx.anchor_hir("function::Variant::get_type")
    ok = render(peel_result(gt)) in ("self.value_type", "&self.value_type")
    ts = ctx.anchor_hir("function::Variant::to_string")
    ok = ok and "self.string_value" in render(ts)
    n += 1
    ctx.obligation(ok)
    if not ok:
        ctx.violation("variant/accessors", ctx.where("function::Variant::get_type"), "Variant::get_type / to_string must return the stored type / text")
    ctx.covered("Variant constructors, text renderings and coercion order", n, distinct_keys=list(want) + ["to_int", "to_float", "to_bool", "accessors"])


def roots_by_evaluation(ctx):
    """parse_roots evaluated (finite interpreter; the cursor is the lexem list and index; parse_root_options, RootOptions::new,
    Root::new read from the source) on 9 FROM clauses: every root of a comma list gets its own path and exactly the options
    written after it, the documented defaults otherwise; the cursor stops at the next clause.  None = cannot be evaluated."""
    import interp
    V = interp.V
    fn = "parser::Parser::parse_roots"
    hir = ctx.anchor_hir(fn)
    ps = ctx.prog.fns[fn]["params"]
    W, FROM, COMMA, WHERE = (lambda t: V("Lexem::RawString", [t])), V("Lexem::From"), V("Lexem::Comma"), V("Lexem::Where")
    DEF = {"min_depth": 0, "max_depth": 0, "archives": False, "symlinks": False, "gitignore": None, "hgignore": None, "dockerignore": None,
           "traversal": "Bfs", "regexp": False}
    scen = [
        ("no from", [WHERE, W("x")], [], 0),
        ("from /a", [FROM, W("/a")], [("/a", {})], 2),
        ("from /a, /b", [FROM, W("/a"), COMMA, W("/b")], [("/a", {}), ("/b", {})], 4),
        ("from /a depth 2 archives, /b", [FROM, W("/a"), W("depth"), W("2"), W("archives"), COMMA, W("/b")], [("/a", {"max_depth": 2, "archives": True}), ("/b", {})], 7),
        ("from /a, /b mindepth 1 symlinks dfs", [FROM, W("/a"), COMMA, W("/b"), W("mindepth"), W("1"), W("symlinks"), W("dfs")],
         [("/a", {}), ("/b", {"min_depth": 1, "symlinks": True, "traversal": "Dfs"})], 8),
        ("from /a maxdepth 1, /b depth 3, /c", [FROM, W("/a"), W("maxdepth"), W("1"), COMMA, W("/b"), W("depth"), W("3"), COMMA, W("/c")],
         [("/a", {"max_depth": 1}), ("/b", {"max_depth": 3}), ("/c", {})], 10),
        ("from /a nogit hg nodock regexp where", [FROM, W("/a"), W("nogit"), W("hg"), W("nodock"), W("regexp"), WHERE, W("x")],
         [("/a", {"gitignore": False, "hgignore": True, "dockerignore": False, "regexp": True})], 6),
        ("from /a where", [FROM, W("/a"), WHERE, W("x")], [("/a", {})], 2),
        ("from /a nohg dock bfs, /b sym", [FROM, W("/a"), W("nohg"), W("dock"), W("bfs"), COMMA, W("/b"), W("sym")],
         [("/a", {"hgignore": False, "dockerignore": True}), ("/b", {"symlinks": True})], 8),
    ]

    def plain(v):
        if isinstance(v, V):
            if v.name == "Option::Some":
                return plain(v.args[0])
            if v.name == "Option::None":
                return None
            return v.name.split("::")[-1]
        return v
    bad, n = [], 0
    for label, lex, want, cursor in scen:
        selfv = interp.LazySelf({"lexems": list(lex), "index": 0})
        try:
            got = interp.Interp(prog=ctx.prog, max_steps=60000).run(hir, {ps[0]["id"]: selfv})
        except interp.Undecided as e:
            ctx.covered("evaluation of parse_roots gave up (%s: %s); the structural rules apply" % (label, str(e)[:160]), 0)
            return None
        n += 1
        roots = []
        for r in got if isinstance(got, list) else []:
            o = r.get("options") if isinstance(r, dict) else None
            roots.append((plain(r.get("path")) if isinstance(r, dict) else repr(r), {k: plain(v) for k, v in o.items() if not k.startswith("__")} if isinstance(o, dict) else repr(o)))
        exp = [(p_, dict(DEF, **ov)) for p_, ov in want]
        at = min(selfv["index"], len(lex))        # past the end every further read is "no lexem": all positions >= len are one
        ok = roots == exp and at == cursor
        ctx.obligation(ok)
        if not ok:
            diff = []
            for i, (p_, o) in enumerate(exp):
                if i >= len(roots):
                    diff.append("root %s is missing" % p_)
                elif roots[i][0] != p_:
                    diff.append("root %d is %s, expected %s" % (i + 1, roots[i][0], p_))
                elif roots[i][1] != o:
                    diff.append("%s has %s, expected %s" % (p_, {k: v for k, v in roots[i][1].items() if o.get(k) != v} if isinstance(roots[i][1], dict) else roots[i][1],
                                                         {k: v for k, v in o.items() if not isinstance(roots[i][1], dict) or roots[i][1].get(k) != v}))
            if len(roots) > len(exp):
                diff.append("%d roots too many" % (len(roots) - len(exp)))
            if at != cursor:
                diff.append("the cursor is left at %d, expected %d" % (at, cursor))
            bad.append("`%s`: %s" % (label, "; ".join(diff)))
    ctx.covered("parse_roots evaluated on 9 FROM clauses (paths, options per root, defaults, cursor)", n, distinct_keys=[s_[0] for s_ in scen], exhaustive=True)
    if bad:
        ctx.violation("root-defaults/parse_roots", ctx.where(fn), "every root of a FROM clause has its own path and exactly the options written after it (documented defaults "
                      "otherwise) and the cursor stops at the next clause: %s" % " | ".join(bad[:3]))
    return True


def _root_defaults_structural(ctx):
    h = ctx.anchor_hir("query::RootOptions::new")
    fs, node = struct_fields_of(h, "RootOptions")
    want = {"min_depth": "0", "max_depth": "0", "archives": "false", "symlinks": "false", "gitignore": "Option::None",
            "hgignore": "Option::None", "dockerignore": "Option::None", "traversal": "TraversalMode::Bfs", "regexp": "false"}
    n = 0
    for k, v in want.items():
        n += 1
        got = render(peel(fs[k], methods=False)) if fs and k in fs else None
        ok = got == v
        ctx.obligation(ok)
        if not ok:
            ctx.violation("root-defaults/%s" % k, ctx.where("query::RootOptions::new"), "the default of root option %s is `%s`, documented default `%s`" % (k, got, v))
    # Root::new pairs path and options; Root::default uses the given options
    rn = ctx.anchor_hir("query::Root::new")
    fs, node = struct_fields_of(rn, "Root")
    ok = fs is not None and render(fs.get("path")) == "path" and render(fs.get("options")) == "options"
    n += 1
    ctx.obligation(ok)
    if not ok:
        ctx.violation("root-defaults/Root::new", ctx.where("query::Root::new"), "Root::new must store its path and options")
    # parse_roots: after a comma both the path and the options start afresh; each push uses the current pair
    pr = ctx.anchor_hir("parser::Parser::parse_roots")
    comma = None
    for m in find_matches(pr):
        for a in match_arms(m):
            if any("Lexem::Comma" in render_pat(p) for p in pat_alts(a["pat"])):
                comma = a
    ok = False
    if comma is not None:
        asg = {render(x["l"]): render(x["r"]) for x in walk_exprs(comma["body"]) if x["k"] == "Assign"}
        push = [c for c in walk_exprs(comma["body"]) if c["k"] == "MCall" and c["m"] == "push" and render(c["recv"]) == "roots"]
        ok = asg.get("root_options") == "RootOptions::new()" and asg.get("path", "").startswith("From::from(\"\")") or \
            (asg.get("root_options") == "RootOptions::new()" and '""' in asg.get("path", ""))
        ok = ok and len(push) == 1 and render(push[0]["args"][0]) == "Root::new(path, root_options)"
    n += 1
    ctx.obligation(ok)
    if not ok:
        ctx.violation("root-defaults/comma-reset", ctx.where("parser::Parser::parse_roots"),
                      "after a comma the finished root must be pushed with its own path and options and both must be reset for the next root")
    pushes = [c for c in walk_exprs(pr) if c["k"] == "MCall" and c["m"] == "push" and render(c["recv"]) == "roots"]
    bad = [render(c["args"][0]) for c in pushes if render(c["args"][0]) not in ("Root::new(path, root_options)", "Root::new(path, RootOptions::new())")]
    n += 1
    ctx.obligation(not bad)
    if bad:
        ctx.violation("root-defaults/push", ctx.where("parser::Parser::parse_roots"), "a root is recorded as %s" % bad)
    # options parsed after a root are assigned to that root
    ro = [x for x in walk_exprs(pr) if x["k"] == "Assign" and render(x["l"]) == "root_options" and "options" == render(x["r"])]
    n += 1
    ctx.obligation(bool(ro))
    if not ro:
        ctx.violation("root-defaults/options-binding", ctx.where("parser::Parser::parse_roots"), "the options parsed after a root path are not stored for that root")
    return n, want


def root_defaults(ctx):
    """RootOptions::new defaults; every root of a comma list gets its own path and options"""
    evaluated = roots_by_evaluation(ctx)
    n, want = 0, {}
    if not evaluated:
        n, want = _root_defaults_structural(ctx)
    # a regexp root is expanded into literal roots by Root::clone_with_path: each of them carries every option of the root it
    # came from (evaluated: a source root with every option off its default)
    import interp
    cw = "query::Root::clone_with_path"
    if cw in ctx.prog.fns:
        a_ = ctx.prog.adts.get("query::RootOptions")
        src_opts = {}
        for f_ in (a_["variants"][0]["fields"] if a_ else []):
            t_ = str(f_.get("ty", ""))
            src_opts[f_["name"]] = (True if t_ == "bool" else 7 if t_ in ("u32", "usize", "u64") else interp.some(True) if "Option<bool>" in t_ else
                                    interp.V("TraversalMode::Dfs") if "TraversalMode" in t_ else interp.some("x") if "Option<" in t_ else interp.Opaque(f_["name"]))
        ps_ = ctx.prog.fns[cw]["params"]
        n += 1
        try:
            got = interp.Interp(prog=ctx.prog).run(ctx.anchor_hir(cw), {ps_[0]["id"]: "/expanded", ps_[1]["id"]: {"path": "/pattern.*", "options": dict(src_opts)}})
            go = got.get("options") if isinstance(got, dict) else None
            lost = sorted(k for k in src_opts if k != "regexp" and not (isinstance(go, dict) and go.get(k) == src_opts[k]))
            okc = isinstance(got, dict) and got.get("path") == "/expanded" and not lost
            why = "a root with every option set is expanded into %s: lost or changed %s" % ({k: v for k, v in (go or {}).items() if not k.startswith("__")}, lost)
        except interp.Undecided as e:
            okc, why = False, "cannot evaluate: %s" % e
        ctx.obligation(okc)
        if not okc:
            ctx.violation("root-defaults/clone_with_path", ctx.where(cw),
                          "the literal roots a regexp root expands to must keep all its options (depth window, archives, symlinks, ignore switches, traversal) and take the new path; %s" % why)
    ctx.covered("root option defaults, Root::new, per-root reset in parse_roots, options kept by regexp expansion", n, distinct_keys=list(want) + ["Root::new", "comma", "push", "binding", "clone_with_path"])


def _expr_dict(interp, **kw):
    d = {"left": interp.NONE, "arithmetic_op": interp.NONE, "logical_op": interp.NONE, "op": interp.NONE, "right": interp.NONE, "minus": False,
         "field": interp.NONE, "function": interp.NONE, "args": interp.NONE, "val": interp.NONE}
    d.update(kw)
    return d


def searcher_self(ctx, interp, q, **fields):
    """`self` of a Searcher method in a scenario: the given fields, and for any other field the value its initialiser in the
    struct literal of Searcher::new has when `new` is given the scenario's query (other parameters unknown)"""
    NEW = "searcher::Searcher::new"
    me = interp.CtorSelf(dict(fields, query=q))
    h = ctx.prog.hir(NEW) if NEW in ctx.prog.fns else None
    if h is None:
        return me
    lit = [x for x in walk_exprs(h) if x["k"] == "Struct" and str(x.get("res", "")).endswith("searcher::Searcher")]
    if len(lit) != 1:
        return me
    env = {}
    import norm
    tys = norm.param_types(ctx.prog.fns[NEW].get("sig"))
    for i_, p_ in enumerate(ctx.prog.fns[NEW]["params"]):
        env[p_["id"]] = q if i_ < len(tys) and tys[i_].lstrip("&").strip() == "query::Query" else interp.Opaque(p_.get("name") or "?")
    inits = {f["name"]: f["e"] for f in lit[0]["fields"]}

    def init(name):
        if name not in inits:
            return None
        it = interp.Interp(prog=ctx.prog, max_steps=20000)
        # the statements before the literal (locals the initialisers use) are run first; what they cannot decide stays unknown
        env2 = dict(env)
        try:
            it.run_until(h, lit[0], env2) if hasattr(it, "run_until") else None
        except interp.Undecided:
            pass
        return (it.ev(inits[name], env2),)
    me.init = init
    return me


def buffering_predicates(ctx):
    """is_buffered = ordered or aggregate; the recursive expression predicates look at every child.  The predicates are
    evaluated (finite interpreter, crate calls interpreted) on queries whose select list holds an aggregate at the root, in
    the left or right operand, or among the arguments of an expression, with and without ORDER BY keys."""
    import interp
    some = interp.some
    E = lambda **kw: _expr_dict(interp, **kw)
    agg = lambda: E(function=some(interp.V("Function::Max")), left=some(E(field=some(interp.V("Field::Size")))))
    plain = lambda: E(field=some(interp.V("Field::Name")))
    fn_plain = lambda: E(function=some(interp.V("Function::Lower")), left=some(plain()))
    shapes = {
        "plain": (plain(), False), "function": (fn_plain(), False), "aggregate": (agg(), True),
        "aggregate-left": (E(left=some(agg()), arithmetic_op=some(interp.V("ArithmeticOp::Add")), right=some(E(val=some("1")))), True),
        "aggregate-right": (E(left=some(E(val=some("1"))), arithmetic_op=some(interp.V("ArithmeticOp::Add")), right=some(agg())), True),
        "aggregate-arg": (E(function=some(interp.V("Function::Concat")), left=some(plain()), args=some([plain(), agg()])), True),
        "aggregate-inner": (E(function=some(interp.V("Function::Lower")), left=some(E(left=some(plain()), arithmetic_op=some(interp.V("ArithmeticOp::Add")), right=some(agg())))), True),
    }
    n = 0
    name = "searcher::Searcher::is_buffered"
    ib = ctx.anchor_hir(name)
    ps = ctx.prog.fns[name]["params"]
    bad = None
    for ordered in (False, True):
        for nm, (ex, is_agg) in shapes.items():
            for pos in (0, 1):
                fields = [plain(), ex] if pos else [ex, plain()]
                q = {"fields": fields, "ordering_fields": [plain()] if ordered else [], "ordering_asc": [True] if ordered else [], "grouping_fields": [],
                     "roots": [], "expr": interp.NONE, "limit": 0}
                try:
                    got = interp.Interp(prog=ctx.prog, max_steps=20000).run(ib, {ps[0]["id"]: searcher_self(ctx, interp, q)})
                except interp.Undecided as e:
                    bad = ("unreadable", "cannot evaluate is_buffered: %s" % e)
                    break
                n += 1
                want = ordered or is_agg
                if got != want and bad is None:
                    bad = ("is_buffered" if nm in ("plain", "function", "aggregate") else "has_aggregate_function",
                           "rows must be buffered exactly when the query is ordered or aggregates: for a query %s ORDER BY whose select list holds "
                           "an expression of shape `%s` is_buffered is %s" % ("with" if ordered else "without", nm, got))
            if bad and bad[0] == "unreadable":
                break
        if bad and bad[0] == "unreadable":
            break
    ctx.obligation(bad is None)
    if bad:
        ctx.violation("buffering/%s" % bad[0], ctx.where(name), bad[1])
    # the columns an expression needs: every child position contributes (left, right, arguments, the node's own column)
    for fn in ("expr::Expr::get_required_fields",):
        h = ctx.anchor_hir(fn)
        fps = ctx.prog.fns[fn]["params"]
        f = lambda v: E(field=some(interp.V("Field::" + v)))
        tree = E(function=some(interp.V("Function::Concat")), field=interp.NONE,
                 left=some(E(left=some(f("Size")), arithmetic_op=some(interp.V("ArithmeticOp::Add")), right=some(f("Uid")))),
                 args=some([f("Name"), E(function=some(interp.V("Function::Lower")), left=some(f("Path")))]))
        okf, why = True, ""
        try:
            got = interp.Interp(prog=ctx.prog, max_steps=20000).run(h, {fps[0]["id"]: tree})
            names = sorted(x.name.split("::")[-1] if isinstance(x, interp.V) else str(x) for x in got)
            okf = names == ["Name", "Path", "Size", "Uid"]
            why = "a tree with columns at left.left, left.right, args[0] and args[1].left yields %s" % names
        except (interp.Undecided, TypeError) as e:
            okf, why = False, "cannot evaluate: %s" % e
        n += 1
        ctx.obligation(okf)
        if not okf:
            ctx.violation("buffering/get_required_fields", ctx.where(fn), "get_required_fields must collect the columns of left, right, the arguments and the node itself; %s" % why)
    fn = "query::Query::get_all_fields"
    h = ctx.anchor_hir(fn)
    fps = ctx.prog.fns[fn]["params"]
    okf, why = True, ""
    try:
        q = {"fields": [E(field=some(interp.V("Field::Name"))), E(left=some(E(field=some(interp.V("Field::Size")))), arithmetic_op=some(interp.V("ArithmeticOp::Add")), right=some(E(val=some("1"))))],
             "ordering_fields": [], "grouping_fields": [], "expr": interp.NONE}
        got = interp.Interp(prog=ctx.prog, max_steps=20000).run(h, {fps[0]["id"]: q})
        names = sorted(x.name.split("::")[-1] if isinstance(x, interp.V) else str(x) for x in got)
        okf = names == ["Name", "Size"]
        why = "select list (name, size + 1) yields %s" % names
    except (interp.Undecided, TypeError) as e:
        okf, why = False, "cannot evaluate: %s" % e
    n += 1
    ctx.obligation(okf)
    if not okf:
        ctx.violation("buffering/get_all_fields", ctx.where(fn), "get_all_fields must collect the required fields of every selected expression; %s" % why)
    ctx.covered("buffering predicate evaluated on 7 expression shapes x 2 positions x ordered/unordered; required-column collection", n,
                distinct_keys=list(shapes) + ["get_required_fields", "get_all_fields"], exhaustive=True)


def colorize_gate(ctx):
    """ANSI colouring only on a terminal and only for the name column"""
    ch = ctx.anchor_hir("searcher::Searcher::check_file")
    cs = [c for c in walk_exprs(ch) if c["k"] == "MCall" and c["m"] == "colorize"]
    ok = len(cs) == 1
    if ok:
        g = guards_of(ch, cs[0])
        pos, _ = guard_atoms(g)
        locs = Locals(ch)
        ptxt = [render(locs.chase(p)) for p in pos]
        ok = any(p == "self.use_colors" for p in ptxt) and any("contains_colorized()" in p for p in ptxt)
    ctx.obligation(ok)
    if not ok:
        ctx.violation("colors/gate", ctx.where("searcher::Searcher::check_file"), "values may be colourised only under `use_colors && field.contains_colorized()`")
    # the flag handed to the searcher (the argument of Searcher::new that is a bool) is evaluated on (colours disabled) x (standard
    # output is a terminal): true exactly when colours are not disabled and the output is a terminal
    import interp
    eh = ctx.anchor_hir("exec_search")
    lets = {x["pat"].get("name"): render(x["init"]) for x in walk(eh) if x["k"] == "Let" and x["pat"]["k"] == "Bind" and "init" in x}
    news = [c for c in walk_exprs(eh) if c["k"] == "Call" and str(c.get("callee", "")).endswith("Searcher::new")]
    flag_args = [a_ for c in news for a_ in c["args"] if str(a_.get("ty", "")) == "bool"]
    ok = len(flag_args) == 1
    why = "found %s" % lets.get("use_colors")
    if ok:
        try:
            tbl = {}
            for no_color in (False, True):
                for tty in (False, True):
                    def call(node, recv, args, it, env, tty=tty):
                        if node.get("m") == "is_terminal":
                            return (tty,)
                        if str(node.get("callee", "")).endswith(("io::stdout", "stdio::stdout")):
                            return (interp.Opaque("stdout"),)
                        return None
                    tbl[(no_color, tty)] = interp.eval_in(eh, flag_args[0], {"no_color": no_color}, call=call, prog=ctx.prog)
            ok = all(v is ((not nc) and tty) for (nc, tty), v in tbl.items())
            why = "on (colours disabled, terminal) it is %s" % {k: v for k, v in tbl.items()}
        except interp.Undecided as e:
            ok, why = False, "cannot evaluate the colour flag: %s" % e
    ctx.obligation(ok)
    if not ok:
        ctx.violation("colors/terminal", ctx.where("exec_search"), "colours may be used only when not disabled and standard output is a terminal; %s" % why)
    fh = ctx.anchor_hir("field::Field::is_colorized_field")
    import tables
    vs = tables.variant_set(ctx, "field::Field::is_colorized_field")
    ok = vs == {"Name"}
    ctx.obligation(ok)
    if not ok:
        ctx.violation("colors/fields", ctx.where("field::Field::is_colorized_field"), "only the name column is colourised; found %s" % sorted(vs))
    ctx.covered("colour gating (terminal, name column)", 3, distinct_keys=["gate", "terminal", "fields"])


def lexer_classes(ctx):
    """the lexer's operator / arithmetic character classes and their context gates"""
    import itertools
    import interp
    flags = ["before_from", "after_where", "after_open", "after_operator"]
    chars = [chr(i) for i in range(33, 127)] + [" ", "é"]
    arith_spec = {"+": lambda f: f["before_from"] or f["after_where"], "-": lambda f: f["before_from"] or f["after_where"]}
    for c in "*/%":
        arith_spec[c] = lambda f: (f["before_from"] or f["after_where"]) and not f["after_open"] and not f["after_operator"]
    n = 0
    for fname, spec in (("lexer::Lexer::is_op_char", lambda c, f: c in "=!<>~" and (f["before_from"] or f["after_where"])),
                        ("lexer::Lexer::is_arithmetic_op_char", lambda c, f: c in arith_spec and bool(arith_spec[c](f)))):
        h = ctx.anchor_hir(fname)
        ps = ctx.prog.fns[fname]["params"]
        bad = None
        for vals in itertools.product([False, True], repeat=4):
            fl = dict(zip(flags, vals))
            for c in chars:
                try:
                    got = interp.Interp().run(h, {ps[0]["id"]: dict(fl, possible_search_root=False), ps[1]["id"]: c})
                except interp.Undecided as e:
                    bad = ("unreadable", "cannot evaluate %s: %s" % (short(fname, 1), e))
                    break
                n += 1
                want = bool(spec(c, fl))
                if got != want:
                    bad = ("%s/%s" % ("context" if c in "=!<>~+-*/%" else "chars", c),
                           "`%s` is %s character when %s" % (c, ("wrongly an %s" if got else "not an %s") % ("operator" if "is_op_char" in fname else "arithmetic"),
                                                            {k: v for k, v in fl.items() if v} or "no context flag is set"))
                    break
            if bad:
                break
        ctx.obligation(bad is None)
        if bad:
            key = "lexer/op-%s" % bad[0] if "is_op_char" in fname else "lexer/arith-%s" % bad[0]
            ctx.violation(key, ctx.where(fname), bad[1])
    spec = arith_spec
    nh = None
    # context flag updates
    nh = ctx.anchor_hir("lexer::Lexer::next_lexem")
    asg = {}
    for x in walk_exprs(nh):
        if x["k"] == "Assign" and x["l"]["k"] == "Field" and render(x["l"]["e"]) == "self":
            asg.setdefault(x["l"]["name"], []).append(x)
    checks = {
        "after_operator": lambda xs: len(xs) == 1 and "Lexem::Operator" in " ".join(render_pat(p) for y in walk(xs[0]["r"]) if y["k"] == "Match" for a in y["arms"] for p in pat_alts(a["pat"])),
    }
    # a quoted literal ends at the quote character that opened it and nowhere else: the dispatch on the lexing mode is evaluated for
    # the three quoted modes x the three quote characters and an ordinary one
    qm = None
    for x in walk_exprs(nh):
        if x["k"] == "Match" and x.get("src") == "Normal" and any("SingleQuotedString" in render_pat(a["pat"]) for a in x["arms"]) and \
                any(y["k"] == "Break" for y in walk_exprs(x)):
            qm = x
    okq, whyq = qm is not None, "the dispatch on the quoted lexing modes was not found"
    if okq:
        cq = next((y.get("name") for y in walk_exprs(qm) if y["k"] == "Path" and y.get("rk") == "Local" and str(y.get("ty", "")) in ("char", "&char")), "c")
        mvar = peel(qm["scrut"]).get("name", "mode")
        for mode_, own in (("SingleQuotedString", "'"), ("DoubleQuotedString", '"'), ("BackticksQuotedString", "`")):
            for ch in ("'", '"', "`", "x", " "):
                selfv = {"before_from": True, "after_where": False, "after_open": False, "after_operator": False, "possible_search_root": False,
                         "char_index": 0, "input_index": 0, "input": ["ab"]}
                closed = False
                envq = {"self": selfv, cq: ch, "s": "ab", mvar: interp.V("LexingMode::" + mode_)}
                try:
                    try:
                        interp.eval_in(nh, qm, envq, prog=ctx.prog)
                    except interp._Break:
                        closed = True
                except interp.Undecided as e:
                    okq, whyq = False, "cannot evaluate the quoted mode %s on `%s`: %s" % (mode_, ch, e)
                    break
                if closed != (ch == own):
                    okq, whyq = False, "in a literal opened with %s the character %s %s the literal" % (own, ch, "ends" if closed else "does not end")
                    break
            if not okq:
                break
    ctx.obligation(okq)
    if not okq:
        ctx.violation("lexer/quotes", ctx.where("lexer::Lexer::next_lexem"), "a quoted literal must end exactly at the quote character that opened it (the other two are ordinary characters inside it): %s" % whyq)
    # after_open = "the lexem just started is an opening bracket", of either style: the block holding the assignment (the
    # dispatch on the first character of a lexem followed by the flag update) is evaluated for every first character
    ao = asg.get("after_open", [])
    okao, whyao = len(ao) == 1, "%d assignments" % len(ao)
    if okao:
        chain = path_to(nh, ao[0]) or []
        blk = next((a for a, _k in reversed(chain) if a["k"] == "Block"), None)
        nl = Locals(nh)
        cvar = next((y.get("name") for y in walk_exprs(blk) if y["k"] == "Path" and y.get("rk") == "Local" and str(y.get("ty", "")) in ("char", "&char")), "c") if blk else "c"
        for ch in "({)},x'+=":
            selfv = {"before_from": True, "after_where": False, "after_open": False, "after_operator": False, "possible_search_root": False,
                     "char_index": 0, "input_index": 0, "input": ["ab"]}
            try:
                interp.eval_in(nh, blk, {"self": selfv, cvar: ch, "s": "", "mode": interp.V("LexingMode::Undefined")}, prog=ctx.prog)
            except interp.Undecided as e:
                okao, whyao = False, "cannot evaluate the first-character dispatch for `%s`: %s" % (ch, e)
                break
            if selfv["after_open"] != (ch in "({"):
                okao, whyao = False, "after the first character `%s` after_open is %s" % (ch, selfv["after_open"])
                break
    ctx.obligation(okao)
    if not okao:
        ctx.violation("lexer/flag/after_open", ctx.where("lexer::Lexer::next_lexem"), "the lexer context flag after_open is not maintained as `the previous lexem was an opening bracket ( or {`: %s" % whyao)
    for fl, pred in checks.items():
        ok = pred(asg.get(fl, []))
        ctx.obligation(ok)
        if not ok:
            ctx.violation("lexer/flag/%s" % fl, ctx.where("lexer::Lexer::next_lexem"), "the lexer context flag %s is not maintained as `the previous lexem was %s`" % (fl, fl.replace("after_", "")))
    # possible_search_root (a whole shell word may be a path): after FROM, and after a comma of the root list only
    import interp
    psr = asg.get("possible_search_root", [])
    ok = len(psr) >= 1
    final = psr[-1] if psr else None
    bad = None
    if final is not None:
        ids = {x["res"] for x in walk_exprs(final["r"]) if x["k"] == "Path" and x.get("rk") == "Local"}
        selfs = {i for i in ids if i.startswith("local:self:")}
        lex = ids - selfs
        for lv, lname in ((interp.some(interp.V("Lexem::From")), "From"), (interp.some(interp.V("Lexem::Comma")), "Comma"),
                          (interp.some(interp.V("Lexem::Where")), "Where"), (interp.some(interp.V("Lexem::Open")), "Open"),
                          (interp.some(interp.V("Lexem::RawString", [interp.Opaque("s")])), "RawString"), (interp.NONE, "end")):
            for bf in (False, True):
                for aw in (False, True):
                    env = {i: lv for i in lex}
                    for i in selfs:
                        env[i] = {"before_from": bf, "after_where": aw, "after_open": False, "after_operator": False}
                    try:
                        got = interp.Interp().ev(final["r"], env)
                    except interp.Undecided as e:
                        bad = "cannot evaluate: %s" % e
                        break
                    want = lname == "From" or (lname == "Comma" and not bf and not aw)
                    if got != want and bad is None:
                        bad = "after %s with before_from=%s, after_where=%s the next shell word %s taken whole as a search root" % (
                            lname, bf, aw, "is" if got else "is not")
    ok = ok and bad is None
    ctx.obligation(ok)
    if not ok:
        ctx.violation("lexer/flag/possible_search_root", ctx.where("lexer::Lexer::next_lexem", final),
                      "a shell word may be taken whole as a search root only right after FROM or after a comma of the root list "
                      "(not in the select list, not after WHERE): %s" % (bad or "assignment not found"))
    # from: before_from := false, after_where := false; where: after_where := true
    m = None
    import tables as _t
    m = _t.string_match(nh, 8)
    eff = {}
    if m:
        for a in match_arms(m):
            for k in a["keys"]:
                if key_name(k) in ("from", "where"):
                    eff[key_name(k)] = {render(x["l"]): render(x["r"]) for x in walk_exprs(a["body"]) if x["k"] == "Assign"}
    ok = eff.get("from") == {"self.before_from": "false", "self.after_where": "false"} and eff.get("where") == {"self.after_where": "true"}
    ctx.obligation(ok)
    if not ok:
        ctx.violation("lexer/flag/clauses", ctx.where("lexer::Lexer::next_lexem"), "`from` must end the select list and any WHERE context, `where` must start the WHERE context; found %s" % eff)
    # the end of an unquoted token: space, comma, any bracket (round or curly, in every context) and the operator characters of
    # the context.  The terminating condition of the RawString mode is found (an `if` that breaks the character loop and tests
    # the character against ' ' and ',') and evaluated on every character x flag valuation.
    terms = []
    nlocs = Locals(nh)

    def char_lits(e, depth=0):
        out = {y["v"] for y in walk(e) if y["k"] in ("Lit", "PLit") and y.get("lk") == "char"}
        if depth < 3:
            for y in walk_exprs(e):
                if y["k"] == "Path" and y.get("rk") == "Local" and y["res"] in nlocs.defs:
                    out |= char_lits(nlocs.defs[y["res"]], depth + 1)
        return out
    for x in walk_exprs(nh):
        if x["k"] == "If" and diverges(x["t"]) and any(y["k"] == "Break" for y in walk_exprs(x["t"])):
            lits = char_lits(x["c"])
            if " " in lits and "," in lits:
                terms.append(x)

    def tcall(node, recv, args, it, env):
        # the text read so far is neither a date prefix nor an arithmetic expression
        if str(node.get("callee", "")).endswith(("looks_like_date", "looks_like_expression")):
            return (False,)
        return None
    okt = len(terms) == 1
    badt = None
    if okt:
        cond = terms[0]["c"]
        def char_var(e, depth=0):
            for y in walk_exprs(e):
                if y["k"] == "Bin" and y["op"] == "==":
                    l_, r_ = peel(y["l"]), peel(y["r"])
                    for a_, b_ in ((l_, r_), (r_, l_)):
                        if a_["k"] == "Path" and a_.get("rk") == "Local" and b_["k"] == "Lit" and b_.get("lk") == "char":
                            return a_.get("name")
                if y["k"] == "Match" and any(z["k"] == "PLit" and z.get("lk") == "char" for a in y["arms"] for z in walk(a["pat"])):
                    sc = peel(y["scrut"])
                    if sc["k"] == "Path" and sc.get("rk") == "Local":
                        return sc.get("name")
            if depth < 3:
                for y in walk_exprs(e):
                    if y["k"] == "Path" and y.get("rk") == "Local" and y["res"] in nlocs.defs:
                        r = char_var(nlocs.defs[y["res"]], depth + 1)
                        if r:
                            return r
            return None
        cname = char_var(cond) or "c"
        # the tested character may be the parameter of an inlined helper (`let next = c`): the scenario binds the variable it is
        # an alias of as well
        cnames = {cname}
        for _ in range(3):
            for y in walk(cond):
                if y["k"] == "Let" and y.get("inl_param") and y["pat"].get("name") in cnames and "init" in y:
                    src_ = peel(y["init"])
                    if src_["k"] == "Path" and src_.get("rk") == "Local" and src_.get("name"):
                        cnames.add(src_["name"])
        for vals in itertools.product([False, True], repeat=4):
            fl = dict(zip(flags, vals))
            for c in chars:
              for words, psr in ((["a", "b"], False), (["a"], True), (["a", "b"], True)):
                try:
                    got = interp.eval_in(nh, cond, dict({"self": dict(fl, possible_search_root=psr, input=list(words))}, **{nm_: c for nm_ in cnames}), call=tcall, prog=ctx.prog)
                except interp.Undecided as e:
                    badt = ("unreadable", "cannot evaluate the end-of-token condition: %s" % e)
                    break
                n += 1
                want = (c in " ,(){}" or (c in "=!<>~" and (fl["before_from"] or fl["after_where"]))) and not (len(words) > 1 and psr)
                if got != want:
                    badt = ("%s" % ("bracket" if c in "(){}" else "char"),
                            "`%s` %s an unquoted token when %s: brackets of both styles, space, comma and the operator characters of the "
                            "context end a token, nothing else does" % (c, "ends" if got else "does not end", {k: v for k, v in fl.items() if v} or "no context flag is set"))
                    break
              if badt:
                  break
            if badt:
                break
    ctx.obligation(okt and badt is None)
    if not okt:
        ctx.violation("lexer/token-end/anchor", ctx.where("lexer::Lexer::next_lexem"), "the end-of-token test of the unquoted mode (break on ' ', ',', bracket, operator character) was not found (%d candidates)" % len(terms))
    elif badt:
        ctx.violation("lexer/token-end/%s" % badt[0], ctx.where("lexer::Lexer::next_lexem", terms[0]), badt[1])
    ctx.covered("lexer character classes (is_op_char, is_arithmetic_op_char) evaluated on 96 characters x 16 flag valuations; context flag updates", n + 6,
                distinct_keys=list(spec) + ["op-chars", "op-context", "flags"], exhaustive=True)


def looks_like_date_rule(ctx):
    h = ctx.anchor_hir("lexer::looks_like_date")
    lit = None
    for name, f in ctx.prog.fns.items():
        if name.startswith("lexer::DATE_ALIKE_REGEX") and "hir" in f:
            for x in walk_exprs(f["hir"]):
                if x["k"] == "Lit" and x["lk"] == "str":
                    lit = x["v"]
    # (what the regex accepts is decided by lexing date and number spellings by interpretation - X-NUMMINUS -, not by comparing
    # its text: a rewrite that accepts the same prefixes is silent)
    import extra2
    extra2.number_minus_is_arithmetic(ctx)
    import interp
    it = interp.Interp()
    bounds = []
    for c in walk_exprs(h):
        if c["k"] == "MCall" and c["m"] == "contains":
            try:
                r = it.ev(peel(c["recv"], methods=False), {})
            except interp.Undecided:
                r = None
            if r and r[0] == "range":
                bounds.append((r[1], r[2] if r[3] else r[2] - 1))
            else:
                bounds.append(render(c["recv"]))
    nb = sorted([b for b in bounds if isinstance(b, tuple)], key=lambda b: -b[1])
    ok = len(nb) == len(bounds) == 2 and nb[0][0] <= 1970 and nb[0][1] >= 2999 and nb[1][0] <= 1 and nb[1][1] >= 12
    ctx.obligation(ok)
    if not ok:
        ctx.violation("lexer/date-alike-ranges", ctx.where("lexer::looks_like_date"),
                      "a date-like prefix must admit at least the years 1970..=2999 and the months 1..=12; found (inclusive) %s: a literal "
                      "outside the range is lexed as arithmetic (`2023-12-11` = 2023-12 minus 11)" % bounds)
    ctx.covered("date look-ahead of the lexer (regex, year and month ranges)", 2, distinct_keys=["regex", "ranges"])


def parser_phases(ctx):
    """Parser::parse runs its clauses in grammar order and raises the phase flags between the right clauses: the
    `where is_dir` shorthand (bare boolean column => `column = true`) is applied while roots_parsed && !where_parsed,
    so select-list columns, GROUP BY keys and ORDER BY keys must be parsed outside that window"""
    name = "parser::Parser::parse"
    h = ctx.anchor_hir(name)
    top = h["stmts"] + ([h["expr"]] if "expr" in h else [])
    pos = {}
    for i, st in enumerate(top):
        for x in walk_exprs(st):
            if x["k"] == "MCall" and render(x["recv"]) == "self" and x["m"].startswith("parse_"):
                pos.setdefault(x["m"], []).append(i)
            if x["k"] == "Assign" and x["l"]["k"] == "Field" and render(x["l"]["e"]) == "self" and x["l"]["name"] in ("roots_parsed", "where_parsed"):
                pos.setdefault(x["l"]["name"] + "=" + render(x["r"]), []).append(i)
    order = ["parse_fields", "roots_parsed=true", "parse_where", "where_parsed=true", "parse_group_by", "parse_order_by", "parse_limit", "parse_output_format"]
    n = 0
    for a, b in zip(order, order[1:]):
        n += 1
        pa, pb = pos.get(a, []), pos.get(b, [])
        ok = len(pa) == 1 and len(pb) == 1 and pa[0] < pb[0]
        ctx.obligation(ok)
        if not ok:
            ctx.violation("phases/%s-before-%s" % (a.replace("=true", ""), b.replace("=true", "")), ctx.where(name),
                          "`%s` must happen exactly once and before `%s` in Parser::parse (found at statements %s and %s): the "
                          "boolean-column shorthand of WHERE would otherwise apply to another clause, or a clause is parsed out of order" % (a, b, pa, pb))
    # the flags have no other writer
    for fl in ("roots_parsed", "where_parsed"):
        w = field_writers(ctx, "Parser", fl)
        if True:
            n += 1
            ok = set(w) <= {"parser::Parser::parse", "parser::Parser::new"}
            ctx.obligation(ok)
            if not ok:
                ctx.violation("phases/%s-writers" % fl, ctx.where(name), "the phase flag %s is written by %s" % (fl, sorted(w)))
    # the shorthand window is exactly roots_parsed && !where_parsed
    pc = ctx.anchor_hir("parser::Parser::parse_cond")
    import interp
    try:
        n_ev, problems = __import__("c03").shorthand_by_evaluation(ctx)
        n += n_ev
        ctx.obligation(not problems)
        if problems:
            ctx.violation("phases/shorthand-window", ctx.where("parser::Parser::parse_cond"),
                          "a bare boolean column becomes `column = true` exactly inside WHERE (roots_parsed && !where_parsed); %s" % "; ".join(problems[:3]))
        ctx.covered("clause order and phase flags of Parser::parse; shorthand window of parse_cond (evaluated: 3 leaves x 4 flag valuations x 0..2 NOTs)", n, distinct_keys=order + ["writers", "window"])
        return
    except interp.Undecided:
        pass
    # the shorthand sites: a comparison `.. = true` built from a literal "true" (Expr::op(.., Op::Eq, Expr::value("true")))
    sites = []
    for c in walk_exprs(pc):
        if c["k"] == "Call" and str(c.get("callee", "")).endswith("Expr::op") and len(c["args"]) == 3:
            if "Op::Eq" in render(c["args"][1]) and any(y["k"] == "Lit" and y.get("v") == "true" and y.get("lk") == "str" for y in walk_exprs(c["args"][2])):
                sites.append(c)
    ok = len(sites) >= 1
    why = "%d shorthand sites" % len(sites)
    for c in sites:
        pos_, neg_ = guard_atoms(with_exits(guards_of(pc, c) or []))
        flagged = [(a, True) for a in pos_ if "roots_parsed" in render(a) or "where_parsed" in render(a)] + \
                  [(a, False) for a in neg_ if "roots_parsed" in render(a) or "where_parsed" in render(a)]
        if not flagged:
            ok, why = False, "the site at %s is not guarded by the phase flags" % c.get("sp")
            break
        for rp in (False, True):
            for wp in (False, True):
                try:
                    vals = []
                    for a, pol in flagged:
                        ids = {y["res"] for y in walk_exprs(a) if y["k"] == "Path" and y.get("rk") == "Local"}
                        v = interp.Interp().ev(a, {i_: {"roots_parsed": rp, "where_parsed": wp} for i_ in ids})
                        vals.append(v == pol)
                    got = all(vals)
                except interp.Undecided as e:
                    ok, why = False, "cannot evaluate the phase condition: %s" % e
                    break
                n += 1
                if got != (rp and not wp):
                    ok, why = False, "with roots_parsed = %s and where_parsed = %s the shorthand is %sapplied" % (rp, wp, "" if got else "not ")
                    break
            if not ok:
                break
        if not ok:
            break
    n += 1
    ctx.obligation(ok)
    if not ok:
        ctx.violation("phases/shorthand-window", ctx.where("parser::Parser::parse_cond"),
                      "a bare boolean column becomes `column = true` exactly inside WHERE (roots_parsed && !where_parsed); %s" % why)
    ctx.covered("clause order and phase flags of Parser::parse; shorthand window of parse_cond", n, distinct_keys=order + ["writers", "window"])


def literal_key_analysis(dh):
    """writes of the literal value `val` in Display for Expr: (bare writes that can collide with their reason, all bare
    writes, delimited writes)"""
    import re
    bare, delimited, bad = [], [], []
    for c in walk_exprs(dh):
        if c["k"] != "MCall" or c["m"] not in ("write_str", "write_fmt", "push_str"):
            continue
        refs_val = any(x["k"] == "Path" and x.get("rk") == "Local" and x.get("name") == "val" for a in c["args"] for x in walk_exprs(a))
        if not refs_val:
            continue
        if c["m"] == "write_fmt":
            ts = [t for t, _ in fmt_templates(c)]
            if ts and all(len(t) >= 4 and not t[0].isalnum() and t[0] == t[-1] and t[0] not in "{} " for t in ts):
                delimited.append(c)
                continue
        bare.append(c)
    for c in bare:
        gs = [g for g in (guards_of(dh, c) or []) if g[0] == "if" and g[2] and g[1]["k"] != "LetE"]
        why = "it is written unconditionally"
        ok = False
        if gs:
            okd = []
            for d_ in disjuncts(gs[-1][1]):
                d_ = peel(d_, methods=False)
                rv = peel(d_["recv"], methods=False) if d_["k"] == "MCall" else None
                if d_["k"] == "Bin" and d_["op"] == "==" and any(x["k"] == "Lit" and x["lk"] == "str" and x["v"] and not x["v"][0].isalpha() and x["v"][0] not in "-(" for x in (peel(d_["l"]), peel(d_["r"]))):
                    okd.append(True)
                elif d_["k"] == "MCall" and d_["m"] == "is_ok" and rv["k"] == "MCall" and rv["m"] == "parse" and \
                        re.search(r"Result<(f64|f32|i64|u64|i32|u32|usize|isize)\b", rv.get("ty", "")):
                    okd.append(True)
                else:
                    okd.append(False)
                    why = "it is written bare when `%s`" % render(d_)
            ok = bool(okd) and all(okd)
        if not ok:
            bad.append((c, why))
    return bad, bare, delimited


NONE_TESTS = {"column_expr.%s.is_none()" % f for f in ("function", "field", "left", "right", "args", "arithmetic_op", "op", "logical_op")}


def literal_before_memo(ctx):
    """a literal is its own value: get_column_expr_value must not answer a literal from the per-entry memo, which is keyed
    by expression text (`'Name'` and the column `name` have the same text)"""
    name = "searcher::Searcher::get_column_expr_value"
    h = ctx.anchor_hir(name)
    top = h["stmts"] + ([h["expr"]] if "expr" in h else [])
    memo_i = lit_i = None
    memo_guarded = False
    for i, st in enumerate(top):
        for x in walk_exprs(st):
            if x["k"] == "MCall" and render(x["recv"]) == "file_map" and x["m"] in ("contains_key", "get") and \
                    render(Locals(h).chase(peel(x["args"][0]))).startswith("column_expr.to_string()"):
                if memo_i is None:
                    memo_i = i
                    gs = guards_of(h, x) or []
                    memo_guarded = any(g[0] == "if" and ((g[2] and "column_expr.val.is_none()" in render(g[1])) or
                                                          (not g[2] and "column_expr.val.is_some()" in render(g[1]))) for g in gs)
            if x["k"] == "Ret" and "e" in x and "from_signed_string" in render(x["e"]) and lit_i is None:
                gs = guards_of(h, x) or []
                ok = True
                seen_val = False
                for g in gs:
                    if g[0] == "if" and g[2] and g[1]["k"] == "LetE" and render(peel(g[1]["init"])) == "column_expr.val":
                        seen_val = True
                    elif g[0] == "if" and g[2] and all(render(c) in NONE_TESTS for c in conjuncts(g[1])):
                        pass
                    else:
                        ok = False
                if ok and seen_val:
                    lit_i = i
    if memo_i is None:
        ctx.covered("memo lookups of get_column_expr_value (none: nothing to protect)", 1, distinct_keys=["no-memo"])
        ctx.obligation(True)
        return
    # alternatively the key text itself keeps literals apart from everything else (C15-R7): then the memo is safe
    dh = ctx.prog.hir("<expr::Expr as core::fmt::Display>::fmt")
    delimited_ok = False
    if dh is not None:
        bad, bare, delim = literal_key_analysis(dh)
        delimited_ok = not bad and (bool(delim) or not bare) and bool(bare or delim)
    ok = memo_guarded or (lit_i is not None and lit_i < memo_i) or delimited_ok
    ctx.obligation(ok)
    if not ok:
        ctx.violation("literal-before-memo", ctx.where(name, top[memo_i]),
                      "the per-entry memo is consulted by expression text before a literal is recognised: the quoted literal 'Name' "
                      "has the text of the column name, so `name = 'Name'` shares a memo with `name` wherever the map is shared "
                      "(select list, function arguments, ORDER BY keys)")
    ctx.covered("literal evaluation vs. text-keyed memo lookup in get_column_expr_value", 1, distinct_keys=["literal-before-memo"],
                sample={"memo_stmt": memo_i, "literal_stmt": lit_i, "memo_guarded": memo_guarded, "literals_delimited_in_key": delimited_ok})


def wbuf_total(ctx):
    """the in-memory sink of the formatters accepts every chunk: csv::Writer and serde hand over their output at
    arbitrary byte offsets, so a write that validates its chunk loses rows"""
    name = "<util::wbuf::WritableBuffer as std::io::Write>::write"
    h = ctx.anchor_hir(name)
    errs = [x for x in walk_exprs(h) if (x["k"] == "Call" and x.get("ctor") and short(x["callee"], 1) == "Err") or
            (x["k"] == "Path" and short(x.get("res", ""), 1) == "Err") or (x["k"] == "Match" and x.get("src") == "TryDesugar") or
            (x["k"] == "MCall" and x["m"] in ("unwrap", "expect"))]
    ctx.obligation(not errs)
    if errs:
        ctx.violation("wbuf/rejects", ctx.where(name, errs[0]), "WritableBuffer::write can fail: a chunk that splits a multi-byte character "
                      "(csv flushes every 8 KiB) is rejected and the row is lost")
    r = render(peel_result(h.get("expr", h)))
    app = [c for c in walk_exprs(h) if c["k"] == "MCall" and c["m"] in ("extend_from_slice", "extend", "write_all", "push_str") and "buf" in render(c["args"][0])]
    ok = r == "buf.len()" and len(app) >= 1 and all(not guards_of(h, c) for c in app)
    ctx.obligation(ok)
    if not ok:
        ctx.violation("wbuf/partial", ctx.where(name), "WritableBuffer::write must append the whole chunk unconditionally and report its length; returns `%s`" % r)
    ctx.covered("WritableBuffer::write is total and appends the whole chunk", 2, distinct_keys=["rejects", "partial"])
    # a rendered row goes to standard output whole: `Write::write` may accept a prefix only (the line-buffered stdout does, after
    # a newline), so a direct `.write(bytes)` on standard output, whose count nobody loops on, drops the rest of the row
    n_w = 0
    for fname in sorted(ctx.prog.fns):
        if not (fname.startswith("searcher::") or fname.startswith("output::") or fname in ("exec_search", "main")) or "{closure" in fname:
            continue
        fh = ctx.prog.hir(fname)
        if fh is None:
            continue
        for c in walk_exprs(fh):
            if c["k"] == "MCall" and c["m"] == "write" and "io::Write" in str(c.get("callee", "")) + "io::Write" and \
                    ("stdout" in render(c["recv"]) or "Stdout" in str(c["recv"].get("ty", ""))):
                n_w += 1
                ctx.obligation(False)
                ctx.violation("stdout/partial-write/%s" % short(fname, 1), ctx.where(fname, c),
                              "`%s` hands a row to standard output with Write::write, which may take only a prefix (its count is not looped on): use write_all / write!" % render(c)[:70])
    ctx.covered("direct Write::write calls on standard output (expected none)", max(n_w, 1), distinct_keys=["stdout-write:%d" % n_w])



def pass_ignores_table(ctx):
    """the ignore verdict of visit_dir (`pass_ignores`) read off the source by the finite interpreter for every setting of
    (gitignore on, hgignore on, dockerignore on, git says ignored, hg filter matches, docker filter matches, repository
    present).  Returns (table {(ag, ah, ad, mg, mh, md, repo): verdict}, paths asked per tool, error)"""
    import interp
    import itertools
    name = "searcher::Searcher::visit_dir"
    hir = ctx.anchor_hir(name)
    pi = [x for x in walk(hir) if x["k"] == "Let" and x["pat"].get("name") == "pass_ignores"]
    if len(pi) != 1:
        return None, None, "definition of pass_ignores not found"
    has_git = any(c["k"] == "MCall" and c["m"] == "is_path_ignored" for c in walk_exprs(pi[0]["init"]))
    tbl = {}
    asked = {"git": set(), "hg": set(), "docker": set()}
    spelled = any(c["k"] == "MCall" and c["m"] in ("is_relative", "is_absolute", "has_root") for c in walk_exprs(pi[0]["init"]))
    for ag, ah, ad, mg, mh, md, repo, rel in itertools.product([False, True], repeat=8):
        if not has_git and (mg or repo):
            continue
        if rel and not spelled:
            continue

        def call(node, recv, args, it, env, mg=mg, mh=mh, md=md, rel=rel):
            callee = str(node.get("callee", ""))
            m = node.get("m")
            if m in ("is_relative", "is_absolute", "has_root") and recv == "<walked>":
                # the walked path is spelled as the root was given: relative or absolute, canonical or not
                return (rel if m == "is_relative" else not rel,)
            if callee.endswith("canonical_path"):
                return (interp.V("Result::Ok", ["<canonical>"]),)
            if m == "is_path_ignored":
                asked["git"].add(str(args[0]) if args else "?")
                return (interp.V("Result::Ok", [mg]),)
            if callee.endswith("matches_hgignore_filter"):
                asked["hg"].add((str(args[0]), str(args[1])) if len(args) > 1 else "?")
                return (mh,)
            if callee.endswith("matches_dockerignore_filter"):
                asked["docker"].add((str(args[0]), str(args[1])) if len(args) > 1 else "?")
                return (md,)
            if m in ("to_string_lossy", "as_ref", "as_path", "to_path_buf", "as_str", "to_str", "clone", "display"):
                return (recv,)
            return None
        by = {"apply_gitignore": ag, "apply_hgignore": ah, "apply_dockerignore": ad, "path": "<walked>",
              "git_repository": interp.some({"repo": True}) if repo else interp.NONE,
              "self": {"hgignore_filters": "<hg filters>", "dockerignore_filters": "<docker filters>"}}
        try:
            v = interp.eval_in(hir, pi[0]["init"], by, call=call)
        except interp.Undecided as e:
            return None, None, "cannot evaluate the ignore verdict: %s" % e
        if (ag, ah, ad, mg, mh, md, repo) in tbl and tbl[(ag, ah, ad, mg, mh, md, repo)] != v:
            return None, None, "the ignore verdict depends on how the walked path is spelled (relative / absolute)"
        tbl[(ag, ah, ad, mg, mh, md, repo)] = v
    return (tbl, asked, None), has_git, None
