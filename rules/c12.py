"""C12 — glob, LIKE, exact and regex matching agree with their textbook definitions (static necessary conditions)."""
from hirq import *  # noqa: F401,F403
import oracles
import sem
from core import Abort

GLOB = "util::glob::convert_glob_to_pattern"
LIKE = "util::glob::convert_like_to_pattern"
IS_GLOB = "util::glob::is_glob"

WILDCARDS = {
    GLOB: {"*": ".*", "?": "."},
    LIKE: {"%": ".*", "_": "."},
}


def split_alternatives(rx):
    """alternatives of a `(a|b|\\c)` literal, unescaped"""
    s = rx
    if s.startswith("(") and s.endswith(")"):
        s = s[1:-1]
    alts, cur, i = [], "", 0
    while i < len(s):
        c = s[i]
        if c == "\\" and i + 1 < len(s):
            cur += s[i + 1]
            i += 2
            continue
        if c == "|":
            alts.append(cur)
            cur = ""
        else:
            cur += c
        i += 1
    alts.append(cur)
    return alts


def translator_table(ctx, fn):
    hir = ctx.anchor_hir(fn)
    if calls_to(hir, "regex::escape"):
        return None, None, None, hir
    rx = None
    for c in calls_to(hir, "Regex::new"):
        a = peel(c["args"][0])
        if a["k"] == "Lit":
            rx = a["v"]
    table = None
    for m in find_matches(hir, min_arms=3):
        t = {}
        for a in match_arms(m):
            b = a["body"]
            r = peel_result(b)
            v = r["v"] if r["k"] == "Lit" else ("error_exit" if any(is_call_to(x, "error_exit") for x in walk_exprs(b)) else render(b))
            for k in a["keys"]:
                kk = "<default>" if k == "_" else (k[1] if k[0] == "lit" else str(k))
                t.setdefault(kk, v)
        if any(isinstance(k, str) and len(k) <= 2 for k in t):
            table = (t, m)
    if rx is None or table is None:
        ctx.violation("anchor/%s" % short(fn, 1), fn, "escape table of %s (replacement regex + match) not found" % fn)
        raise Abort()
    tmpl = [t for t, _ in fmt_templates(hir)]
    return rx, table[0], tmpl, hir


def r1(ctx):
    for fn in (GLOB, LIKE):
        rx, t, tmpl, hir = translator_table(ctx, fn)
        name = short(fn, 1)
        if rx is None:
            ctx.covered("%s delegates literal runs to regex::escape" % name, 1, distinct_keys=[fn])
            continue
        alts = set(split_alternatives(rx))
        keys = {k for k in t if k != "<default>"}
        wild = WILDCARDS[fn]
        n = 0
        # the two halves of the table agree (a character matched by the regex but absent from the closure
        # falls to the `_` arm, which calls error_exit)
        for ch in sorted(alts ^ keys):
            ctx.violation("%s/table-mismatch/%s" % (name, ch), ctx.where(fn),
                          "`%s` is %s" % (ch, "matched by the replacement regex but has no arm" if ch in alts
                                          else "an arm that the replacement regex never produces"))
        for ch, rep in wild.items():
            n += 1
            ok = t.get(ch) == rep and ch in alts
            ctx.obligation(ok)
            if not ok:
                ctx.violation("%s/wildcard/%s" % (name, ch), ctx.where(fn),
                              "wildcard `%s` translates to %r, expected %r" % (ch, t.get(ch), rep))
        for ch in sorted(oracles.REGEX_META - set(wild)):
            n += 1
            ok = ch in alts and t.get(ch) == "\\" + ch
            ctx.obligation(ok)
            if not ok:
                got = t.get(ch) if ch in alts else None
                ctx.violation("%s/unescaped/%s" % (name, ch), ctx.where(fn),
                              "regex metacharacter `%s` is %s: a pattern containing it does not match itself" %
                              (ch, "passed through unescaped" if got is None else "translated to %r instead of %r" % (got, "\\" + ch)))
        # nothing else may be a wildcard
        for ch, rep in t.items():
            if ch == "<default>" or ch in wild:
                continue
            if rep != "\\" + ch:
                ctx.violation("%s/extra-wildcard/%s" % (name, ch), ctx.where(fn),
                              "`%s` is translated to %r: only %s are wildcards of this operator" % (ch, rep, sorted(wild)))
        ok = tmpl == ["^(?i){}$"]
        ctx.obligation(ok)
        if not ok:
            ctx.violation("%s/anchoring" % name, ctx.where(fn),
                          "translated pattern is wrapped as %s, expected ^(?i)...$ (whole string, case-insensitive)" % tmpl)
        ctx.covered("escape-table rows of %s (regex metacharacters + wildcards + anchoring)" % name, n + 1,
                    distinct_keys=["%s/%s" % (name, c) for c in sorted(oracles.REGEX_META | set(wild))],
                    sample={name: t, "regex": rx}, exhaustive=True)


def _translator_of(arm_body):
    cs = [short(c["callee"], 1) for c in walk_exprs(arm_body) if c["k"] == "Call" and
          c.get("callee", "").startswith("util::glob::convert_")]
    return sorted(set(cs))


def r2(ctx):
    cf = sem.Conforms(ctx)
    t, m = cf.op_table("String")
    if t is None:
        ctx.violation("anchor/string-arm", sem.CONFORMS, "String comparison arm not found")
        raise Abort()
    shapes = {}
    sites = 0
    for op, body in t.items():
        if op == "_":
            continue
        tr = tuple(_translator_of(body)) or ("raw",)
        for c in walk_exprs(body):
            if c["k"] == "MCall" and c["m"] in ("insert", "get") and "regex_cache" in render(c["recv"]):
                key = render(peel(cf.locs.chase(c["args"][0])))
                # canonical shape: literal prefixes stay, locals keep their names
                shapes.setdefault(key, set()).add(tr)
                sites += 1
    ctx.covered("regex_cache get/insert sites in the text comparison arms", sites, distinct_keys=shapes,
                sample={k: sorted(map(list, v)) for k, v in shapes.items()})
    ctx.floor(sites, 12, "regex_cache get/insert sites", sem.CONFORMS)
    for key, trs in shapes.items():
        ok = len(trs) <= 1
        ctx.obligation(ok)
        if not ok:
            ctx.violation("regex_cache/shared-key/%s/%s" % (key, "+".join(sorted(x[0] for x in trs))), ctx.where(sem.CONFORMS, m),
                          "the regex cache is keyed by `%s` for patterns compiled by different translators %s: the same "
                          "text used with `=`, `like` and `=~` in one query reuses the first compiled regex" %
                          (key, sorted(map(list, trs))))


def _results(n, out, neg=False, inl=False):
    """leaf result expressions of an arm body (returns and tail values), in source order.  A helper inlined by the
    normaliser contributes its own returns (InlRet) and tail; `!{compound}` contributes the negations of the compound's results."""
    n = peel(n, methods=False)
    k = n["k"]

    def leaf(x):
        out.append({"k": "Un", "op": "!", "e": x, "sp": x.get("sp", "?")} if neg else x)
    if k == "Block":
        is_inl = bool(n.get("inl"))
        for s in n["stmts"]:
            for x in walk_exprs(s):
                if x["k"] == "Ret" and "e" in x and not is_inl and not inl:
                    _results(x["e"], out, False)
                elif x["k"] == "InlRet" and "e" in x and (is_inl or inl):
                    _results(x["e"], out, neg, True)
        if "expr" in n:
            _results(n["expr"], out, neg, inl or is_inl)
    elif k == "Match":
        for a in n["arms"]:
            _results(a["body"], out, neg, inl)
    elif k == "If":
        _results(n["t"], out, neg, inl)
        if "e" in n:
            _results(n["e"], out, neg, inl)
    elif k in ("Ret", "InlRet"):
        if "e" in n:
            _results(n["e"], out, neg if k == "InlRet" else False, inl)
    elif k == "Un" and n["op"] == "!" and peel(n["e"], methods=False)["k"] in ("Block", "Match", "If"):
        _results(n["e"], out, not neg, inl)
    else:
        leaf(n)


def _neg_of(pos, neg, hir=None, ops=None):
    p, q = render(pos), render(neg)
    if pos is neg and hir is not None and pos["k"] == "Bin" and pos["op"] in ("!=", "==", "^"):
        # one merged arm for both operators: `matched != negated` with `negated` decided by the operator
        import interp
        for flag in (pos["l"], pos["r"]):
            try:
                vals = [interp.eval_in(hir, flag, {"op": interp.V("Op::" + o)}) for o in ops]
            except interp.Undecided:
                continue
            if all(isinstance(v, bool) for v in vals):
                return vals == ([False, True] if pos["op"] in ("!=", "^") else [True, False])
        return False
    if is_call_to(pos, "error_exit") or "error_exit" in p:
        return "error_exit" in q
    if q == "!" + p:
        return True
    if pos["k"] == "MCall" and neg["k"] == "MCall" and pos["m"] == "eq" and neg["m"] == "ne":
        return render(pos["recv"]) == render(neg["recv"]) and render(pos["args"][0]) == render(neg["args"][0])
    if pos["k"] == "Bin" and neg["k"] == "Bin" and pos["op"] == "==" and neg["op"] == "!=":
        return render(pos["l"]) == render(neg["l"]) and render(pos["r"]) == render(neg["r"])
    return False


def r3(ctx):
    cf = sem.Conforms(ctx)
    t, m = cf.op_table("String")
    n = 0
    for pos, neg in (("Eq", "Ne"), ("Rx", "NotRx"), ("Like", "NotLike"), ("Eeq", "Ene")):
        if pos not in t or neg not in t:
            ctx.violation("complement/%s-missing" % neg, ctx.where(sem.CONFORMS, m), "no text arm for %s/%s" % (pos, neg))
            continue
        a, b = [], []
        _results(t[pos], a)
        _results(t[neg], b)
        chir = ctx.anchor_hir(sem.CONFORMS)
        ok = len(a) == len(b) and all(_neg_of(x, y, chir, (pos, neg)) for x, y in zip(a, b)) and \
            _translator_of(t[pos]) == _translator_of(t[neg])
        n += len(a)
        ctx.obligation(ok)
        if not ok:
            bad = [(render(x), render(y)) for x, y in zip(a, b) if not _neg_of(x, y, chir, (pos, neg))]
            ctx.violation("complement/%s" % neg, ctx.where(sem.CONFORMS, t[neg]),
                          "the %s arm is not the negation of the %s arm result by result (%d vs %d results; mismatching: %s)"
                          % (neg, pos, len(b), len(a), bad[:2]))
    # a text arm may only yield regex.is_match(..), its negation, an (in)equality of the two texts, or diverge
    for op, body in t.items():
        if op == "_":
            continue
        rs = []
        _results(body, rs)
        for r_ in rs:
            rr = render(r_)
            okr = "is_match(" in rr or ".eq(" in rr or ".ne(" in rr or "error_exit" in rr or (r_["k"] == "Bin" and r_["op"] in ("==", "!="))
            ctx.obligation(okr)
            if not okr:
                ctx.violation("result-shape/%s/%s" % (op, rr[:30]), ctx.where(sem.CONFORMS, r_),
                              "the text comparison %s yields `%s` on some path instead of the regex match / text equality" % (op, rr[:60]))
    ctx.covered("result expressions of the positive/negative text arms compared pairwise", n,
                distinct_keys=["Ne", "NotRx", "NotLike", "Ene"])
    ctx.floor(n, 8, "result expressions in positive text arms", sem.CONFORMS)


def r4(ctx):
    cf = sem.Conforms(ctx)
    t, m = cf.op_table("String")
    # exact operators use no translator / regex
    for op in ("Eeq", "Ene"):
        body = t.get(op)
        bad = [render(c)[:40] for c in walk_exprs(body) if c["k"] in ("Call", "MCall") and
               any(s in str(c.get("callee")) for s in ("convert_", "Regex::new", "is_glob", "is_match"))] if body else ["missing"]
        ctx.obligation(not bad)
        if bad:
            ctx.violation("exact/%s" % op, ctx.where(sem.CONFORMS, body or m), "%s must compare the literal text; it uses %s" % (op, bad))
    # = / != take the glob path exactly when is_glob(val)
    for op in ("Eq", "Ne"):
        body = t.get(op)
        ifs = find_ifs(body, lambda c: is_call_to(c, IS_GLOB)) if body else []
        ok = False
        if ifs:
            _, glob_side, lit_side = ifs[0]
            ok = glob_side is not None and lit_side is not None and _translator_of(glob_side) == ["convert_glob_to_pattern"] \
                and not _translator_of(lit_side) and not any("is_match" in render(x) for x in [lit_side])
        ctx.obligation(ok)
        if not ok:
            ctx.violation("glob-dispatch/%s" % op, ctx.where(sem.CONFORMS, body),
                          "%s must use the glob translation exactly when the literal contains a glob wildcard, and "
                          "plain equality otherwise" % op)
    # translators per operator
    want = {"Rx": [], "NotRx": [], "Like": ["convert_like_to_pattern"], "NotLike": ["convert_like_to_pattern"]}
    for op, tr in want.items():
        got = _translator_of(t.get(op)) if t.get(op) else None
        ok = got == tr
        ctx.obligation(ok)
        if not ok:
            ctx.violation("translator/%s" % op, ctx.where(sem.CONFORMS, t.get(op) or m),
                          "operator %s compiles its pattern through %s, expected %s" % (op, got, tr or "the raw regex"))
    # subject and pattern sides
    n = 0
    for op, body in t.items():
        if op == "_":
            continue
        for c in walk_exprs(body):
            if c["k"] == "MCall" and c["m"] == "is_match":
                n += 1
                side = cf.leaf3(c["args"][0])
                ok = side == "x"
                ctx.obligation(ok)
                if not ok:
                    ctx.violation("subject/%s" % op, ctx.where(sem.CONFORMS, c), "the regex of %s is matched against %s, not the column value" % (op, render(c["args"][0])))
            if c["k"] == "Call" and (str(c.get("callee", "")).startswith("util::glob::convert_") or str(c.get("callee", "")).endswith("Regex::new")):
                a = cf.locs.chase(c["args"][0])
                if any(str(y.get("callee", "")).startswith("util::glob::convert_") for y in walk_exprs(a) if y["k"] == "Call"):
                    continue
                n += 1
                side = cf.leaf3(a)
                ok = side == "l"
                ctx.obligation(ok)
                if not ok:
                    ctx.violation("pattern/%s" % op, ctx.where(sem.CONFORMS, c), "the pattern of %s is built from %s, not the literal" % (op, render(a)))
    ctx.covered("subject/pattern operands of regex matches in the text arms", n, distinct_keys=["sites:%d" % n])
    # is_glob tests exactly * and ?
    ih = ctx.anchor_hir(IS_GLOB)
    chars = sorted(str(peel(c["args"][0])["v"]) for c in walk_exprs(ih) if c["k"] == "MCall" and c["m"] == "contains"
                   and peel(c["args"][0])["k"] == "Lit")
    ok = chars == ["*", "?"] and "||" in render(ih)
    ctx.obligation(ok)
    ctx.covered("is_glob wildcard test", 1, distinct_keys=chars)
    if not ok:
        ctx.violation("is_glob", ctx.where(IS_GLOB), "is_glob must test for `*` or `?` exactly; it tests %s" % chars)


RULES = [
    ("C12-R1", "glob / LIKE escape tables cover every regex metacharacter; wildcards and anchoring", r1),
    ("C12-R2", "regex cache key determines the translator", r2),
    ("C12-R3", "negative text operators are the negation of their positive arm, result by result", r3),
    ("C12-R4", "operator -> translator dispatch, subject/pattern sides, is_glob", r4),
    ("X-LITERAL", "a literal is never answered from the text-keyed per-entry memo [shared]", lambda ctx: __import__("extra").literal_before_memo(ctx)),
    ("X-LEXCHARS", "the lexer reads the query by characters, not bytes [shared]", lambda ctx: __import__("extra2").lexer_reads_characters(ctx)),
    ("C12-R5", "the comparison carries the operator written in the query", lambda ctx: __import__("extra2").operator_is_the_lexed_one(ctx)),
]

EXPLANATION = (
    "Static structural necessary conditions of C12: the glob and LIKE translators are recovered as tables "
    "(characters matched by the replacement regex = arms of the closure; wildcards *->.*, ?->. and %->.*, _->.; every "
    "other regex metacharacter of regex-syntax escaped to itself; ^(?i)...$ wrapping); the regex cache key must "
    "determine the translator; each negative arm of the text comparison is the positive arm with every result "
    "negated and the same translator; =/!= use the glob path exactly when is_glob, ===/!== use no translator, "
    "like uses the LIKE translator, =~ the raw pattern; regexes are matched against the column value. The regex "
    "engine's semantics and Unicode case folding are trusted.")
ASSUMPTIONS = ["rustc's HIR faithfully represents the source; exporter and rule scripts are correct",
               "regex-syntax 0.8 meta characters outside classes are \\ . + * ? ( ) | [ ] { } ^ $",
               "regex::Regex implements its documented semantics"]
NOT_DECIDED = ["regex engine semantics, Unicode case folding", "matching on real file names"]
