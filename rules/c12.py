"""C12 — glob, LIKE, exact and regex matching agree with their textbook definitions (static necessary conditions)."""
from hirq import *  # noqa: F401,F403
import oracles
import sem
from core import Abort

GLOB = "util::glob::convert_glob_to_pattern"
LIKE = "util::glob::convert_like_to_pattern"
IS_GLOB = "util::glob::is_glob"

WILDCARDS = {
    GLOB: {"*": ".*", "?": "."},
    LIKE: {"%": ".*", "_": "."},
}


def split_alternatives(rx):
    """alternatives of a `(a|b|\\c)` literal, unescaped"""
    s = rx
    if s.startswith("(") and s.endswith(")"):
        s = s[1:-1]
    alts, cur, i = [], "", 0
    while i < len(s):
        c = s[i]
        if c == "\\" and i + 1 < len(s):
            cur += s[i + 1]
            i += 2
            continue
        if c == "|":
            alts.append(cur)
            cur = ""
        else:
            cur += c
        i += 1
    alts.append(cur)
    return alts


def translator_table(ctx, fn):
    hir = ctx.anchor_hir(fn)
    if calls_to(hir, "regex::escape"):
        return None, None, None, hir
    rx = None
    for c in calls_to(hir, "Regex::new"):
        a = peel(c["args"][0])
        if a["k"] == "Lit":
            rx = a["v"]
    table = None
    for m in find_matches(hir, min_arms=3):
        t = {}
        for a in match_arms(m):
            b = a["body"]
            r = peel_result(b)
            v = r["v"] if r["k"] == "Lit" else ("error_exit" if any(is_call_to(x, "error_exit") for x in walk_exprs(b)) else render(b))
            for k in a["keys"]:
                kk = "<default>" if k == "_" else (k[1] if k[0] == "lit" else str(k))
                t.setdefault(kk, v)
        if any(isinstance(k, str) and len(k) <= 2 for k in t):
            table = (t, m)
    if rx is None or table is None:
        ctx.violation("anchor/%s" % short(fn, 1), fn, "escape table of %s (replacement regex + match) not found" % fn)
        raise Abort()
    tmpl = [t for t, _ in fmt_templates(hir)]
    return rx, table[0], tmpl, hir


def translate(ctx, fn, text):
    """what a pattern translator (convert_glob_to_pattern / convert_like_to_pattern) makes of `text`, read off its source by the
    finite interpreter; the regex crate answers by contract through Python's re (the translators' own regexes are alternations
    of escaped single characters, which mean the same in both dialects)"""
    import interp
    import re as _re
    V = interp.V

    def call(node, recv, args, it, env):
        callee = str(node.get("callee", ""))
        m_ = node.get("m")
        if (callee.endswith("Regex::new") or callee.endswith("RegexBuilder::new")) and args and isinstance(args[0], str):
            try:
                _re.compile(args[0])
            except _re.error as e:
                raise interp.Undecided("regex literal %r: %s" % (args[0], e))
            return (V("Result::Ok", [{"__rx": args[0]}]),)
        if isinstance(recv, dict) and "__rx" in recv and m_ in ("replace_all", "replace") and len(args) == 2 and isinstance(args[0], str):
            out, pos = [], 0
            for mt in _re.finditer(recv["__rx"], args[0]):
                out.append(args[0][pos:mt.start()])
                caps = {"__cap": {i: mt.group(i) for i in range(0, (mt.re.groups or 0) + 1)}}
                rep = it.apply(args[1], [caps]) if not isinstance(args[1], str) else args[1]
                if not isinstance(rep, str):
                    raise interp.Undecided("replacement %r" % (rep,))
                out.append(rep)
                pos = mt.end()
                if m_ == "replace":
                    break
            out.append(args[0][pos:])
            return ("".join(out),)
        if isinstance(recv, dict) and "__rx" in recv and m_ == "is_match" and args and isinstance(args[0], str):
            return (_re.search(recv["__rx"], args[0]) is not None,)
        if isinstance(recv, dict) and "__cap" in recv and (node.get("k") == "Index" or m_ in ("index",)) and args:
            g = recv["__cap"].get(args[0])
            if g is None:
                raise interp.Undecided("capture group %s absent" % args[0])
            return (g,)
        if isinstance(recv, dict) and "__cap" in recv and m_ == "get" and args:
            g = recv["__cap"].get(args[0])
            return (interp.some({"__match": g}) if g is not None else interp.NONE,)
        if isinstance(recv, dict) and "__match" in recv and m_ == "as_str":
            return (recv["__match"],)
        if callee.endswith("regex::escape") and args and isinstance(args[0], str):
            return (_re.sub(r"([\\.+*?()|\[\]{}^$#&\-~])", r"\\\1", args[0]),)
        if callee.endswith("error_exit"):
            raise interp.Undecided("the translator gives up on %r (error_exit)" % (text,))
        return None
    ps = ctx.prog.fns[fn]["params"]
    got = interp.Interp(call=call, prog=ctx.prog, max_steps=60000).run(ctx.anchor_hir(fn), {ps[0]["id"]: text})
    if not isinstance(got, str):
        raise interp.Undecided("the translator yields %r" % (got,))
    return got


def translators_by_meaning(ctx):
    """the two translators evaluated on probe patterns, and the regex they produce judged by what it matches (Python's re on the
    ASCII subset): every character that is not one of the operator's wildcards matches only itself - the regex metacharacters
    included -, `*` / `%` stand for any run, `?` / `_` for exactly one character, the match is anchored at both ends and ignores
    letter case.  -> (number of probes, list of problems) or raises interp.Undecided"""
    import re as _re
    problems = []
    n = 0
    for fn, any_run, one in ((GLOB, "*", "?"), (LIKE, "%", "_")):
        others = [c for c in "\\.+*?()|[]{}^$%_-,'#~ <>&a\u2014\u20ac" if c not in (any_run, one)]
        for c in others:
            pat = "k" + c + "m"
            rx = translate(ctx, fn, pat)
            n += 1
            # the two regex dialects agree on an escaped metacharacter; any other escape (`\<` is a word boundary in the regex crate,
            # `\d` a class, a backslash before a non-ASCII character an error) is not "this character, literally"
            odd = [m_.group(0) for m_ in _re.finditer(r"\\(.)", rx, _re.S) if m_.group(1) not in "\\.+*?()|[]{}^$#&-~"]
            if odd:
                problems.append("%s(%r) = %r: the escape %s is not an escaped literal character in the regex crate's syntax" % (short(fn, 1), pat, rx, odd[0]))
                continue
            try:
                # (Rust's regex accepts the flag group anywhere, Python's re only in front)
                cre = _re.compile(rx.replace("(?i)", "", 1), _re.I if "(?i)" in rx else 0)
            except _re.error as e:
                problems.append("%s(%r) = %r does not compile: %s" % (short(fn, 1), pat, rx, e))
                continue
            yes = [pat, pat.upper()]
            no = ["km", "kxm", "k" + c + c + "m", "x" + pat, pat + "x", "k" + c]
            if c.isalpha():
                no = [x for x in no if x.lower() != pat.lower()]
            bad = [t for t in yes if not cre.search(t)] + [t for t in no if t.lower() != pat.lower() and cre.search(t)]
            if bad:
                problems.append("%s(%r) = %r: the character `%s` must match only itself (whole string, any letter case); wrong on %s" % (short(fn, 1), pat, rx, c, bad[:4]))
        for pat, yes, no in (("k" + any_run + "m", ["km", "kxm", "kxyzm", "KXM", "k.m"], ["k", "xkm", "kmx", "kx"]),
                             ("k" + one + "m", ["kxm", "k.m", "KXM"], ["km", "kxym", "xkxm", "kxmx"]),
                             (any_run + ".txt", ["a.txt", ".txt", "A.TXT"], ["atxt", "a.txtx", "a.tx"]),
                             (any_run, ["", "anything"], []), (one, ["x"], ["", "xy"]),
                             # adjacent wildcards keep their own meaning: each `?` / `_` still takes exactly one character
                             ("k" + one + any_run + "m", ["kxm", "kxyzm"], ["km", "k", "kx"]), ("k" + any_run + one + "m", ["kxm", "kxyzm"], ["km"]),
                             ("k" + one + one + "m", ["kxym"], ["kxm", "km", "kxyzm"]), (one + any_run + one, ["xy", "xyz"], ["x", ""]),
                             ("k" + any_run + any_run + "m", ["km", "kxm"], ["k", "kmx"])):
            rx = translate(ctx, fn, pat)
            n += 1
            try:
                # (Rust's regex accepts the flag group anywhere, Python's re only in front)
                cre = _re.compile(rx.replace("(?i)", "", 1), _re.I if "(?i)" in rx else 0)
            except _re.error as e:
                problems.append("%s(%r) = %r does not compile: %s" % (short(fn, 1), pat, rx, e))
                continue
            bad = [t for t in yes if not cre.search(t)] + [t for t in no if cre.search(t)]
            if bad:
                problems.append("%s(%r) = %r: `%s` stands for any run of characters and `%s` for exactly one, on the whole string; wrong on %s" % (short(fn, 1), pat, rx, any_run, one, bad[:4]))
    return n, problems


def r1(ctx):
    import interp
    try:
        n_ev, problems = translators_by_meaning(ctx)
        ctx.obligation(not problems)
        ctx.covered("pattern translators evaluated on probe patterns and judged by what the produced regex matches (each special character, wildcards, anchoring, case)", n_ev,
                    distinct_keys=[GLOB, LIKE], exhaustive=True)
        for pr in problems[:6]:
            ctx.violation("%s/meaning" % ("convert_like_to_pattern" if "like" in pr.split("(")[0] else "convert_glob_to_pattern"), ctx.where(LIKE if "like" in pr.split("(")[0] else GLOB), pr)
        return
    except interp.Undecided as e:
        ctx.covered("evaluation of the pattern translators gave up (%s); the escape tables are read structurally instead" % str(e)[:200], 0)
    for fn in (GLOB, LIKE):
        rx, t, tmpl, hir = translator_table(ctx, fn)
        name = short(fn, 1)
        if rx is None:
            ctx.covered("%s delegates literal runs to regex::escape" % name, 1, distinct_keys=[fn])
            continue
        alts = set(split_alternatives(rx))
        keys = {k for k in t if k != "<default>"}
        wild = WILDCARDS[fn]
        n = 0
        # the two halves of the table agree (a character matched by the regex but absent from the closure
        # falls to the `_` arm, which calls error_exit)
        for ch in sorted(alts ^ keys):
            ctx.violation("%s/table-mismatch/%s" % (name, ch), ctx.where(fn),
                          "`%s` is %s" % (ch, "matched by the replacement regex but has no arm" if ch in alts
                                          else "an arm that the replacement regex never produces"))
        for ch, rep in wild.items():
            n += 1
            ok = t.get(ch) == rep and ch in alts
            ctx.obligation(ok)
            if not ok:
                ctx.violation("%s/wildcard/%s" % (name, ch), ctx.where(fn),
                              "wildcard `%s` translates to %r, expected %r" % (ch, t.get(ch), rep))
        for ch in sorted(oracles.REGEX_META - set(wild)):
            n += 1
            ok = ch in alts and t.get(ch) == "\\" + ch
            ctx.obligation(ok)
            if not ok:
                got = t.get(ch) if ch in alts else None
                ctx.violation("%s/unescaped/%s" % (name, ch), ctx.where(fn),
                              "regex metacharacter `%s` is %s: a pattern containing it does not match itself" %
                              (ch, "passed through unescaped" if got is None else "translated to %r instead of %r" % (got, "\\" + ch)))
        # nothing else may be a wildcard
        for ch, rep in t.items():
            if ch == "<default>" or ch in wild:
                continue
            if rep != "\\" + ch:
                ctx.violation("%s/extra-wildcard/%s" % (name, ch), ctx.where(fn),
                              "`%s` is translated to %r: only %s are wildcards of this operator" % (ch, rep, sorted(wild)))
        ok = tmpl == ["^(?i){}$"]
        ctx.obligation(ok)
        if not ok:
            ctx.violation("%s/anchoring" % name, ctx.where(fn),
                          "translated pattern is wrapped as %s, expected ^(?i)...$ (whole string, case-insensitive)" % tmpl)
        ctx.covered("escape-table rows of %s (regex metacharacters + wildcards + anchoring)" % name, n + 1,
                    distinct_keys=["%s/%s" % (name, c) for c in sorted(oracles.REGEX_META | set(wild))],
                    sample={name: t, "regex": rx}, exhaustive=True)


def _translator_of(arm_body):
    cs = [short(c["callee"], 1) for c in walk_exprs(arm_body) if c["k"] == "Call" and
          c.get("callee", "").startswith("util::glob::convert_")]
    return sorted(set(cs))


def r2(ctx):
    """the regex cache: conforms is evaluated (rules/conf.py) for `=` with a wildcard, `like` and `=~` on the same literal
    text with an empty cache; the key each compiled regex is stored under must tell the translators apart"""
    import conf
    import interp
    run = conf.Run(ctx)
    keys = {}
    n = 0
    for op, glob in (("Eq", True), ("Like", False), ("Rx", False), ("Ne", True), ("NotLike", False), ("NotRx", False)):
        try:
            got, tr = run.run(op, conf.variant("abc"), conf.variant("a*"), matched=True, is_glob=glob)
        except interp.Undecided as e:
            ctx.violation("regex_cache/unreadable/%s" % op, ctx.where(sem.CONFORMS), "cannot evaluate conforms for %s: %s" % (op, e))
            continue
        n += 1
        for k, v in tr["cache_after"].items():
            pat = v.get("__regex") if isinstance(v, dict) else str(v)
            kind = "convert_glob_to_pattern" if str(pat).startswith("<convert_glob") else ("convert_like_to_pattern" if str(pat).startswith("<convert_like") else "raw")
            keys.setdefault(k, set()).add(kind)
    ctx.covered("regex cache keys of the text operators evaluated on one literal", n, distinct_keys=sorted(map(str, keys)),
                sample={str(k): sorted(v) for k, v in keys.items()})
    ctx.floor(n, 6, "text operators evaluated for their cache key", sem.CONFORMS)
    # the key tells two different patterns of one operator apart: `=~` is case-sensitive, so its key keeps the letter case;
    # the wildcard operators match case-insensitively, so only a different spelling must give a different key
    m = 0
    for op, glob in (("Eq", True), ("Like", False), ("Rx", False), ("Ne", True), ("NotLike", False), ("NotRx", False)):
        per = {}
        try:
            for lit in ("a*", "A*", "a*b"):
                got, tr = run.run(op, conf.variant("abc"), conf.variant(lit), matched=True, is_glob=glob)
                per[lit] = tuple(sorted(map(str, tr["cache_after"])))
        except interp.Undecided as e:
            continue        # reported above
        m += 1
        if not any(per.values()):
            continue        # no cache on this path
        ok = per["a*"] != per["a*b"] and (op not in ("Rx", "NotRx") or per["a*"] != per["A*"])
        ctx.obligation(ok)
        if not ok:
            ctx.violation("regex_cache/key-not-injective/%s" % op, ctx.where(sem.CONFORMS),
                          "for %s the compiled regex of the patterns `a*`, `A*`, `a*b` is stored under the keys %s: two different patterns of one query "
                          "share a key, the second one is matched with the first one's regex%s" %
                          (op, per, " (the regex operators are case-sensitive: the key must keep the letter case)" if op in ("Rx", "NotRx") else ""))
    ctx.covered("cache keys of three patterns per text operator (injective where the operator distinguishes them)", m, distinct_keys=["Eq", "Like", "Rx", "Ne", "NotLike", "NotRx"], exhaustive=True)
    for key, trs in keys.items():
        ok = len(trs) <= 1
        ctx.obligation(ok)
        if not ok:
            ctx.violation("regex_cache/shared-key/literal-text/%s" % "+".join(sorted(trs)), ctx.where(sem.CONFORMS),
                          "the regex cache is keyed by the literal's text (`%s`) for patterns compiled by different translators %s: the same "
                          "text used with `=`, `like` and `=~` in one query reuses the first compiled regex" % (key, sorted(trs)))


def _results(n, out, neg=False, inl=False):
    """leaf result expressions of an arm body (returns and tail values), in source order.  A helper inlined by the
    normaliser contributes its own returns (InlRet) and tail; `!{compound}` contributes the negations of the compound's results."""
    n = peel(n, methods=False)
    k = n["k"]

    def leaf(x):
        out.append({"k": "Un", "op": "!", "e": x, "sp": x.get("sp", "?")} if neg else x)
    if k == "Block":
        is_inl = bool(n.get("inl"))
        for s in n["stmts"]:
            for x in walk_exprs(s):
                if x["k"] == "Ret" and "e" in x and not is_inl and not inl:
                    _results(x["e"], out, False)
                elif x["k"] == "InlRet" and "e" in x and (is_inl or inl):
                    _results(x["e"], out, neg, True)
        if "expr" in n:
            _results(n["expr"], out, neg, inl or is_inl)
    elif k == "Match":
        for a in n["arms"]:
            _results(a["body"], out, neg, inl)
    elif k == "If":
        _results(n["t"], out, neg, inl)
        if "e" in n:
            _results(n["e"], out, neg, inl)
    elif k in ("Ret", "InlRet"):
        if "e" in n:
            _results(n["e"], out, neg if k == "InlRet" else False, inl)
    elif k == "Un" and n["op"] == "!" and peel(n["e"], methods=False)["k"] in ("Block", "Match", "If"):
        _results(n["e"], out, not neg, inl)
    else:
        leaf(n)


def _neg_of(pos, neg, hir=None, ops=None):
    p, q = render(pos), render(neg)
    if pos is neg and hir is not None and pos["k"] == "Bin" and pos["op"] in ("!=", "==", "^"):
        # one merged arm for both operators: `matched != negated` with `negated` decided by the operator
        import interp
        for flag in (pos["l"], pos["r"]):
            try:
                vals = [interp.eval_in(hir, flag, {"op": interp.V("Op::" + o)}) for o in ops]
            except interp.Undecided:
                continue
            if all(isinstance(v, bool) for v in vals):
                return vals == ([False, True] if pos["op"] in ("!=", "^") else [True, False])
        return False
    if is_call_to(pos, "error_exit") or "error_exit" in p:
        return "error_exit" in q
    if q == "!" + p:
        return True
    if pos["k"] == "MCall" and neg["k"] == "MCall" and pos["m"] == "eq" and neg["m"] == "ne":
        return render(pos["recv"]) == render(neg["recv"]) and render(pos["args"][0]) == render(neg["args"][0])
    if pos["k"] == "Bin" and neg["k"] == "Bin" and pos["op"] == "==" and neg["op"] == "!=":
        return render(pos["l"]) == render(neg["l"]) and render(pos["r"]) == render(neg["r"])
    return False


def r3(ctx):
    """each negative text operator is the complement of its positive twin: conforms evaluated (rules/conf.py) on every
    scenario of (regex verdict, literal has a wildcard, cache hit or miss, pattern compiles)"""
    import conf
    import interp
    run = conf.Run(ctx)
    n = 0
    for pos, neg in (("Eq", "Ne"), ("Rx", "NotRx"), ("Like", "NotLike"), ("Eeq", "Ene")):
        bad = None
        for matched in (False, True):
            for glob in (False, True):
                for hit in (False, True):
                    for compiles in (True, False):
                        for ltxt in ("abc", "a*"):
                            cached = {"a*": {"__regex": "<cached>"}} if hit else None
                            try:
                                a, _ = run.run(pos, conf.variant(ltxt), conf.variant("a*"), matched=matched, is_glob=glob, cached=cached, regex_ok=compiles)
                                b, _ = run.run(neg, conf.variant(ltxt), conf.variant("a*"), matched=matched, is_glob=glob, cached=cached, regex_ok=compiles)
                            except interp.Undecided as e:
                                bad = "cannot evaluate conforms: %s" % e
                                break
                            n += 1
                            okp = (a == "exit" and b == "exit") or (isinstance(a, bool) and isinstance(b, bool) and a != b)
                            if not okp and bad is None:
                                bad = "with regex verdict %s, wildcard %s, cache %s, pattern %s, column text `%s`: %s gives %s and %s gives %s" % (
                                    matched, glob, "hit" if hit else "miss", "valid" if compiles else "invalid", ltxt, pos, a, neg, b)
                        if bad:
                            break
                    if bad:
                        break
                if bad:
                    break
            if bad:
                break
        ctx.obligation(bad is None)
        if bad:
            ctx.violation("complement/%s" % neg, ctx.where(sem.CONFORMS), "%s is not the negation of %s: %s" % (neg, pos, bad))
    ctx.covered("positive / negative text operators evaluated pairwise on 32 scenarios each", n, distinct_keys=["Ne", "NotRx", "NotLike", "Ene"], exhaustive=True)
    ctx.floor(n, 8, "scenario evaluations of the text operators", sem.CONFORMS)


def r4(ctx):
    """operator -> translator dispatch, subject / pattern sides, exact operators, invalid patterns: conforms evaluated
    (rules/conf.py) per operator; is_glob tests exactly * and ?"""
    import conf
    import interp
    run = conf.Run(ctx)
    n = 0
    L, R = "abc", "a*"
    want_tr = {"Eq": "<convert_glob_to_pattern:a*>", "Ne": "<convert_glob_to_pattern:a*>", "Like": "<convert_like_to_pattern:a*>",
               "NotLike": "<convert_like_to_pattern:a*>", "Rx": "a*", "NotRx": "a*"}
    for op in ("Eq", "Ne", "Rx", "NotRx", "Like", "NotLike", "Eeq", "Ene"):
        neg = op in ("Ne", "NotRx", "NotLike", "Ene")
        try:
            for matched, L in ((False, "abc"), (True, "abc"), (True, ""), (False, ""), (True, "a-long-column-text")):
                # (a) pattern path: whatever the column text, the verdict is the regex's
                got, tr = run.run(op, conf.variant(L), conf.variant(R), matched=matched, is_glob=True)
                n += 1
                if op in ("Eeq", "Ene"):
                    ok = not tr["compiled"] and not tr["translators"] and not tr["matched_on"] and got == ((L == R) != neg)
                    why = "must compare the literal text without any pattern; compiled %s, result %s" % (tr["compiled"], got)
                    key = "exact/%s" % op
                else:
                    ok = tr["compiled"] == [want_tr[op]] and got == (matched != neg) and [s_ for _p, s_ in tr["matched_on"]] == [L] and \
                        [p_ for p_, _s in tr["matched_on"]] == [want_tr[op]]
                    why = "must compile %s from the literal and match it against the column text; compiled %s, matched %s, result %s for regex verdict %s" % (
                        want_tr[op], tr["compiled"], tr["matched_on"], got, matched)
                    key = ("translator/%s" % op) if tr["compiled"] != [want_tr[op]] else ("subject/%s" % op if [s_ for _p, s_ in tr["matched_on"]] != [L] else "result/%s" % op)
                ctx.obligation(ok)
                if not ok:
                    ctx.violation(key, ctx.where(sem.CONFORMS), "operator %s %s" % (op, why))
                    break
            L = "abc"
            # (b) = / != without a wildcard: plain text equality, no regex
            if op in ("Eq", "Ne"):
                for lt, rt in (("abc", "abc"), ("abc", "abd")):
                    got, tr = run.run(op, conf.variant(lt), conf.variant(rt), matched=True, is_glob=False)
                    n += 1
                    ok = not tr["compiled"] and got == ((lt == rt) != neg)
                    ctx.obligation(ok)
                    if not ok:
                        ctx.violation("glob-dispatch/%s" % op, ctx.where(sem.CONFORMS),
                                      "%s must use the glob translation exactly when the literal contains a glob wildcard, and plain equality "
                                      "otherwise: `%s` %s `%s` without a wildcard gives %s (compiled %s)" % (op, lt, op, rt, got, tr["compiled"]))
                        break
            # (c) a pattern that does not compile: =~ and like stop with a message, = falls back to text equality
            if op not in ("Eeq", "Ene"):
                got, tr = run.run(op, conf.variant(L), conf.variant(R), matched=True, is_glob=True, regex_ok=False)
                n += 1
                ok = (got == ((L == R) != neg)) if op in ("Eq", "Ne") else got == "exit"
                ctx.obligation(ok)
                if not ok:
                    ctx.violation("invalid-pattern/%s" % op, ctx.where(sem.CONFORMS),
                                  "with a pattern that does not compile %s gives %s, expected %s" % (op, got, "text (in)equality" if op in ("Eq", "Ne") else "an error exit"))
            # (d) a cached regex is used as is
            if op not in ("Eeq", "Ene"):
                for matched in (False, True):
                    got, tr = run.run(op, conf.variant(L), conf.variant(R), matched=matched, is_glob=True, cached={R: {"__regex": "<cached>"}})
                    n += 1
                    ok = got == (matched != neg)
                    ctx.obligation(ok)
                    if not ok:
                        ctx.violation("cached/%s" % op, ctx.where(sem.CONFORMS), "with the pattern already cached %s gives %s for regex verdict %s" % (op, got, matched))
                        break
        except interp.Undecided as e:
            ctx.obligation(False)
            ctx.violation("unreadable/%s" % op, ctx.where(sem.CONFORMS), "cannot evaluate conforms for %s: %s" % (op, e))
    # (f) the wildcard operators hand every pattern to their translator, whatever its shape: a shortcut for a popular shape
    # (`*.ext` answered from the extension, a leading `*` answered with ends_with) has its own idea of what a wildcard matches -
    # `*.env` matches the dot-file `.env`, whose extension is empty
    shapes = ["a*", "*.txt", "*.env", "*", "?", "*.*", "a?c*", "*a", "a%", "%.txt", "_", "%a%"]
    k = 0
    for op, tr_ in (("Eq", "convert_glob_to_pattern"), ("Ne", "convert_glob_to_pattern"), ("Like", "convert_like_to_pattern"), ("NotLike", "convert_like_to_pattern")):
        neg = op in ("Ne", "NotLike")
        for pat in shapes:
            if op in ("Eq", "Ne") and not ("*" in pat or "?" in pat):
                continue
            for subj in (".env", "a.txt", "xay"):
                for matched in (False, True):
                    try:
                        got, tr = run.run(op, conf.variant(subj), conf.variant(pat), matched=matched, is_glob=True)
                    except interp.Undecided as e:
                        ctx.obligation(False)
                        ctx.violation("unreadable/%s" % op, ctx.where(sem.CONFORMS), "cannot evaluate conforms for %s with the pattern `%s`: %s" % (op, pat, e))
                        break
                    k += 1
                    want_c = ["<%s:%s>" % (tr_, pat)]
                    ok = tr["compiled"] == want_c and got == (matched != neg) and [s_ for _p, s_ in tr["matched_on"]] == [subj]
                    ctx.obligation(ok)
                    if not ok:
                        ctx.violation("pattern-bypassed/%s" % op, ctx.where(sem.CONFORMS),
                                      "%s with the pattern `%s` on `%s` must translate the pattern with %s, match the whole column text against it and answer with the regex's "
                                      "verdict; compiled %s, matched %s, result %s for verdict %s" % (op, pat, subj, tr_, tr["compiled"], tr["matched_on"], got, matched))
                        break
                else:
                    continue
                break
            else:
                continue
            break
    ctx.covered("wildcard operators evaluated on 12 pattern shapes x 3 subjects x regex verdicts (the pattern always goes through its translator)", k,
                distinct_keys=shapes, exhaustive=True)
    # (e) the regex operators hand *every* pattern to the regex engine: a pattern is searched for as plain text (no regex
    # compiled) at most when it holds none of the characters special in regex syntax - a shortcut that forgets one of them
    # (a counted repetition `b{2}`, say) answers with a literal search where the pattern means something else
    SPECIAL = "\\.+*?()|[]{}^$"
    pats = ["abc", "a b-c,d'e#f~g", "ab{2}", "b{2,}", "a.c", "a+", "a?", "a*", "(ab)", "a|b", "[ab]", "^a", "a$", "a\\d"]
    m = 0
    for op in ("Rx", "NotRx"):
        neg = op == "NotRx"
        for pat in pats:
            try:
                res = {}
                for subj in ("x" + pat + "y", "zzz"):
                    got, tr = run.run(op, conf.variant(subj), conf.variant(pat), matched=True, is_glob=False)
                    res[subj] = (got, list(tr["compiled"]))
            except interp.Undecided as e:
                ctx.obligation(False)
                ctx.violation("unreadable/%s" % op, ctx.where(sem.CONFORMS), "cannot evaluate conforms for %s with the pattern `%s`: %s" % (op, pat, e))
                break
            m += 1
            compiled = all(c == [pat] for _g, c in res.values())
            plain = not any(ch in SPECIAL for ch in pat)
            shortcut_ok = plain and all(not c for _g, c in res.values()) and all(g == ((pat in subj) != neg) for subj, (g, _c) in res.items())
            ok = compiled or shortcut_ok
            ctx.obligation(ok)
            if not ok:
                ctx.violation("regex-bypassed/%s" % op, ctx.where(sem.CONFORMS),
                              "%s with the pattern `%s` does not search with that regular expression (compiled: %s)%s" %
                              (op, pat, {k: v[1] for k, v in res.items()}, "" if plain else ": the pattern holds regex syntax and is not a plain text"))
                break
    ctx.covered("regex operators evaluated on 14 patterns (one per kind of regex syntax, two plain texts): the pattern reaches the regex engine", m,
                distinct_keys=pats, exhaustive=True)
    ctx.covered("text operators evaluated: translator, subject, polarity, wildcard dispatch, invalid pattern, cached pattern", n,
                distinct_keys=list(want_tr) + ["Eeq", "Ene"], exhaustive=True)
    # is_glob tests exactly * and ?
    ih = ctx.anchor_hir(IS_GLOB)
    ips = ctx.prog.fns[IS_GLOB]["params"]
    bad = []
    for text in ("abc", "a*c", "a?c", "*", "?", "a.c", "a%c", "a_c", "[ab]", "a+", ""):
        try:
            g = interp.Interp(prog=ctx.prog).run(ih, {ips[0]["id"]: text})
        except interp.Undecided as e:
            bad.append("%r: %s" % (text, e))
            continue
        if g != ("*" in text or "?" in text):
            bad.append("%r -> %s" % (text, g))
    ctx.obligation(not bad)
    ctx.covered("is_glob evaluated on 11 texts", 11, distinct_keys=["is_glob"])
    if bad:
        ctx.violation("is_glob", ctx.where(IS_GLOB), "is_glob must test for `*` or `?` exactly; %s" % bad[:3])


RULES = [
    ("C12-R1", "glob / LIKE escape tables cover every regex metacharacter; wildcards and anchoring", r1),
    ("C12-R2", "regex cache key determines the translator", r2),
    ("C12-R3", "negative text operators are the negation of their positive arm, result by result", r3),
    ("C12-R4", "operator -> translator dispatch, subject/pattern sides, is_glob", r4),
    ("X-LITERAL", "a literal is never answered from the text-keyed per-entry memo [shared]", lambda ctx: __import__("extra").literal_before_memo(ctx)),
    ("X-LEXCHARS", "the lexer reads the query by characters, not bytes [shared]", lambda ctx: __import__("extra2").lexer_reads_characters(ctx)),
    ("C12-R5", "the comparison carries the operator written in the query", lambda ctx: __import__("extra2").operator_is_the_lexed_one(ctx)),
    ("X-LITVALUE", "a literal evaluates to the text written in the query (patterns, size literals, arguments) [shared]", lambda ctx: __import__("extra2").literal_is_its_text(ctx)),
    ("C02-R4", "quoted literals are never resolved as column / function names [shared with C02]", lambda ctx: __import__("c02").r4(ctx)),
    ("X-LEXEMS", "every lexem but an empty quoted string reaches the grammar (a blank string is a value) [shared]", lambda ctx: __import__("extra2").lexems_are_kept(ctx)),
    ("C02-R3", "every documented operator spelling denotes its operator (Op::from evaluated on all spellings x letter cases) [shared with C02]", lambda ctx: __import__("c02").r3(ctx)),
    ("X-LEXCLASS", "lexer character classes, context flags, token ends and quoted-literal ends [shared]", lambda ctx: __import__("extra").lexer_classes(ctx)),
    ("X-MEMOKEY", "a memo kept in self is keyed by every parameter its stored value is computed from [shared]", lambda ctx: __import__("extra2").memo_key_complete(ctx)),
]

EXPLANATION = (
    "Static structural necessary conditions of C12: the glob and LIKE translators are recovered as tables "
    "(characters matched by the replacement regex = arms of the closure; wildcards *->.*, ?->. and %->.*, _->.; every "
    "other regex metacharacter of regex-syntax escaped to itself; ^(?i)...$ wrapping); the regex cache key must "
    "determine the translator; each negative arm of the text comparison is the positive arm with every result "
    "negated and the same translator; =/!= use the glob path exactly when is_glob, ===/!== use no translator, "
    "like uses the LIKE translator, =~ the raw pattern; regexes are matched against the column value. The regex "
    "engine's semantics and Unicode case folding are trusted.")
ASSUMPTIONS = ["rustc's HIR faithfully represents the source; exporter and rule scripts are correct",
               "regex-syntax 0.8 meta characters outside classes are \\ . + * ? ( ) | [ ] { } ^ $",
               "regex::Regex implements its documented semantics"]
NOT_DECIDED = ["regex engine semantics, Unicode case folding", "matching on real file names"]
