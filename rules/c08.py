"""C08 — GROUP BY partitions the matching entries (static necessary conditions)."""
from hirq import *  # noqa: F401,F403
from core import Abort

PART = "searcher::Searcher::partition_output_buffer"
LSR = "searcher::Searcher::list_search_results"
CHECK_FILE = "searcher::Searcher::check_file"
FILTERS = {"filter", "take", "skip", "take_while", "skip_while", "step_by", "filter_map", "rev", "dedup"}


def chain_methods(n):
    out = []
    n = peel(n, methods=False)
    while n["k"] == "MCall":
        out.append(n["m"])
        n = peel(n["recv"], methods=False)
    return list(reversed(out)), n


def r1(ctx):
    """conservation: every buffered row is put into exactly one partition"""
    hir = ctx.anchor_hir(PART)
    its = [it for it in find_iterations(hir) if "raw_output_buffer" in render(it["iter"])]
    if len(its) != 1:
        ctx.violation("anchor/partition-iteration", PART, "iteration over raw_output_buffer not found")
        raise Abort()
    it = its[0]
    ms, root = chain_methods(it["iter"])
    ok = not (set(ms) & FILTERS) and render(root) == "self.raw_output_buffer"
    ctx.obligation(ok)
    if not ok:
        ctx.violation("partition/iteration", ctx.where(PART, it["node"]), "the partitioning must visit every buffered row (%s)" % ms)
    body = it["body"]
    row_ids = set(pat_binders(it["pat"]))

    def mentions_row(n):
        return any(x["k"] == "Path" and x.get("rk") == "Local" and x["res"] in row_ids for x in walk_exprs(n))

    def insertions(n):
        return [c for c in walk_exprs(n) if c["k"] == "MCall" and c["m"] in ("push", "insert") and any(mentions_row(a) for a in c["args"])]

    def paths(n):
        """number of insertions of the row on each path through n; -100 marks a path that leaves early"""
        n = peel(n, methods=False)
        if n["k"] == "Block":
            tot = [0]
            for s_ in n["stmts"] + ([n["expr"]] if "expr" in n else []):
                r = paths(s_)
                tot = [a_ + b_ for a_ in tot for b_ in r]
            return tot
        if n["k"] == "If":
            t = paths(n["t"])
            e = paths(n["e"]) if "e" in n else [0]
            c = len(insertions(n["c"]))
            return [c + x for x in t + e]
        if n["k"] in ("Ret", "Break", "Continue"):
            return [-100]
        if n["k"] == "Match" and n.get("src") == "Normal":
            out = []
            c = len(insertions(n["scrut"]))
            for a_ in n["arms"]:
                out += [c + x for x in paths(a_["body"])]
            return out
        if n["k"] == "Let" and n.get("init") is not None:
            return paths(n["init"])
        return [len(insertions(n))]

    ps = paths(body)
    ok = all(p == 1 for p in ps)
    ctx.obligation(ok)
    ctx.covered("paths through the per-row partitioning body, insertions of the row on each", len(ps), distinct_keys=["paths:%d" % len(ps)],
                sample={"insertions_per_path": ps}, exhaustive=True)
    if not ok:
        ctx.violation("partition/conservation", ctx.where(PART, body),
                      "a row must be inserted into exactly one partition on every path; insertions per path: %s" % ps)
    # existing key -> the row is pushed onto that key's partition; new key -> a new partition holding this row
    ins = insertions(body)
    pushes = [c for c in ins if c["m"] == "push"]
    news = [c for c in ins if c["m"] == "insert"]
    ok = len(pushes) == 1 and len(news) == 1

    def side(c):
        """'hit' / 'miss' / None: under which outcome of the key lookup the call runs"""
        for g in guards_of(body, c) or []:
            if g[0] == "if" and g[1]["k"] != "LetE" and "contains_key" in render(g[1]):
                neg = render(peel(g[1], methods=False)).startswith("!")
                return "hit" if (g[2] != neg) else "miss"
            if g[0] == "if" and g[1]["k"] == "LetE" and any(w in render(g[1]["init"]) for w in ("get_mut", ".get(")):
                return "hit" if ("Some" in render_pat(g[1]["pat"])) == g[2] else "miss"
            if g[0] == "match" and any(w in render(g[1]) for w in ("get_mut", ".get(", "entry(")):
                return "hit" if "Some" in render_pat(g[2]) or "Occupied" in render_pat(g[2]) else "miss"
        return None
    if ok:
        ok = side(pushes[0]) == "hit" and side(news[0]) == "miss" and "key" in render(news[0]["args"][0]) and \
            ("get_mut" in render(pushes[0]["recv"]) or root_local(pushes[0]["recv"]) is not None)
    ctx.obligation(ok)
    if not ok:
        ctx.violation("partition/branches", ctx.where(PART, body), "an existing key must receive the row, a new key must start a partition with it")


def r2(ctx):
    """the key is built from all grouping expressions, which check_file evaluates for every row"""
    hir = ctx.anchor_hir(PART)
    locs = Locals(hir)
    gf = [x for x in walk(hir) if x["k"] == "Let" and x["pat"].get("name") == "group_fields"]
    ok = len(gf) == 1
    if ok:
        ms, root = chain_methods(gf[0]["init"])
        ok = not (set(ms) & FILTERS) and render(root) == "self.query.grouping_fields" and "map" in ms
    ctx.obligation(ok)
    if not ok:
        ctx.violation("key/grouping-fields", ctx.where(PART), "the partition key must use every grouping expression")
    keys = [x for x in walk(hir) if x["k"] == "Let" and x["pat"].get("name") == "key"]
    ok = len(keys) == 1
    if ok:
        ms, root = chain_methods(keys[0]["init"])
        ok = not (set(ms) & FILTERS) and render(root) == "group_fields" and "map" in ms
        cl = [c for c in walk_exprs(keys[0]["init"]) if c["k"] == "Closure"]
        ok = ok and cl and "item.get(f)" in render(cl[0]["body"])
    ctx.obligation(ok)
    if not ok:
        ctx.violation("key/construction", ctx.where(PART), "the key of a row must be the row's values of all grouping expressions, in order")
    ch = ctx.anchor_hir(CHECK_FILE)
    ok = False
    for x in walk_exprs(ch):
        if x["k"] == "Loop" and "grouping_fields" in render(x) or (x["k"] == "Match" and x.get("src") == "ForLoopDesugar" and "grouping_fields" in render(x["scrut"])):
            ms, root = chain_methods(peel(x["scrut"], methods=False)["args"][0]) if x["k"] == "Match" else ([], None)
            if any(c["k"] == "MCall" and c["m"] == "get_column_expr_value" for c in walk_exprs(x)) and not (set(ms) & FILTERS):
                ok = True
    ctx.obligation(ok)
    if not ok:
        ctx.violation("key/evaluated-per-row", ctx.where(CHECK_FILE), "check_file must evaluate every grouping expression into the buffered row")
    ctx.covered("partition key construction (grouping list, per-row key, per-row evaluation)", 3, distinct_keys=["fields", "key", "row"])


def r3(ctx):
    """one row per group, evaluated over that group's rows with the key columns bound by position; ordering of group rows:
    the output phase of list_search_results evaluated on its scenario table (rules/lsr.py)"""
    import lsr
    lsr.output_phase(ctx)
    # the groups are formed once, from all buffered rows of all roots: partition_output_buffer has one call site, outside the
    # loop over the roots, and the aggregation buffer is never emptied, drained or replaced while the query runs
    hir = ctx.anchor_hir(LSR)
    cs = [c for c in walk_exprs(hir) if (c["k"] == "MCall" and c["m"] == "partition_output_buffer") or (c["k"] == "Call" and str(c.get("callee", "")).endswith("partition_output_buffer"))]
    in_roots = [c for c in cs if any("roots" in render(it["iter"]) and any(y is c for y in walk_exprs(it["body"])) for it in find_iterations(hir))]
    ok = len(cs) == 1 and not in_roots
    ctx.obligation(ok)
    if not ok:
        ctx.violation("groups/partition-once", ctx.where(LSR), "the buffered rows must be partitioned once, after all roots were searched (%d call sites, %d inside the loop over the roots): "
                      "partitions formed per root and merged lose the rows of a key seen under an earlier root" % (len(cs), len(in_roots)))
    shrink = []
    for fname in sorted(ctx.prog.fns):
        if "{closure" in fname:
            continue
        fh = ctx.prog.hir(fname)
        if fh is None:
            continue
        for c in walk_exprs(fh):
            if c["k"] == "MCall" and c["m"] in ("clear", "drain", "truncate", "pop", "remove", "swap_remove", "retain", "split_off", "take") and "raw_output_buffer" in render(c["recv"]):
                shrink.append((fname, c))
            if c["k"] == "Assign" and c["l"]["k"] == "Field" and c["l"]["name"] == "raw_output_buffer" and not fname.endswith("::new"):
                shrink.append((fname, c))
            if c["k"] == "Call" and str(c.get("callee", "")).endswith(("mem::take", "mem::replace", "mem::swap")) and "raw_output_buffer" in render(c):
                shrink.append((fname, c))
    ctx.obligation(not shrink)
    for fname, c in shrink:
        ctx.violation("groups/buffer-shrinks/%s" % short(fname, 1), ctx.where(fname, c), "`%s` removes rows from the aggregation buffer while the query runs: groups and aggregates are functions of every accepted row" % render(c)[:80])


RULES = [
    ("C08-R1", "conservation: each buffered row enters exactly one partition", r1),
    ("C08-R2", "partition key uses every grouping expression; rows carry them", r2),
    ("C08-R3", "one row per partition, aggregates scoped to it, key binding, ordering direction", r3),
    ("C09-R1", "group rows are separated like any other rows [shared with C09]", lambda ctx: __import__("c09").r1(ctx)),
    ("C07-R1", "per-group AVG is a real division [shared with C07]", lambda ctx: __import__("c07").r1(ctx)),
    ("C07-R2", "per-group aggregates: primitive / divisor / sqrt table [shared with C07]", lambda ctx: __import__("c07").r2(ctx)),
    ("C07-R3", "rows reach the aggregation buffer once, after the filter [shared with C07]", lambda ctx: __import__("c07").r3(ctx)),
    ("X-PHASES", "clause order and phase flags of Parser::parse; WHERE shorthand window [shared]", lambda ctx: __import__("extra").parser_phases(ctx)),
    ("X-BUFFER", "buffering predicates (ordered or aggregate) and recursive expression predicates [shared]", lambda ctx: __import__("extra").buffering_predicates(ctx)),
    ("X-PIPELINE", "the per-entry pipeline of check_file evaluated on its scenario table (filter, count, row, buffer key, separator, closed output) [shared]", lambda ctx: __import__("cfile").pipeline(ctx)),
    ("C08-R4", "inside a group, function arguments are evaluated over that group's rows (nested aggregates)", lambda ctx: __import__("gcev").nested_scope(ctx)),
]

EXPLANATION = (
    "Static structural necessary conditions of C08: partition_output_buffer visits every buffered row (no filtering "
    "adaptor) and on every path through its per-row closure inserts the row exactly once (push to the existing "
    "partition or start a new one); the key is built from all grouping expressions in order and check_file evaluates "
    "each of them into the buffered row; the grouped output loop yields exactly one row per partition, evaluates "
    "columns over that partition's rows only, binds the i-th grouping expression to the i-th key component, and "
    "orders group rows a-vs-b / b-vs-a by direction. The separator between group rows is decided under C09-R1. "
    "Per-group aggregate values, equality of keys as strings and ordering by non-selected keys are not decided."
    ' Parser::parse sets where_parsed before parse_group_by, so grouping keys are parsed as values.')
ASSUMPTIONS = ["rustc's HIR faithfully represents the source; exporter and rule scripts are correct", "HashMap semantics"]
NOT_DECIDED = ["per-group aggregate values (C07 decides the aggregate formulas)", "ordering of group rows by a key that is not selected (position lookup defaults to column 0)",
               "equality of keys compared as strings"]
