"""C08 — GROUP BY partitions the matching entries (static necessary conditions)."""
from hirq import *  # noqa: F401,F403
from core import Abort

PART = "searcher::Searcher::partition_output_buffer"
LSR = "searcher::Searcher::list_search_results"
CHECK_FILE = "searcher::Searcher::check_file"
FILTERS = {"filter", "take", "skip", "take_while", "skip_while", "step_by", "filter_map", "rev", "dedup"}


def chain_methods(n):
    out = []
    n = peel(n, methods=False)
    while n["k"] == "MCall":
        out.append(n["m"])
        n = peel(n["recv"], methods=False)
    return list(reversed(out)), n


def _partition(ctx, rows, group=("g", "h")):
    """partition_output_buffer evaluated (finite interpreter) on a buffer of rows (maps from expression text to value)"""
    import interp
    from extra import _expr_dict
    hir = ctx.anchor_hir(PART)
    ps = ctx.prog.fns[PART]["params"]

    def tagged(t):
        d = _expr_dict(interp, val=interp.some(t))
        d["__tag"] = t
        return d

    def call(node, recv, args, it, env):
        if node.get("m") == "to_string" and isinstance(recv, dict) and "__tag" in recv:
            return (recv["__tag"],)
        return None
    selfv = {"query": {"grouping_fields": [tagged(t) for t in group]}, "raw_output_buffer": [interp.HMap(r) for r in rows]}
    got = interp.Interp(call=call, prog=ctx.prog, max_steps=60000).run(hir, {ps[0]["id"]: selfv})
    if not isinstance(got, interp.HMap):
        raise interp.Undecided("partition_output_buffer does not build a map (%r)" % (got,))
    return {tuple(k) if isinstance(k, (list, tuple)) else k: [dict(r) for r in v] for k, v in got.items()}


def r1(ctx):
    """conservation and keying: partition_output_buffer evaluated on small buffers: every buffered row lands in exactly one
    partition, the partition of its values of all grouping expressions in order (a row without a value goes under the empty
    text), rows keep their order within a partition"""
    import interp
    import itertools
    n = 0
    vals = ("a", "b")
    rows_domain = [{"g": x, "h": y, "id": "%s%s" % (x, y)} for x in vals for y in vals] + [{"h": "a", "id": "-a"}, {"id": "--"}, {"g": "", "h": "", "id": "empty"}]
    bad = None
    try:
        for ln in range(0, 4):
            for combo in itertools.product(range(len(rows_domain)), repeat=ln):
                rows = [dict(rows_domain[i], n=str(k)) for k, i in enumerate(combo)]
                got = _partition(ctx, rows)
                n += 1
                want = {}
                for r in rows:
                    want.setdefault((r.get("g", ""), r.get("h", "")), []).append(r)
                if got != want and bad is None:
                    kind = "conservation" if sorted(map(repr, sum(got.values(), []))) != sorted(map(repr, rows)) else "key"
                    bad = (kind, "the rows %s are partitioned as %s, expected %s" % ([(r.get("g"), r.get("h")) for r in rows], {k: len(v) for k, v in got.items()}, {k: len(v) for k, v in want.items()}))
                if bad:
                    break
            if bad:
                break
    except interp.Undecided as e:
        bad = ("unreadable", "cannot evaluate partition_output_buffer: %s" % e)
    ctx.obligation(bad is None)
    if bad:
        ctx.violation("partition/%s" % bad[0], ctx.where(PART), "every buffered row must enter exactly one partition, the one of its values of all grouping expressions in order: %s" % bad[1])
    ctx.covered("partition_output_buffer evaluated on every buffer of <= 3 rows over 5 row shapes (two grouping expressions)", n, distinct_keys=["conservation", "key"], exhaustive=True)
    ctx.floor(n, 100, "partition evaluations", PART)


def r2(ctx):
    """the rows carry the grouping expressions: check_file evaluates every grouping expression into the buffered row (the key
    construction itself is decided by the evaluation of partition_output_buffer in C08-R1, the row by X-PIPELINE)"""
    ch = ctx.anchor_hir(CHECK_FILE)
    ok = False
    for x in walk_exprs(ch):
        if x["k"] == "Loop" and "grouping_fields" in render(x) or (x["k"] == "Match" and x.get("src") == "ForLoopDesugar" and "grouping_fields" in render(x["scrut"])):
            ms, root = chain_methods(peel(x["scrut"], methods=False)["args"][0]) if x["k"] == "Match" else ([], None)
            if any(c["k"] == "MCall" and c["m"] == "get_column_expr_value" for c in walk_exprs(x)) and not (set(ms) & FILTERS):
                ok = True
    ctx.obligation(ok)
    if not ok:
        ctx.violation("key/evaluated-per-row", ctx.where(CHECK_FILE), "check_file must evaluate every grouping expression into the buffered row")
    ctx.covered("per-row evaluation of the grouping expressions in check_file", 1, distinct_keys=["row"])


def r3(ctx):
    """one row per group, evaluated over that group's rows with the key columns bound by position; ordering of group rows:
    the output phase of list_search_results evaluated on its scenario table (rules/lsr.py)"""
    import lsr
    lsr.output_phase(ctx)
    # the groups are formed once, from all buffered rows of all roots: partition_output_buffer has one call site, outside the
    # loop over the roots, and the aggregation buffer is never emptied, drained or replaced while the query runs
    hir = ctx.anchor_hir(LSR)
    cs = [c for c in walk_exprs(hir) if (c["k"] == "MCall" and c["m"] == "partition_output_buffer") or (c["k"] == "Call" and str(c.get("callee", "")).endswith("partition_output_buffer"))]
    in_roots = [c for c in cs if any("roots" in render(it["iter"]) and any(y is c for y in walk_exprs(it["body"])) for it in find_iterations(hir))]
    ok = len(cs) == 1 and not in_roots
    ctx.obligation(ok)
    if not ok:
        ctx.violation("groups/partition-once", ctx.where(LSR), "the buffered rows must be partitioned once, after all roots were searched (%d call sites, %d inside the loop over the roots): "
                      "partitions formed per root and merged lose the rows of a key seen under an earlier root" % (len(cs), len(in_roots)))
    shrink = []
    for fname in sorted(ctx.prog.fns):
        if "{closure" in fname:
            continue
        fh = ctx.prog.hir(fname)
        if fh is None:
            continue
        for c in walk_exprs(fh):
            if c["k"] == "MCall" and c["m"] in ("clear", "drain", "truncate", "pop", "remove", "swap_remove", "retain", "split_off", "take") and "raw_output_buffer" in render(c["recv"]):
                shrink.append((fname, c))
            if c["k"] == "Assign" and c["l"]["k"] == "Field" and c["l"]["name"] == "raw_output_buffer" and not fname.endswith("::new"):
                shrink.append((fname, c))
            if c["k"] == "Call" and str(c.get("callee", "")).endswith(("mem::take", "mem::replace", "mem::swap")) and "raw_output_buffer" in render(c):
                shrink.append((fname, c))
    ctx.obligation(not shrink)
    for fname, c in shrink:
        ctx.violation("groups/buffer-shrinks/%s" % short(fname, 1), ctx.where(fname, c), "`%s` removes rows from the aggregation buffer while the query runs: groups and aggregates are functions of every accepted row" % render(c)[:80])


RULES = [
    ("C08-R1", "conservation: each buffered row enters exactly one partition", r1),
    ("C08-R2", "partition key uses every grouping expression; rows carry them", r2),
    ("C08-R3", "one row per partition, aggregates scoped to it, key binding, ordering direction", r3),
    ("C09-R1", "group rows are separated like any other rows [shared with C09]", lambda ctx: __import__("c09").r1(ctx)),
    ("C07-R1", "per-group AVG is a real division [shared with C07]", lambda ctx: __import__("c07").r1(ctx)),
    ("C07-R2", "per-group aggregates: primitive / divisor / sqrt table [shared with C07]", lambda ctx: __import__("c07").r2(ctx)),
    ("C07-R3", "rows reach the aggregation buffer once, after the filter [shared with C07]", lambda ctx: __import__("c07").r3(ctx)),
    ("X-PHASES", "clause order and phase flags of Parser::parse; WHERE shorthand window [shared]", lambda ctx: __import__("extra").parser_phases(ctx)),
    ("X-BUFFER", "buffering predicates (ordered or aggregate) and recursive expression predicates [shared]", lambda ctx: __import__("extra").buffering_predicates(ctx)),
    ("X-PIPELINE", "the per-entry pipeline of check_file evaluated on its scenario table (filter, count, row, buffer key, separator, closed output) [shared]", lambda ctx: __import__("cfile").pipeline(ctx)),
    ("C08-R4", "inside a group, function arguments are evaluated over that group's rows (nested aggregates)", lambda ctx: __import__("gcev").nested_scope(ctx)),
    ("X-EXPRWALK", "recursive walks of an expression's value layer visit left, right and the further arguments [shared]", lambda ctx: __import__("extra2").value_walks_reach_arguments(ctx)),
]

EXPLANATION = (
    "Static structural necessary conditions of C08: partition_output_buffer visits every buffered row (no filtering "
    "adaptor) and on every path through its per-row closure inserts the row exactly once (push to the existing "
    "partition or start a new one); the key is built from all grouping expressions in order and check_file evaluates "
    "each of them into the buffered row; the grouped output loop yields exactly one row per partition, evaluates "
    "columns over that partition's rows only, binds the i-th grouping expression to the i-th key component, and "
    "orders group rows a-vs-b / b-vs-a by direction. The separator between group rows is decided under C09-R1. "
    "Per-group aggregate values, equality of keys as strings and ordering by non-selected keys are not decided."
    ' Parser::parse sets where_parsed before parse_group_by, so grouping keys are parsed as values.')
ASSUMPTIONS = ["rustc's HIR faithfully represents the source; exporter and rule scripts are correct", "HashMap semantics"]
NOT_DECIDED = ["per-group aggregate values (C07 decides the aggregate formulas)", "ordering of group rows by a key that is not selected (position lookup defaults to column 0)",
               "equality of keys compared as strings"]
