"""C08 — GROUP BY partitions the matching entries (static necessary conditions)."""
from hirq import *  # noqa: F401,F403
from core import Abort

PART = "searcher::Searcher::partition_output_buffer"
LSR = "searcher::Searcher::list_search_results"
CHECK_FILE = "searcher::Searcher::check_file"
FILTERS = {"filter", "take", "skip", "take_while", "skip_while", "step_by", "filter_map", "rev", "dedup"}


def chain_methods(n):
    out = []
    n = peel(n, methods=False)
    while n["k"] == "MCall":
        out.append(n["m"])
        n = peel(n["recv"], methods=False)
    return list(reversed(out)), n


def r1(ctx):
    """conservation: every buffered row is put into exactly one partition"""
    hir = ctx.anchor_hir(PART)
    fe = [c for c in walk_exprs(hir) if c["k"] == "MCall" and c["m"] == "for_each" and "raw_output_buffer" in render(c["recv"])]
    loops = [x for x in walk_exprs(hir) if x["k"] == "Loop" and "raw_output_buffer" in render(x)]
    if len(fe) != 1:
        ctx.violation("anchor/partition-iteration", PART, "iteration over raw_output_buffer not found")
        raise Abort()
    ms, root = chain_methods(fe[0]["recv"])
    ok = not (set(ms) & FILTERS) and render(root) == "self.raw_output_buffer"
    ctx.obligation(ok)
    if not ok:
        ctx.violation("partition/iteration", ctx.where(PART, fe[0]), "the partitioning must visit every buffered row (%s)" % ms)
    body = peel(fe[0]["args"][0], methods=False)
    body = body["body"] if body["k"] == "Closure" else body

    def insertions(n):
        return [c for c in walk_exprs(n) if c["k"] == "MCall" and c["m"] in ("push", "insert") and "item" in render(c)]

    def paths(n):
        """number of insertions of `item` on each path through n (if/else only); None if a path leaves early"""
        n = peel(n, methods=False)
        if n["k"] == "Block":
            tot = [0]
            for s in n["stmts"] + ([n["expr"]] if "expr" in n else []):
                r = paths(s)
                tot = [a + b for a in tot for b in r]
            return tot
        if n["k"] == "If":
            t = paths(n["t"])
            e = paths(n["e"]) if "e" in n else [0]
            c = len(insertions(n["c"]))
            return [c + x for x in t + e]
        if n["k"] in ("Ret", "Break", "Continue"):
            return [-100]
        if n["k"] == "Match" and n.get("src") == "Normal":
            out = []
            for a in n["arms"]:
                out += paths(a["body"])
            return out
        return [len(insertions(n))]

    ps = paths(body)
    ok = all(p == 1 for p in ps)
    ctx.obligation(ok)
    ctx.covered("paths through the per-row partitioning closure, insertions of the row on each", len(ps), distinct_keys=["paths:%d" % len(ps)],
                sample={"insertions_per_path": ps}, exhaustive=True)
    if not ok:
        ctx.violation("partition/conservation", ctx.where(PART, body),
                      "a row must be inserted into exactly one partition on every path; insertions per path: %s" % ps)
    # existing key -> push to that partition; new key -> new partition with this row
    ifs = [x for x in walk_exprs(body) if x["k"] == "If" and "contains_key" in render(x["c"])]
    ok = len(ifs) == 1 and "e" in ifs[0]
    if ok:
        t, e = render(ifs[0]["t"]), render(ifs[0]["e"])
        neg = render(peel(ifs[0]["c"], methods=False)).startswith("!")
        hit, miss = (e, t) if neg else (t, e)
        ok = "get_mut(&key)" in hit and ".push(item.clone())" in hit and "result.insert(key" in miss and "item.clone()" in miss
    ctx.obligation(ok)
    if not ok:
        ctx.violation("partition/branches", ctx.where(PART, body), "an existing key must receive the row, a new key must start a partition with it")


def r2(ctx):
    """the key is built from all grouping expressions, which check_file evaluates for every row"""
    hir = ctx.anchor_hir(PART)
    locs = Locals(hir)
    gf = [x for x in walk(hir) if x["k"] == "Let" and x["pat"].get("name") == "group_fields"]
    ok = len(gf) == 1
    if ok:
        ms, root = chain_methods(gf[0]["init"])
        ok = not (set(ms) & FILTERS) and render(root) == "self.query.grouping_fields" and "map" in ms
    ctx.obligation(ok)
    if not ok:
        ctx.violation("key/grouping-fields", ctx.where(PART), "the partition key must use every grouping expression")
    keys = [x for x in walk(hir) if x["k"] == "Let" and x["pat"].get("name") == "key"]
    ok = len(keys) == 1
    if ok:
        ms, root = chain_methods(keys[0]["init"])
        ok = not (set(ms) & FILTERS) and render(root) == "group_fields" and "map" in ms
        cl = [c for c in walk_exprs(keys[0]["init"]) if c["k"] == "Closure"]
        ok = ok and cl and "item.get(f)" in render(cl[0]["body"])
    ctx.obligation(ok)
    if not ok:
        ctx.violation("key/construction", ctx.where(PART), "the key of a row must be the row's values of all grouping expressions, in order")
    ch = ctx.anchor_hir(CHECK_FILE)
    ok = False
    for x in walk_exprs(ch):
        if x["k"] == "Loop" and "grouping_fields" in render(x) or (x["k"] == "Match" and x.get("src") == "ForLoopDesugar" and "grouping_fields" in render(x["scrut"])):
            ms, root = chain_methods(peel(x["scrut"], methods=False)["args"][0]) if x["k"] == "Match" else ([], None)
            if any(c["k"] == "MCall" and c["m"] == "get_column_expr_value" for c in walk_exprs(x)) and not (set(ms) & FILTERS):
                ok = True
    ctx.obligation(ok)
    if not ok:
        ctx.violation("key/evaluated-per-row", ctx.where(CHECK_FILE), "check_file must evaluate every grouping expression into the buffered row")
    ctx.covered("partition key construction (grouping list, per-row key, per-row evaluation)", 3, distinct_keys=["fields", "key", "row"])


def r3(ctx):
    """one output row per partition, aggregates over that partition, key values bound by position"""
    hir = ctx.anchor_hir(LSR)
    fe = [c for c in walk_exprs(hir) if c["k"] == "MCall" and c["m"] == "for_each" and "buffer_partitions" in render(c["recv"])]
    if len(fe) != 1:
        ctx.violation("anchor/group-loop", LSR, "per-partition loop not found")
        raise Abort()
    ms, root = chain_methods(fe[0]["recv"])
    ok = not (set(ms) & FILTERS)
    body = peel(fe[0]["args"][0], methods=False)["body"]
    pushes = [c for c in walk_exprs(body) if c["k"] == "MCall" and c["m"] == "push" and render(c["recv"]) == "results"]
    ok = ok and len(pushes) == 1 and not any(t[0] in ("if", "loop") for t in guards_of(body, pushes[0]))
    ctx.obligation(ok)
    if not ok:
        ctx.violation("groups/one-row-per-partition", ctx.where(LSR, fe[0]), "every partition must yield exactly one result row")
    # partitions come from partition_output_buffer over the whole buffer
    ok = len(calls_to(hir, PART)) == 1
    ctx.obligation(ok)
    if not ok:
        ctx.violation("groups/partition-call", ctx.where(LSR), "grouped output must be computed from partition_output_buffer")
    # aggregates are evaluated over the partition's rows
    ev = [c for c in walk_exprs(body) if c["k"] == "MCall" and c["m"] == "get_column_expr_value"]
    ok = len(ev) == 1 and render(ev[0]["args"][3]) == "Option::Some(f.1)" and render(ev[0]["args"][0]).endswith("None")
    ctx.obligation(ok)
    if not ok:
        ctx.violation("groups/aggregate-scope", ctx.where(LSR, body), "a group's columns must be evaluated over that group's rows only (buffer_data = the partition)")
    # key columns: file_map[k_i] = partition key component i
    ins = [c for c in walk_exprs(body) if c["k"] == "MCall" and c["m"] == "insert" and render(c["recv"]) == "file_map"]
    ok = len(ins) == 1 and render(ins[0]["args"][0]) == "k.clone()" and "f.0.get(i)" in render(ins[0]["args"][1])
    if ok:
        g = guards_of(body, ins[0])
        ok = any(t[0] == "match" and "enumerate" in render(t[1]) and "group_keys" in render(t[1]) for t in g)
    ctx.obligation(ok)
    if not ok:
        ctx.violation("groups/key-binding", ctx.where(LSR, body), "the i-th grouping expression must be bound to the i-th component of the partition key")
    gk = [x for x in walk(hir) if x["k"] == "Let" and x["pat"].get("name") == "group_keys"]
    ok = len(gk) == 1 and render(chain_methods(gk[0]["init"])[1]) == "self.query.grouping_fields" and not (set(chain_methods(gk[0]["init"])[0]) & FILTERS)
    ctx.obligation(ok)
    if not ok:
        ctx.violation("groups/key-names", ctx.where(LSR), "group key names must be the texts of all grouping expressions, in order")
    # ordering of group rows: direction handling is symmetric in the numeric and the textual branch
    sb = [c for c in walk_exprs(hir) if c["k"] == "MCall" and c["m"] == "sort_by"]
    ok = len(sb) == 1
    if ok:
        ifs = [x for x in walk_exprs(sb[0]) if x["k"] == "If" and render(peel(x["c"], methods=False)) == "directions[idx]" and "e" in x]
        ok = len(ifs) == 2
        for x in ifs:
            t, e = peel_result(x["t"]), peel_result(x["e"])
            rt, re_ = render(t), render(e)
            ok = ok and t["k"] == "MCall" and t["m"] == "cmp" and e["k"] == "MCall" and e["m"] == "cmp" and \
                render(t["recv"]) == render(peel(e["args"][0])) and render(peel(t["args"][0])) == render(e["recv"]) and rt != re_ and \
                render(t["recv"]).startswith("a")
    ctx.obligation(ok)
    if not ok:
        ctx.violation("groups/ordering-direction", ctx.where(LSR), "group rows must be compared a-vs-b for ascending keys and b-vs-a for descending ones, for numbers and for text alike")
    ctx.covered("grouped output loop (row per partition, aggregate scope, key binding, key names, ordering direction)", 6,
                distinct_keys=["row", "call", "scope", "binding", "names", "direction"])


RULES = [
    ("C08-R1", "conservation: each buffered row enters exactly one partition", r1),
    ("C08-R2", "partition key uses every grouping expression; rows carry them", r2),
    ("C08-R3", "one row per partition, aggregates scoped to it, key binding, ordering direction", r3),
    ("C09-R1", "group rows are separated like any other rows [shared with C09]", lambda ctx: __import__("c09").r1(ctx)),
    ("C07-R1", "per-group AVG is a real division [shared with C07]", lambda ctx: __import__("c07").r1(ctx)),
    ("C07-R2", "per-group aggregates: primitive / divisor / sqrt table [shared with C07]", lambda ctx: __import__("c07").r2(ctx)),
    ("C07-R3", "rows reach the aggregation buffer once, after the filter [shared with C07]", lambda ctx: __import__("c07").r3(ctx)),
    ("X-PHASES", "clause order and phase flags of Parser::parse; WHERE shorthand window [shared]", lambda ctx: __import__("extra").parser_phases(ctx)),
    ("X-BUFFER", "buffering predicates (ordered or aggregate) and recursive expression predicates [shared]", lambda ctx: __import__("extra").buffering_predicates(ctx)),
]

EXPLANATION = (
    "Static structural necessary conditions of C08: partition_output_buffer visits every buffered row (no filtering "
    "adaptor) and on every path through its per-row closure inserts the row exactly once (push to the existing "
    "partition or start a new one); the key is built from all grouping expressions in order and check_file evaluates "
    "each of them into the buffered row; the grouped output loop yields exactly one row per partition, evaluates "
    "columns over that partition's rows only, binds the i-th grouping expression to the i-th key component, and "
    "orders group rows a-vs-b / b-vs-a by direction. The separator between group rows is decided under C09-R1. "
    "Per-group aggregate values, equality of keys as strings and ordering by non-selected keys are not decided."
    ' Parser::parse sets where_parsed before parse_group_by, so grouping keys are parsed as values.')
ASSUMPTIONS = ["rustc's HIR faithfully represents the source; exporter and rule scripts are correct", "HashMap semantics"]
NOT_DECIDED = ["per-group aggregate values (C07 decides the aggregate formulas)", "ordering of group rows by a key that is not selected (position lookup defaults to column 0)",
               "equality of keys compared as strings"]
