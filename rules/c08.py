"""C08 — GROUP BY partitions the matching entries (static necessary conditions)."""
from hirq import *  # noqa: F401,F403
from core import Abort

PART = "searcher::Searcher::partition_output_buffer"
LSR = "searcher::Searcher::list_search_results"
CHECK_FILE = "searcher::Searcher::check_file"
FILTERS = {"filter", "take", "skip", "take_while", "skip_while", "step_by", "filter_map", "rev", "dedup"}


def chain_methods(n):
    out = []
    n = peel(n, methods=False)
    while n["k"] == "MCall":
        out.append(n["m"])
        n = peel(n["recv"], methods=False)
    return list(reversed(out)), n


def r1(ctx):
    """conservation: every buffered row is put into exactly one partition"""
    hir = ctx.anchor_hir(PART)
    its = [it for it in find_iterations(hir) if "raw_output_buffer" in render(it["iter"])]
    if len(its) != 1:
        ctx.violation("anchor/partition-iteration", PART, "iteration over raw_output_buffer not found")
        raise Abort()
    it = its[0]
    ms, root = chain_methods(it["iter"])
    ok = not (set(ms) & FILTERS) and render(root) == "self.raw_output_buffer"
    ctx.obligation(ok)
    if not ok:
        ctx.violation("partition/iteration", ctx.where(PART, it["node"]), "the partitioning must visit every buffered row (%s)" % ms)
    body = it["body"]
    row_ids = set(pat_binders(it["pat"]))

    def mentions_row(n):
        return any(x["k"] == "Path" and x.get("rk") == "Local" and x["res"] in row_ids for x in walk_exprs(n))

    def insertions(n):
        return [c for c in walk_exprs(n) if c["k"] == "MCall" and c["m"] in ("push", "insert") and any(mentions_row(a) for a in c["args"])]

    def paths(n):
        """number of insertions of the row on each path through n; -100 marks a path that leaves early"""
        n = peel(n, methods=False)
        if n["k"] == "Block":
            tot = [0]
            for s_ in n["stmts"] + ([n["expr"]] if "expr" in n else []):
                r = paths(s_)
                tot = [a_ + b_ for a_ in tot for b_ in r]
            return tot
        if n["k"] == "If":
            t = paths(n["t"])
            e = paths(n["e"]) if "e" in n else [0]
            c = len(insertions(n["c"]))
            return [c + x for x in t + e]
        if n["k"] in ("Ret", "Break", "Continue"):
            return [-100]
        if n["k"] == "Match" and n.get("src") == "Normal":
            out = []
            c = len(insertions(n["scrut"]))
            for a_ in n["arms"]:
                out += [c + x for x in paths(a_["body"])]
            return out
        if n["k"] == "Let" and n.get("init") is not None:
            return paths(n["init"])
        return [len(insertions(n))]

    ps = paths(body)
    ok = all(p == 1 for p in ps)
    ctx.obligation(ok)
    ctx.covered("paths through the per-row partitioning body, insertions of the row on each", len(ps), distinct_keys=["paths:%d" % len(ps)],
                sample={"insertions_per_path": ps}, exhaustive=True)
    if not ok:
        ctx.violation("partition/conservation", ctx.where(PART, body),
                      "a row must be inserted into exactly one partition on every path; insertions per path: %s" % ps)
    # existing key -> the row is pushed onto that key's partition; new key -> a new partition holding this row
    ins = insertions(body)
    pushes = [c for c in ins if c["m"] == "push"]
    news = [c for c in ins if c["m"] == "insert"]
    ok = len(pushes) == 1 and len(news) == 1

    def side(c):
        """'hit' / 'miss' / None: under which outcome of the key lookup the call runs"""
        for g in guards_of(body, c) or []:
            if g[0] == "if" and g[1]["k"] != "LetE" and "contains_key" in render(g[1]):
                neg = render(peel(g[1], methods=False)).startswith("!")
                return "hit" if (g[2] != neg) else "miss"
            if g[0] == "if" and g[1]["k"] == "LetE" and any(w in render(g[1]["init"]) for w in ("get_mut", ".get(")):
                return "hit" if ("Some" in render_pat(g[1]["pat"])) == g[2] else "miss"
            if g[0] == "match" and any(w in render(g[1]) for w in ("get_mut", ".get(", "entry(")):
                return "hit" if "Some" in render_pat(g[2]) or "Occupied" in render_pat(g[2]) else "miss"
        return None
    if ok:
        ok = side(pushes[0]) == "hit" and side(news[0]) == "miss" and "key" in render(news[0]["args"][0]) and \
            ("get_mut" in render(pushes[0]["recv"]) or root_local(pushes[0]["recv"]) is not None)
    ctx.obligation(ok)
    if not ok:
        ctx.violation("partition/branches", ctx.where(PART, body), "an existing key must receive the row, a new key must start a partition with it")


def r2(ctx):
    """the key is built from all grouping expressions, which check_file evaluates for every row"""
    hir = ctx.anchor_hir(PART)
    locs = Locals(hir)
    gf = [x for x in walk(hir) if x["k"] == "Let" and x["pat"].get("name") == "group_fields"]
    ok = len(gf) == 1
    if ok:
        ms, root = chain_methods(gf[0]["init"])
        ok = not (set(ms) & FILTERS) and render(root) == "self.query.grouping_fields" and "map" in ms
    ctx.obligation(ok)
    if not ok:
        ctx.violation("key/grouping-fields", ctx.where(PART), "the partition key must use every grouping expression")
    keys = [x for x in walk(hir) if x["k"] == "Let" and x["pat"].get("name") == "key"]
    ok = len(keys) == 1
    if ok:
        ms, root = chain_methods(keys[0]["init"])
        ok = not (set(ms) & FILTERS) and render(root) == "group_fields" and "map" in ms
        cl = [c for c in walk_exprs(keys[0]["init"]) if c["k"] == "Closure"]
        ok = ok and cl and "item.get(f)" in render(cl[0]["body"])
    ctx.obligation(ok)
    if not ok:
        ctx.violation("key/construction", ctx.where(PART), "the key of a row must be the row's values of all grouping expressions, in order")
    ch = ctx.anchor_hir(CHECK_FILE)
    ok = False
    for x in walk_exprs(ch):
        if x["k"] == "Loop" and "grouping_fields" in render(x) or (x["k"] == "Match" and x.get("src") == "ForLoopDesugar" and "grouping_fields" in render(x["scrut"])):
            ms, root = chain_methods(peel(x["scrut"], methods=False)["args"][0]) if x["k"] == "Match" else ([], None)
            if any(c["k"] == "MCall" and c["m"] == "get_column_expr_value" for c in walk_exprs(x)) and not (set(ms) & FILTERS):
                ok = True
    ctx.obligation(ok)
    if not ok:
        ctx.violation("key/evaluated-per-row", ctx.where(CHECK_FILE), "check_file must evaluate every grouping expression into the buffered row")
    ctx.covered("partition key construction (grouping list, per-row key, per-row evaluation)", 3, distinct_keys=["fields", "key", "row"])


def r3(ctx):
    """one output row per partition, aggregates over that partition, key values bound by position"""
    import sem
    hir = ctx.anchor_hir(LSR)
    locs = Locals(hir)
    its = [it for it in find_iterations(hir) if "buffer_partitions" in render(it["iter"])]
    if len(its) != 1:
        ctx.violation("anchor/group-loop", LSR, "per-partition loop not found")
        raise Abort()
    it = its[0]
    ms, root = chain_methods(it["iter"])
    ok = not (set(ms) & FILTERS)
    body = it["body"]
    pushes = [c for c in walk_exprs(body) if c["k"] == "MCall" and c["m"] == "push" and render(c["recv"]) == "results"]
    ok = ok and len(pushes) == 1 and not any(t[0] in ("if", "loop") for t in guards_of(body, pushes[0]))
    ctx.obligation(ok)
    if not ok:
        ctx.violation("groups/one-row-per-partition", ctx.where(LSR, it["node"]), "every partition must yield exactly one result row")
    # partitions come from partition_output_buffer over the whole buffer
    ok = len(calls_to(hir, PART)) == 1
    ctx.obligation(ok)
    if not ok:
        ctx.violation("groups/partition-call", ctx.where(LSR), "grouped output must be computed from partition_output_buffer")
    # the loop variable is a (key values, rows) pair: either one binder used as f.0 / f.1 or a destructuring pattern
    binders = pat_binders(it["pat"])
    blocs = Locals(body)

    def component(n):
        """0 / 1: which component of the partition pair an expression is rooted in"""
        n = peel(blocs.chase(n))
        while n["k"] in ("MCall", "Index", "Cast", "Un"):
            n = peel(blocs.chase(n["recv"] if n["k"] == "MCall" else n["e"]))
        if n["k"] == "Field" and n["name"] in ("0", "1"):
            base = peel(blocs.chase(n["e"]))
            if base["k"] == "Path" and base.get("rk") == "Local" and base["res"] in binders[:1]:
                return int(n["name"])
        if n["k"] == "Path" and n.get("rk") == "Local" and len(binders) == 2 and n["res"] in binders:
            return binders.index(n["res"])
        return None
    # aggregates are evaluated over the partition's rows
    ev = [c for c in walk_exprs(body) if c["k"] == "MCall" and c["m"] == "get_column_expr_value"]
    ok = len(ev) == 1 and render(ev[0]["args"][0]).endswith("None")
    if ok:
        a3 = peel(ev[0]["args"][3], methods=False)
        ok = a3["k"] == "Call" and a3.get("ctor") and short(a3["callee"], 1) == "Some" and component(a3["args"][0]) == 1
    ctx.obligation(ok)
    if not ok:
        ctx.violation("groups/aggregate-scope", ctx.where(LSR, body), "a group's columns must be evaluated over that group's rows only (buffer_data = the partition)")
    # key columns: file_map[k_i] = partition key component i
    ins = [c for c in walk_exprs(body) if c["k"] == "MCall" and c["m"] == "insert" and render(c["recv"]) == "file_map"]
    ok = len(ins) == 1
    if ok:
        key_its = [i2 for i2 in find_iterations(body) if "group_keys" in render(i2["iter"]) and "enumerate" in render(i2["iter"]) and
                   any(y is ins[0] for y in walk_exprs(i2["body"]))]
        ok = len(key_its) == 1 and len(pat_binders(key_its[0]["pat"])) == 2
        if ok:
            i_id, k_id = pat_binders(key_its[0]["pat"])
            gets = [c for c in walk_exprs(ins[0]["args"][1]) if c["k"] == "MCall" and c["m"] == "get"]
            idx = [c for c in walk_exprs(ins[0]["args"][1]) if c["k"] == "Index"]
            kexpr = peel(ins[0]["args"][0])
            ok = kexpr["k"] == "Path" and kexpr.get("res") == k_id and \
                ((len(gets) == 1 and component(gets[0]["recv"]) == 0 and peel(gets[0]["args"][0]).get("res") == i_id) or
                 (len(idx) == 1 and component(idx[0]["e"]) == 0 and peel(idx[0]["i"]).get("res") == i_id))
    ctx.obligation(ok)
    if not ok:
        ctx.violation("groups/key-binding", ctx.where(LSR, body), "the i-th grouping expression must be bound to the i-th component of the partition key")
    gk = [x for x in walk(hir) if x["k"] == "Let" and x["pat"].get("name") == "group_keys"]
    ok = len(gk) == 1 and render(chain_methods(gk[0]["init"])[1]) == "self.query.grouping_fields" and not (set(chain_methods(gk[0]["init"])[0]) & FILTERS)
    ctx.obligation(ok)
    if not ok:
        ctx.violation("groups/key-names", ctx.where(LSR), "group key names must be the texts of all grouping expressions, in order")
    # ordering of group rows: ascending keys compare a with b, descending ones b with a, for numbers and for text alike
    sb = [c for c in walk_exprs(hir) if c["k"] == "MCall" and c["m"] == "sort_by"]
    ok = len(sb) == 1
    if ok:
        cl = peel(sb[0]["args"][0], methods=False)
        ok = cl["k"] == "Closure" and len(cl.get("params") or []) == 2
    if ok:
        a_id, b_id = [pat_binders(p_)[0] if pat_binders(p_) else None for p_ in cl["params"]]
        slocs = Locals(sb[0])

        def is_direction(c):
            r = render(slocs.chase(peel(c, methods=False)))
            return "directions[" in r or "directions.get(" in r or "ordering_asc" in r
        ifs = find_ifs(sb[0], is_direction)
        ok = len(ifs) >= 2
        for x, asc, desc in ifs:
            if asc is None or desc is None:
                ok = False
                continue
            t, e = peel_result(asc), peel_result(desc)
            okx = t["k"] == "MCall" and t["m"] in ("cmp", "partial_cmp") and e["k"] == "MCall" and e["m"] == t["m"]
            if okx:
                okx = sem.root_res(t["recv"], slocs) == a_id and sem.root_res(t["args"][0], slocs) == b_id and \
                    sem.root_res(e["recv"], slocs) == b_id and sem.root_res(e["args"][0], slocs) == a_id
            ok = ok and okx
    ctx.obligation(ok)
    if not ok:
        ctx.violation("groups/ordering-direction", ctx.where(LSR), "group rows must be compared a-vs-b for ascending keys and b-vs-a for descending ones, for numbers and for text alike")
    ctx.covered("grouped output loop (row per partition, aggregate scope, key binding, key names, ordering direction)", 6,
                distinct_keys=["row", "call", "scope", "binding", "names", "direction"])


RULES = [
    ("C08-R1", "conservation: each buffered row enters exactly one partition", r1),
    ("C08-R2", "partition key uses every grouping expression; rows carry them", r2),
    ("C08-R3", "one row per partition, aggregates scoped to it, key binding, ordering direction", r3),
    ("C09-R1", "group rows are separated like any other rows [shared with C09]", lambda ctx: __import__("c09").r1(ctx)),
    ("C07-R1", "per-group AVG is a real division [shared with C07]", lambda ctx: __import__("c07").r1(ctx)),
    ("C07-R2", "per-group aggregates: primitive / divisor / sqrt table [shared with C07]", lambda ctx: __import__("c07").r2(ctx)),
    ("C07-R3", "rows reach the aggregation buffer once, after the filter [shared with C07]", lambda ctx: __import__("c07").r3(ctx)),
    ("X-PHASES", "clause order and phase flags of Parser::parse; WHERE shorthand window [shared]", lambda ctx: __import__("extra").parser_phases(ctx)),
    ("X-BUFFER", "buffering predicates (ordered or aggregate) and recursive expression predicates [shared]", lambda ctx: __import__("extra").buffering_predicates(ctx)),
    ("X-PIPELINE", "the per-entry pipeline of check_file evaluated on its scenario table (filter, count, row, buffer key, separator, closed output) [shared]", lambda ctx: __import__("cfile").pipeline(ctx)),
]

EXPLANATION = (
    "Static structural necessary conditions of C08: partition_output_buffer visits every buffered row (no filtering "
    "adaptor) and on every path through its per-row closure inserts the row exactly once (push to the existing "
    "partition or start a new one); the key is built from all grouping expressions in order and check_file evaluates "
    "each of them into the buffered row; the grouped output loop yields exactly one row per partition, evaluates "
    "columns over that partition's rows only, binds the i-th grouping expression to the i-th key component, and "
    "orders group rows a-vs-b / b-vs-a by direction. The separator between group rows is decided under C09-R1. "
    "Per-group aggregate values, equality of keys as strings and ordering by non-selected keys are not decided."
    ' Parser::parse sets where_parsed before parse_group_by, so grouping keys are parsed as values.')
ASSUMPTIONS = ["rustc's HIR faithfully represents the source; exporter and rule scripts are correct", "HashMap semantics"]
NOT_DECIDED = ["per-group aggregate values (C07 decides the aggregate formulas)", "ordering of group rows by a key that is not selected (position lookup defaults to column 0)",
               "equality of keys compared as strings"]
