"""C10 — any command line terminates with status 0, 1 or 2, never a crash or a hang (static necessary conditions)."""
import collections

from hirq import *  # noqa: F401,F403
import panics
import progress
from core import Abort

EXEC_SEARCH = "exec_search"
GRAMMAR_FNS = ["parse_func_scalar", "parse_paren", "parse_mul_div", "parse_add_sub", "parse_cond", "parse_and", "parse_expr"]


def analysed_fns(prog):
    return [n for n in prog.fns if "mir" in prog.fns[n] and "::_::" not in n and not n.endswith("::_")]


def panic_sites(ctx):
    prog = ctx.prog
    search = prog.reachable_fns([EXEC_SEARCH])

    def d11(body, site):
        if site.kind == "call:print" and site.fn not in search:
            return "D11 stdout printing outside the search path (usage, version, interactive prompts)"
        return None

    sites = panics.enumerate_sites(prog, analysed_fns(prog))
    panics.discharge(prog, sites, [d11])
    return sites


def r1(ctx, only=None, rule_prefix=""):
    sites = panic_sites(ctx)
    if only is None:
        # D6: `self.index - 1` in drop_lexem is safe iff the cursor analysis proves the cursor never falls below its initial value
        import cursor
        fns, summ, graphs = cursor.analyse(ctx.prog)
        low = summ.get("parser::Parser::parse", {}).get("low")
        for s in sites:
            if s.fn == "parser::Parser::drop_lexem" and s.kind == "assert:Overflow:Sub" and not s.discharged and low is not None and low >= 0:
                s.discharged = "D6 the cursor analysis T proves the parser cursor never falls below its value at the entry of parse"
    all_sites = sites
    if only is not None:
        sites = [s for s in sites if only(s)]
    table = panics.load_table()
    n_dis = 0
    kinds = collections.Counter()
    pending = []
    matched = set()
    for s in sites:
        ctx.obligations += 1
        kinds[s.kind] += 1
        if s.discharged:
            ctx.discharged += 1
            n_dis += 1
            continue
        e = table.get(s.key)
        if e is None:
            pending.append(s)
        elif e["class"] == "finding":
            ctx.violation("%spanic/%s" % (rule_prefix, s.key), "%s (%s)" % (s.sp, s.fn), e["reason"], {"class": "finding"})
        else:
            matched.add(s.key)
            ctx.discharged += 1
    # reviewed sites that moved (helper extracted, local renamed, closure renumbered): an entry of the table that matches no
    # site any more covers one undischarged site of the same shape (kind + operand expression up to local names), wherever it
    # now lives.  The budget is one site per entry, so an additional unguarded site of that shape is still reported.
    budget = collections.Counter()
    coarse = collections.Counter()
    live_keys = {s.key for s in all_sites}
    stale = [k for k, e in table.items() if k not in live_keys and e["class"] != "finding"]
    if only is not None:
        class _K:
            pass
        keep = []
        for k in stale:
            o = _K()
            o.fn = k.split("|", 1)[0]
            if only(o):
                keep.append(k)
        stale = keep
    for k in stale:
        budget[panics.key_signature(k)] += 1
    moved = 0
    still = []
    for s in pending:
        if budget[s.sig] > 0:
            budget[s.sig] -= 1
            moved += 1
            ctx.discharged += 1
            continue
        still.append(s)
    # second chance: the operand was restructured as well (a chain split into locals, iter() -> keys()): what is left of the
    # stale entries covers one site each of the same kind whose outermost callee is the same, in the same function or in a
    # function that did not exist on the pinned tree (an extracted helper / closure)
    import norm
    known = norm.known_fns() or set()
    left = []
    for k in stale:
        sg = panics.key_signature(k)
        if budget[sg] > 0:
            budget[sg] -= 1
            left.append(k)
    for k in left:
        coarse[(panics.coarse_signature(panics.key_signature(k)), k.split("|", 1)[0])] += 1
    pending = []
    for s in still:
        cs = panics.coarse_signature(s.sig)
        hit = None
        for (c_, fn_), cnt in coarse.items():
            if cnt > 0 and c_ == cs and (fn_ == s.fn or s.fn not in known or s.fn.startswith(fn_ + "::{closure")):
                hit = (c_, fn_)
                break
        if hit:
            coarse[hit] -= 1
            moved += 1
            ctx.discharged += 1
            continue
        pending.append(s)
    for s in pending:
        ctx.violation("%spanic/%s" % (rule_prefix, s.key), "%s (%s)" % (s.sp, s.fn),
                      "possible panic: %s on `%s` is neither guarded (no local discharge rule applies: no dominating "
                      "is_some/is_ok/len/contains_key/comparison guard on this operand) nor a reviewed site" %
                      (s.kind.replace("call:", "").replace("assert:", "overflow/bounds check "), s.desc),
                      {"kind": s.kind, "operand": s.desc, "function": s.fn})
    used = {s.key for s in sites}
    ctx.covered("panic sites (unwrap/expect/index/overflow/division/remove/print/random_range) enumerated in the MIR of %d functions; "
                "%d discharged by local rules D1-D17, %d by the reviewed table" % (len(analysed_fns(ctx.prog)), n_dis, len(sites) - n_dis),
                len(sites), distinct_keys=[s.key for s in sites],
                sample={"by_kind": dict(kinds), "discharged_examples": [(s.key, s.discharged) for s in sites if s.discharged][:6]})
    if only is None:
        ctx.floor(len(sites), 200, "panic sites in the crate", "crate")
        if moved:
            ctx.samples.append({"rule": "C10-R1", "what": "reviewed sites recognised by shape after a move / rename", "sample": moved})


def r2(ctx):
    progress.check(ctx)


COUNTS = (0, 1, 5, 255, 256, 65536, 2 ** 31 - 1)      # multiples of 2^8 / 2^16: a status narrowed before it is clamped


def exec_search_table(ctx):
    """exit status of exec_search read off its source by the finite interpreter, per scenario
    (parse result, search result, error count) -> (status, diagnostics written); None where it cannot be evaluated"""
    import interp
    h = ctx.anchor_hir(EXEC_SEARCH)
    out = {}
    for parse_ok in (True, False):
        for search in ("ok", "pipe", "other"):
            for count in COUNTS:
                if not parse_ok and (search != "ok" or count):
                    continue
                effects = []
                trace = []

                def call(node, recv, args, it, env, parse_ok=parse_ok, search=search, count=count, effects=effects, trace=trace):
                    callee = str(node.get("callee", ""))
                    m = node.get("m")
                    if m == "parse" and "Parser" in callee:
                        return (interp.V("Result::Ok", [interp.Opaque("query")]) if parse_ok else interp.V("Result::Err", [interp.Opaque("parse error")]),)
                    if callee.endswith("Searcher::new"):
                        trace.append("new")
                        return ({"error_count": count},)
                    if m == "list_search_results":
                        trace.append("search")
                        if search == "ok":
                            return (interp.V("Result::Ok", [()]),)
                        return (interp.V("Result::Err", [{"__kind": "ErrorKind::BrokenPipe" if search == "pipe" else "ErrorKind::Other"}]),)
                    if m == "kind" and isinstance(recv, dict) and "__kind" in recv:
                        return (interp.V(recv["__kind"]),)
                    if m == "is_terminal":
                        return (True,)
                    if callee.endswith("error_message"):
                        effects.append(args[0] if args else "?")
                        return ((),)
                    if m in ("unwrap", "expect") and isinstance(recv, interp.V) and recv.name == "Result::Err":
                        effects.append("PANIC")
                        raise interp._Return(101)
                    return (interp.Opaque(m or callee),)
                try:
                    v = interp.eval_in(h, h, {"config": {"debug": False}, "no_color": False}, call=call)
                except interp.Undecided as e:
                    return None, str(e)
                out[(parse_ok, search, count)] = (v, list(effects), list(trace))
    return out, None


def r3(ctx):
    """status mapping"""
    h = ctx.anchor_hir(EXEC_SEARCH)
    # Err(parse) -> 2 with a diagnostic; no failure -> 0; failures -> 1; a closed pipe alone is not a failure; another I/O
    # error of the search -> 1 with a diagnostic
    tbl, why = exec_search_table(ctx)
    ok_parse = ok_count = False
    if tbl is None:
        ctx.violation("status/unreadable", ctx.where(EXEC_SEARCH), "cannot evaluate exec_search: %s" % why)
    else:
        ok_parse = tbl[(False, "ok", 0)][0] == 2 and len(tbl[(False, "ok", 0)][1]) >= 1
        ok_count = all(tbl[(True, sr, c)][0] == (0 if c == 0 else 1) for sr in ("ok", "pipe") for c in COUNTS) and \
            all(tbl[(True, "other", c)][0] == 1 and tbl[(True, "other", c)][1] for c in COUNTS)
        ctx.covered("exit status of exec_search on 22 scenarios (parse result x search result x error count), read by the finite interpreter",
                    len(tbl), distinct_keys=[str(k) for k in tbl], sample={str(k): v[0] for k, v in tbl.items()}, exhaustive=True)
    ctx.obligation(ok_parse)
    ctx.obligation(ok_count)
    if not ok_parse:
        ctx.violation("status/parse-error", ctx.where(EXEC_SEARCH), "a parse error must end with status 2")
    if not ok_count:
        ctx.violation("status/error-count", ctx.where(EXEC_SEARCH), "a search without errors must end with status 0 and one with errors with status 1%s" %
                      ("; found %s" % {str(k): v[0] for k, v in tbl.items()} if tbl else ""))
    # an I/O error of the search is not unwrapped: reported, status 1
    sr = [c for c in walk_exprs(h) if c["k"] == "MCall" and c["m"] == "list_search_results"]
    ok = len(sr) == 1
    ctx.obligation(ok)
    # error_exit: message then exit(2); the only process::exit in the crate
    eh = ctx.anchor_hir("util::error_exit")
    ex = [c for c in walk_exprs(eh) if c["k"] == "Call" and str(c.get("callee", "")).endswith("process::exit")]
    ok = len(ex) == 1 and render(ex[0]["args"][0]) == "2" and any(is_call_to(c, "util::error_message") for c in walk_exprs(eh))
    ctx.obligation(ok)
    if not ok:
        ctx.violation("status/error_exit", ctx.where("util::error_exit"), "error_exit must print the diagnostic and exit with status 2")
    exits = []
    for b in ctx.prog.bodies():
        for i, t in b.calls():
            if b.callee(t).endswith("process::exit"):
                exits.extend(sorted(ctx.prog.owners(b.name)))
    ok = exits == ["util::error_exit"]
    ctx.obligation(ok)
    if not ok:
        ctx.violation("status/exit-sites", "crate", "process::exit may be called by util::error_exit only; found in %s" % exits)
    # diagnostics go to stderr
    mh = ctx.anchor_hir("util::error_message")
    ok = any("_eprint" in str(c.get("callee", "")) for c in walk_exprs(mh) if c["k"] == "Call")
    ctx.obligation(ok)
    if not ok:
        ctx.violation("status/stderr", ctx.where("util::error_message"), "diagnostics must be written to standard error")
    # main: ExitCode::from(exit_value) with exit_value = Some(exec_search(..)) or Some(2)
    mn = ctx.anchor_hir("main")
    asg = [render(x["r"]) for x in walk_exprs(mn) if x["k"] == "Assign" and render(x["l"]) == "exit_value"]
    ok = sorted(asg) == sorted(["Option::Some(2)", "Option::Some(exec_search(args, &config, &default_config, no_color))"])
    codes = [render(c["args"][0]) for c in walk_exprs(mn) if c["k"] == "Call" and "ExitCode" in str(c.get("ty", "")) and c["args"]]
    ok = ok and all(c in ("exit_value", "2") for c in codes) and "exit_value" in codes
    ctx.obligation(ok)
    if not ok:
        ctx.violation("status/main", ctx.where("main"), "main must return the status computed by exec_search (or 2 when the line editor cannot start); found assignments %s, exit codes %s" % (asg, codes))
    ctx.covered("exit status mapping (parse error, error count, error_exit, exit sites, stderr, main)", 7, distinct_keys=["parse", "count", "io", "error_exit", "sites", "stderr", "main"])


def r4(ctx):
    """a parse-time rejection prints no result row: the searcher is created and run only after a successful parse.  Read off the
    evaluation of exec_search (C10-R3's table): after a failed parse neither Searcher::new nor list_search_results is reached,
    after a successful one both are, once each; structurally (both sites under the Ok arm of the parse) if it cannot be evaluated"""
    h = ctx.anchor_hir(EXEC_SEARCH)
    tbl, why = exec_search_table(ctx)
    if tbl is not None:
        bad = []
        for k_, v_ in tbl.items():
            want = ["new", "search"] if k_[0] else []
            ctx.obligation(v_[2] == want)
            if v_[2] != want:
                bad.append("parse %s, search %s, %d failures: reaches %s" % ("succeeds" if k_[0] else "fails", k_[1], k_[2], v_[2] or "nothing"))
        ctx.covered("reach of Searcher::new / list_search_results in exec_search on its 22 scenarios", len(tbl), exhaustive=True)
        if bad:
            ctx.violation("order/search-before-parse", ctx.where(EXEC_SEARCH), "the search must run exactly when the query parsed successfully: %s" % "; ".join(bad[:3]))
        return
    n = 0
    for c in walk_exprs(h):
        if (c["k"] == "Call" and str(c.get("callee", "")).endswith("Searcher::new")) or (c["k"] == "MCall" and c["m"] == "list_search_results"):
            n += 1
            g = guards_of(h, c)
            ok = any(t[0] == "match" and render_pat(t[2]).startswith("Result::Ok") and "query" in render(t[1]) for t in g)
            ctx.obligation(ok)
            if not ok:
                ctx.violation("order/search-before-parse", ctx.where(EXEC_SEARCH, c), "the search must run only after the query parsed successfully")
    ctx.covered("search entry points inside the Ok arm of the parse", n, distinct_keys=["sites:%d" % n])
    ctx.floor(n, 2, "search entry points in exec_search", EXEC_SEARCH)
    # header is written by list_search_results, not before parsing
    ph = ctx.anchor_hir("parser::Parser::parse")
    bad = [c for c in walk_exprs(ph) if c["k"] == "Call" and ("_print" in str(c.get("callee", "")) and "_eprint" not in str(c.get("callee", "")))]
    ctx.obligation(not bad)
    if bad:
        ctx.violation("order/parser-prints", ctx.where("parser::Parser::parse"), "the parser writes to standard output")


def r5(ctx):
    """grammar functions never return Ok(None): the invariant behind the parser's reviewed unwraps.  Decided on the MIR by
    the variant-sensitive cursor analysis: the return classes of each grammar function (which Result / Option variants can
    reach the return place on a feasible path) must be exactly Ok(Some) and Err."""
    import cursor
    fns, summ, graphs = cursor.analyse(ctx.prog)
    n = 0
    for fn in GRAMMAR_FNS:
        name = "parser::Parser::" + fn
        ctx.anchor_fn(name)
        classes = set((summ.get(name) or {}).get("ret", {}).keys())
        n += 1
        bad = [c for c in classes if c not in (("Ok", "Some"), ("Err", None))]
        ok = bool(classes) and not bad
        ctx.obligation(ok)
        if not ok:
            ctx.violation("grammar/ok-none/%s" % fn, ctx.where(name),
                          "%s can return %s; its callers unwrap the operand (reviewed under the invariant that grammar functions return Ok(Some) or Err)" %
                          (fn, ", ".join("%s(%s)" % (a, b_) if b_ else str(a) for a, b_ in bad) or "nothing the analysis can classify"))
    ctx.covered("return classes (MIR, variant-sensitive) of the seven grammar functions: Ok(Some) or Err only", n, distinct_keys=GRAMMAR_FNS,
                sample={f: sorted(map(str, (summ.get("parser::Parser::" + f) or {}).get("ret", {}))) for f in GRAMMAR_FNS}, exhaustive=True)


RULES = [
    ("C10-R1", "panic sites: enumerated over the MIR, discharged by a dominating guard or reviewed", lambda ctx: r1(ctx)),
    ("C10-R2", "progress: parser cursor analysis, loop idioms", r2),
    ("C10-R3", "exit status mapping", r3),
    ("C10-R4", "nothing is printed before a parse-time rejection", r4),
    ("C10-R5", "grammar functions never return Ok(None)", r5),
    ("C05-R1", "sort keys: the comparison of two buffer keys is a consistent order also for empty values of unreadable entries (an inconsistent one makes the ordered buffer panic) [shared with C05]", lambda ctx: __import__("c05").r1(ctx)),
]

EXPLANATION = (
    "Static structural necessary conditions of C10: (R1) every panicking construct in the MIR of the crate's "
    "functions — unwrap/expect, Index/IndexMut, overflow, bounds and division checks, String/Vec::remove, "
    "random_range, println!, explicit panics — is enumerated; a site is accepted only if a local discharge rule "
    "re-derives its guard on this run (dominating is_some/is_ok/is_none/is_err, length or contains_key test, "
    "comparison before a subtraction, non-empty test, valid constant regex or time component, counter increment, "
    "constant arithmetic) or it is listed, by a line-number-free key with a reason, in rules/panic_sites.json; "
    "(R2) progress: next_lexem/drop_lexem are the only writers of the parser cursor; a variant-sensitive product graph "
    "(basic block x possible enum variants) of every parser method, with callee summaries per return class, shows "
    "that no feasible cycle has net cursor delta <= 0, that the cursor never falls below its value at the entry of "
    "parse (so drop_lexem cannot underflow) and that every recursion cycle consumes a lexem first; the same graph "
    "for Lexer::next_lexem shows every cycle advances (input_index, char_index) and every returned lexem consumed a "
    "character; every other loop of the crate matches a progress idiom; (R3) parse error -> 2, error count 0 -> 0 / else 1, "
    "error_exit -> stderr + exit(2), no other exit site; (R4) the search runs only in the Ok arm of the parse; "
    "(R5) grammar functions never return Ok(None). Sound relative to the frozen panicking-API table; panics "
    "inside third-party crates and wall-clock bounds are not decided.")
ASSUMPTIONS = [
    "rustc's MIR faithfully represents the source; exporter and rule scripts are correct",
    "the panicking-API table of rules/panics.py is complete for the std functions fselect calls",
    "literal regexes are validated with Python's re on a token subset where it agrees with regex-syntax",
    "reviewed sites of class `assumption` in rules/panic_sites.json (clock not on Feb 29 / 29th-31st for zip dates, "
    "sums below 2^64, mp3/exif crates' guarantees)",
    "debug-build pointer alignment/null checks inserted by rustc are not counted as panic sites",
]
NOT_DECIDED = ["that every malformed query is rejected (needs the grammar, not the code shape)", "wall-clock bounds of a search",
               "termination of third-party code and of directory walks over changing trees",
               "panics inside third-party crates", "blocking reads of special files (FIFOs) by content columns"]
