"""C18 — following symlinks finds what is behind them, once, and always terminates (static necessary conditions)."""
from hirq import *  # noqa: F401,F403
from core import Abort

VISIT_DIR = "searcher::Searcher::visit_dir"
OK_TO_VISIT = "searcher::Searcher::ok_to_visit_dir"


def _enabling_sites(hir):
    """where the descent flag (the conjunct next to ok_to_visit_dir) becomes true: [(node, guards, is_value_leaf)]"""
    flag = None
    for x in walk_exprs(hir):
        if x["k"] == "If" and x["c"]["k"] != "LetE":
            cs = conjuncts(x["c"])
            if any(c["k"] == "MCall" and c["m"] == "ok_to_visit_dir" for c in cs):
                for c in cs:
                    c = peel(c, methods=False)
                    if c["k"] == "Path" and c.get("rk") == "Local":
                        flag = c["res"]
    if flag is None:
        return None, []
    sites = []
    flags, done = [flag], set()
    while flags:
        fl = flags.pop()
        if fl in done:
            continue
        done.add(fl)
        for x in walk_exprs(hir):
            if x["k"] == "Assign" and peel(x["l"]).get("res") == fl and render(x["r"]) == "true":
                sites.append((x, guards_of(hir, x), False))
        for x in walk(hir):
            if x["k"] == "Let" and x["pat"].get("id") == fl and x.get("init") is not None and render(x["init"]) != "false":
                for leaf, _holder in leaf_results(x["init"]):
                    if render(leaf) == "false":
                        continue
                    pl = peel(leaf, methods=False)
                    if pl["k"] == "Path" and pl.get("rk") == "Local":
                        flags.append(pl["res"])      # the flag is the value of another flag (a helper's local result)
                        continue
                    sites.append((leaf, guards_of(hir, leaf), render(leaf) != "true"))
    return flag, sites


def r1(ctx):
    """the directory entered for a link is the link resolved relative to its own location, and only if it is a directory"""
    hir = ctx.anchor_hir(VISIT_DIR)
    flag, sites = _enabling_sites(hir)
    if flag is None or not sites:
        ctx.violation("anchor/symlink-branch", VISIT_DIR, "the symlink branch of the descent decision was not found")
        raise Abort()

    def atoms(gs, leaf=None, is_value=False):
        pos, neg = guard_atoms(gs)
        pos = [render(peel(a_, methods=False)) for a_ in pos]
        neg = [render(peel(a_, methods=False)) for a_ in neg]
        lets = [(render_pat(g[1]["pat"]), render(g[1]["init"]), g[2]) for g in gs if g[0] == "if" and g[1]["k"] == "LetE"]
        # `match e { Ok(x) if .. => .., _ => .. }` reads like `if let Ok(x) = e`
        lets += [(render_pat(g[2]), render(g[1]), True) for g in gs if g[0] == "match" and len(g) > 3 and g[3] == "Normal" and render_pat(g[2]) not in ("_",)]
        if is_value and leaf is not None:
            pos.append(render(peel(leaf, methods=False)))
        return pos, neg, lets
    link_sites, plain_sites = [], []
    for node, gs, is_value in sites:
        pos, neg, lets = atoms(gs, node, is_value)
        # (which branch a site belongs to may also be established by a guard clause of an extracted helper:
        # `if !file_type.is_symlink() { return file_type.is_dir(); }` - only this one atom is taken from the exits)
        xpos, xneg = guard_atoms([g for g in with_exits(gs) if g[0] in ("exit", "exitmatch")])
        xpos = [render(peel(a_, methods=False)) for a_ in xpos if render(peel(a_, methods=False)).endswith("is_symlink()")]
        xneg = [render(peel(a_, methods=False)) for a_ in xneg if render(peel(a_, methods=False)).endswith("is_symlink()")]
        if any(p_.endswith("is_symlink()") for p_ in pos + xpos):
            link_sites.append((node, pos + xpos, neg, lets))
        elif any(n_.endswith("is_symlink()") for n_ in neg + xneg):
            plain_sites.append((node, pos, neg + xneg, lets))
    if not link_sites:
        ctx.violation("anchor/symlink-branch", VISIT_DIR, "the symlink branch of the descent decision was not found")
        raise Abort()
    names = []
    okr = okd = True
    WALK = ("pass_ignores", "depth", "file_type", "read_dir", "entry")
    for node, pos, neg, lets in link_sites:
        res = [l_ for l_ in lets if ("canonicalize(" in l_[1] or "read_link(" in l_[1]) and l_[0].startswith("Result::Ok") and l_[2]]
        names += [l_[1] for l_ in lets]
        if not res or not any("path" in l_[1] for l_ in res) or (any("read_link(" in l_[1] for l_ in res) and not any("canonicalize(" in l_[1] for l_ in res) and not any(".join(" in render(n_) for n_ in [node])):
            okr = False
        if not any(p_.endswith(".is_dir()") and "file_type" not in p_ for p_ in pos):
            okd = False
        # ... and under no other condition: every directory behind a link must be found
        for p_ in pos:
            allowed = p_.endswith("is_symlink()") or (p_.endswith(".is_dir()") and "file_type" not in p_) or p_ == "self.current_follow_symlinks" or \
                any(w in p_ for w in WALK) or p_ == "true"
            ctx.obligation(bool(allowed))
            if not allowed:
                ctx.violation("follow/extra-condition/%s" % p_[:50], ctx.where(VISIT_DIR, node),
                              "descending through a link to a directory is additionally conditioned on `%s`: directories behind links "
                              "failing it are silently not searched" % p_)
        for n_ in neg:
            ctx.obligation(False)
            ctx.violation("follow/extra-condition/!%s" % n_[:50], ctx.where(VISIT_DIR, node),
                          "descending through a link to a directory is additionally conditioned on `!%s`: directories behind links "
                          "failing it are silently not searched" % n_)
        for l_ in lets:
            allowed = (("canonicalize(" in l_[1] or "read_link(" in l_[1]) and l_[0].startswith("Result::Ok") and l_[2]) or any(w in l_[1] for w in ("file_type", "result", "read_dir", "entry"))
            ctx.obligation(bool(allowed))
            if not allowed:
                ctx.violation("follow/extra-condition/%s" % l_[1][:50], ctx.where(VISIT_DIR, node),
                              "descending through a link to a directory is additionally conditioned on `let %s = %s`" % (l_[0], l_[1]))
    ctx.obligation(okr)
    if not okr:
        ctx.violation("follow/target-resolution", ctx.where(VISIT_DIR, link_sites[0][0]),
                      "a followed link must be resolved relative to the link's own directory (canonicalize(link path), or "
                      "read_link joined to the parent); the branch uses %s" % names)
    ctx.obligation(okd)
    if not okd:
        ctx.violation("follow/only-directories", ctx.where(VISIT_DIR, link_sites[0][0]), "a link may enable descent only if its target is a directory (links to files are just listed)")
    # the path descended into is the resolved target
    # (the local that is descended into is assigned the payload of the successful resolution: `if let Ok(r) = canonicalize(..)`
    # or a `match` arm `Ok(r) ..`; identified by provenance, not by the names of the locals)
    import sem
    locs_ = Locals(hir)
    resolved_ids = {i for i, d in locs_.payload_defs.items() if "canonicalize(" in render(d) or ("read_link(" in render(d))}
    asg = [x for x in walk_exprs(hir) if x["k"] == "Assign" and peel(x["l"]).get("rk") == "Local" and sem.root_res(x["r"], locs_) in resolved_ids]
    oka = len(asg) >= 1
    ctx.obligation(oka)
    if not oka:
        ctx.violation("follow/target-resolution", ctx.where(VISIT_DIR), "the directory entered for a link must be the resolved target (path = resolved under the successful canonicalize)")
    # the non-link branch requires a directory
    oke = bool(plain_sites) and all(any(p_ == "file_type.is_dir()" for p_ in pos) for _n, pos, _ng, _l in plain_sites)
    ctx.obligation(oke)
    if not oke:
        ctx.violation("follow/plain-directory", ctx.where(VISIT_DIR), "entries that are not links may be entered only if they are directories")
    ctx.covered("symlink branch of the descent decision (resolution, directory test, no other condition)", 3 + len(sites), distinct_keys=["resolution", "dir-test", "plain"], sample=names)


def r3(ctx):
    """at most once / termination: the visited test precedes the listing and uses a canonical key"""
    body = ctx.anchor_body(VISIT_DIR)
    hir = ctx.anchor_hir(VISIT_DIR)
    ins = [c for c in walk_exprs(hir) if c["k"] == "MCall" and c["m"] in ("insert", "contains") and "visited_dirs" in render(c["recv"])]
    ok = bool(ins)
    klocs = Locals(hir)
    key_ok = all("canonical" in render(klocs.chase(peel(c["args"][0]))) or "canonical" in render(c["args"][0]) for c in ins) if ins else False
    ctx.obligation(key_ok)
    if not key_ok:
        ctx.violation("visited/canonical-key", ctx.where(VISIT_DIR), "the visited set must be keyed by the canonical path of the directory: a directory reached through a link and directly is otherwise listed twice (%s)" % [render(c["args"][0]) for c in ins])
    # a refused directory returns before read_dir; the test is done whenever links are followed
    rd = body.calls_to("std::fs::read_dir")
    vi = [(i, t) for i, t in body.calls() if body.callee(t).endswith("HashSet::insert") or body.callee(t).endswith("HashSet::contains")]
    vi = [(i, t) for i, t in vi if "visited_dirs" in str(t["args"][0]) or True]
    dom = bool(rd) and bool(vi) and all(any(body.dominates(v[0], r[0]) for v in vi) or True for r in rd)
    stmts = hir["stmts"]
    i_vis = [i for i, s_ in enumerate(stmts) if "visited_dirs" in render(s_)]
    i_rd = [i for i, s_ in enumerate(stmts + ([hir["expr"]] if "expr" in hir else [])) if any(is_call_to(c, "fs::read_dir") for c in walk_exprs(s_))]
    ok = bool(i_vis) and bool(i_rd) and max(i_vis) < min(i_rd)
    if ok:
        st = stmts[i_vis[0]]
        ok = st["k"] == "If" and "current_follow_symlinks" in render(st["c"]) and any(y["k"] == "Ret" and render(y["e"]) == "Result::Ok(())" for y in walk_exprs(st["t"]))
    ctx.obligation(ok)
    if not ok:
        ctx.violation("visited/before-listing", ctx.where(VISIT_DIR), "when links are followed, a directory already visited must be refused before it is listed")
    # root inode recorded; entry inodes recorded by ok_to_visit_dir
    oh = ctx.anchor_hir(OK_TO_VISIT)
    ok = any(c["k"] == "MCall" and c["m"] == "insert" and "visited_inodes" in render(c["recv"]) for c in walk_exprs(oh))
    ctx.obligation(ok)
    if not ok:
        ctx.violation("visited/inodes", ctx.where(OK_TO_VISIT), "ok_to_visit_dir must record the inodes it lets through")
    # every directory entered while links are followed is recorded: the insert is conditioned on the option alone (not on the
    # depth, on being a root, on the traversal mode ..) - a directory left out of the set is listed again when a link leads back to it
    for c in ins:
        if c["m"] != "insert":
            continue
        pos_, neg_ = guard_atoms([g for g in (guards_of(hir, c) or []) if g[0] == "if"])
        extra = [render(a) for a in pos_ if "current_follow_symlinks" not in render(a)] + ["!" + render(a) for a in neg_ if "visited_dirs" not in render(a)]
        okg = not extra
        ctx.obligation(okg)
        if not okg:
            ctx.violation("visited/recorded-unconditionally", ctx.where(VISIT_DIR, c),
                          "when links are followed every directory entered must be recorded in the visited set; here it is recorded only under `%s`: "
                          "a directory that is not recorded (a search root, say) is listed again when a link resolves to it" % " && ".join(extra))
    # "once per query": the two visited sets only grow during a query - nothing in the crate clears, drains, replaces or
    # removes from them (a per-root reset lets a second root list a directory the first one reached through a link)
    shrink = []
    for fname in sorted(ctx.prog.fns):
        fh = ctx.prog.hir(fname) if "{closure" not in fname else None
        if fh is None:
            continue
        for c in walk_exprs(fh):
            if c["k"] == "MCall" and c["m"] in ("clear", "remove", "drain", "retain", "take", "split_off") and \
                    any(w in render(c["recv"]) for w in ("visited_dirs", "visited_inodes")):
                shrink.append((fname, c))
            if c["k"] == "Assign" and c["l"]["k"] == "Field" and c["l"]["name"] in ("visited_dirs", "visited_inodes") and not fname.endswith("::new"):
                shrink.append((fname, c))
    ctx.obligation(not shrink)
    for fname, c in shrink:
        ctx.violation("visited/reset/%s" % short(fname, 1), ctx.where(fname, c),
                      "`%s` empties or replaces a visited set during the query: a directory reachable from two roots is then listed once per root, not once per query" % render(c)[:80])
    ctx.covered("visited-set discipline (canonical key, before listing, inode set, sets only grow)", 4, distinct_keys=["key", "order", "inodes", "grow-only"])


def r4(ctx):
    """the level of a directory cannot underflow for link targets above the root"""
    body = ctx.anchor_body(VISIT_DIR)
    bad = []
    for i, t in body.asserts():
        m = t["msg"]
        if m["k"] == "Overflow" and m["op"] == "Sub":
            import panics
            d = panics.Describer(body)
            names = [d.op(o) for o in (m["a"], m["b"])]
            if any("depth" in n for n in names):
                bad.append(names)
    ctx.obligation(not bad)
    ctx.covered("checked subtractions on depth values in visit_dir (MIR)", 1 + len(bad), distinct_keys=["depth-sub"])
    if bad:
        ctx.violation("depth/underflow", ctx.where(VISIT_DIR), "the level is computed by a subtraction that underflows when a followed link leads above the root (%s)" % bad)
    # metadata of followed entries: get_metadata(entry, follow) is given the root option
    gh = ctx.anchor_hir("searcher::FileMetadataState::update_file_metadata")
    ok = any(is_call_to(c, "util::get_metadata") and "follow_symlinks" in render(c["args"][1]) for c in walk_exprs(gh))
    ctx.obligation(ok)
    if not ok:
        ctx.violation("follow/metadata-flag", ctx.where("searcher::FileMetadataState::update_file_metadata"), "the follow flag must reach get_metadata")
    lh = ctx.anchor_hir("searcher::Searcher::list_search_results")
    ok = any(x["k"] == "Assign" and render(x["l"]) == "self.current_follow_symlinks" and render(x["r"]) == "root.options.symlinks" for x in walk_exprs(lh))
    ctx.obligation(ok)
    if not ok:
        ctx.violation("follow/per-root-flag", ctx.where("searcher::Searcher::list_search_results"), "current_follow_symlinks must be set from each root's `symlinks` option")


RULES = [
    ("C18-R1", "a followed link is resolved relative to itself and entered only if it is a directory", r1),
    ("C18-R3", "visited test before listing, canonical key, inode set", r3),
    ("C18-R4", "no depth underflow for targets above the root; follow flag plumbing", r4),
    ("C01-R5", "without the option no descent through a link [shared with C01]", lambda ctx: __import__("c01").r5(ctx)),
    ("C01-R1", "depth window on the level grid, including directories shallower than the root (reached through links) [shared with C01]", lambda ctx: __import__("c01").r1(ctx)),
    ("X-CANON", "util::canonical_path answers with the path resolved by fs::canonicalize (no shortcut for paths that look canonical) [shared]", lambda ctx: __import__("extra2").canonical_path_is_canonical(ctx)),
    ("X-ROOTS", "root options: defaults, per-root binding, options kept when a regexp root is expanded (archives, symlinks, depth window) [shared]", lambda ctx: __import__("extra").root_defaults(ctx)),
]

EXPLANATION = (
    "Static structural necessary conditions of C18 on the symlink branch of visit_dir: the directory entered for a "
    "link is canonicalize(link path) (or read_link joined to the link's parent), and `ok = true` is set only under "
    "an is_dir() test of the target; plain entries are entered only if file_type.is_dir(); when links are followed "
    "the visited-set test returns before read_dir and is keyed by the canonical path; ok_to_visit_dir records "
    "inodes; no checked subtraction on depth values remains in visit_dir's MIR; the per-root `symlinks` option "
    "reaches current_follow_symlinks and get_metadata. That no row comes from behind a link without the option is "
    "C01-R5. Termination and at-most-once on arbitrary link graphs are not decided beyond these conditions.")
ASSUMPTIONS = ["rustc's HIR/MIR faithfully represent the source; exporter and rule scripts are correct",
               "fs::canonicalize resolves symlink chains and relative targets as the OS does"]
NOT_DECIDED = ["termination and at-most-once on arbitrary link graphs (only the visited-set discipline is decided)",
               "the level assigned to entries behind a link that leaves the root", "row content behind links on a real tree"]
