"""C06 — LIMIT N returns min(N, matches) rows, with ORDER BY the true top N (static necessary conditions)."""
from hirq import *  # noqa: F401,F403
from core import Abort

INSERT = "util::top_n::TopN::insert"
VISIT_DIR = "searcher::Searcher::visit_dir"
CHECK_FILE = "searcher::Searcher::check_file"
NEW = "searcher::Searcher::new"
PARSE = "parser::Parser::parse"
PARSE_LIMIT = "parser::Parser::parse_limit"


def r1(ctx):
    """the ordered buffer keeps exactly the first `limit` rows of the stable key order (all rows without a limit):
    TopN::insert and TopN::values are evaluated (finite interpreter, BTreeMap modelled as a key-ordered map) on every
    sequence of up to four insertions over three keys, for limit = none, 1, 2, 3"""
    import interp
    import itertools
    hir = ctx.anchor_hir(INSERT)
    ps = ctx.prog.fns[INSERT]["params"]
    vname = "util::top_n::TopN::values"
    vh = ctx.anchor_hir(vname)
    vps = ctx.prog.fns[vname]["params"]
    if len(ps) != 3:
        ctx.violation("anchor/topn-insert", INSERT, "TopN::insert no longer takes (self, key, value)")
        raise Abort()
    n = 0
    bad = None
    # the fields of the struct as its constructors build them
    def fresh(limit):
        for cname, args in (("util::top_n::TopN::limitless", []), ("util::top_n::TopN::new", [limit])):
            if (limit is None) != (cname.endswith("limitless")):
                continue
            ch = ctx.prog.hir(cname)
            cps = ctx.prog.fns[cname]["params"] if cname in ctx.prog.fns else None
            if ch is None or cps is None:
                raise interp.Undecided("constructor %s not found" % cname)

            def call(node, recv, argv, it, env):
                if node.get("exp") or "assert" in str(node.get("mac", "")):
                    return ((),)
                return None
            return interp.Interp(prog=ctx.prog, effect=lambda node, it, env: ((),)).run(ch, {p["id"]: a for p, a in zip(cps, args)})
    try:
        for limit in (None, 1, 2, 3):
            for ln in range(0, 5):
                for seq in itertools.product((1, 2, 3), repeat=ln):
                    t = fresh(limit)
                    rows = []
                    for i_, k in enumerate(seq):
                        v = "r%d" % i_
                        rows.append((k, i_, v))
                        keep = sorted(rows, key=lambda r_: (r_[0], r_[1]))
                        evicted = None
                        if limit is not None and len(keep) > limit:
                            evicted = keep[-1]
                            keep = keep[:limit]
                        rows = keep
                        got = interp.Interp(prog=ctx.prog, max_steps=20000).run(hir, {ps[0]["id"]: t, ps[1]["id"]: k, ps[2]["id"]: v})
                        want_ret = interp.some(evicted[2]) if evicted else interp.NONE
                        vals = interp.Interp(prog=ctx.prog, max_steps=20000).run(vh, {vps[0]["id"]: t})
                        n += 1
                        if got != want_ret and bad is None:
                            bad = ("eviction", "with limit %s after inserting keys %s insert returns %s, expected %s" % (limit, list(seq[:i_ + 1]), got, want_ret))
                        if list(vals) != [r_[2] for r_ in rows] and bad is None:
                            bad = ("kept-rows" if limit is not None else "limitless", "with limit %s after inserting keys %s the buffer holds %s, expected %s "
                                   "(the first rows of the stable key order)" % (limit, list(seq[:i_ + 1]), list(vals), [r_[2] for r_ in rows]))
                        if bad:
                            break
                    if bad:
                        break
                if bad:
                    break
            if bad:
                break
    except interp.Undecided as e:
        bad = ("unreadable", "cannot evaluate TopN: %s" % e)
    ctx.obligation(bad is None)
    if bad:
        ctx.violation("topn/%s" % bad[0], ctx.where(INSERT), "TopN must keep exactly the first `limit` rows in key order and lose no row without a limit: %s" % bad[1])
    ctx.covered("TopN::insert / values evaluated on every sequence of <= 4 insertions over 3 keys x 4 limits", n,
                distinct_keys=["limit:none", "limit:1", "limit:2", "limit:3"], exhaustive=True)
    ctx.floor(n, 400, "TopN evaluations", INSERT)


def _stop_condition_table(cond):
    """truth table of a stop condition over (ordered, aggregate, limit, found), read with the finite interpreter; None if
    unreadable.  is_buffered() = ordered or aggregate, has_ordering() = ordered, has_aggregate_column() = aggregate."""
    import interp
    ids = {x["res"] for x in walk_exprs(cond) if x["k"] == "Path" and x.get("rk") == "Local" and x.get("name") == "self"}
    tbl = {}
    for ordered in (False, True):
        for aggregate in (False, True):
            for limit in (0, 1, 2, 3):
                for found in (0, 1, 2, 3, 4):
                    def call(node, recv, args, it, env, ordered=ordered, aggregate=aggregate):
                        m = node.get("m")
                        if node["k"] == "MCall" and m in ("is_buffered", "has_ordering", "is_ordered", "has_aggregate_column"):
                            return ({"is_buffered": ordered or aggregate, "has_ordering": ordered, "is_ordered": ordered, "has_aggregate_column": aggregate}[m],)
                        return None
                    selfv = {"query": {"limit": limit}, "found": found}
                    try:
                        v = interp.Interp(call=call).run(cond, {i: selfv for i in ids})
                    except interp.Undecided:
                        return None
                    if not isinstance(v, bool):
                        return None
                    tbl[(ordered, aggregate, limit, found)] = v
    return tbl


def r2(ctx):
    """every early exit on `limit <= found` applies to unbuffered output only: the stop condition, whatever its spelling
    (De Morgan, mirrored comparison, `!= 0`, behind a helper), is evaluated on a grid of (buffered, limit, found)"""
    n = 0
    for fn in (VISIT_DIR, "searcher::Searcher::list_search_results", CHECK_FILE):
        hir = ctx.anchor_hir(fn)
        for x in walk_exprs(hir):
            if x["k"] != "If" or x["c"]["k"] == "LetE":
                continue
            r = render(x["c"])
            if not ("limit" in r and "found" in r):
                continue
            if any(y is not x and y["k"] == "If" and "limit" in render(y["c"]) and "found" in render(y["c"]) for y in walk_exprs(x["c"])):
                continue
            n += 1
            leaves = any(y["k"] in ("Break", "Ret") for y in walk_exprs(x["t"]))
            tbl = _stop_condition_table(x["c"])
            if tbl is None:
                ctx.obligation(False)
                ctx.violation("early-exit/%s/unreadable" % short(fn, 1), ctx.where(fn, x), "cannot evaluate the stop condition `%s`" % r[:160])
                continue
            bad_buf = [(k[0] or k[1], k[2], k[3], "ordered" if k[0] else "aggregate") for k, v in tbl.items() if v and (k[0] or k[1])]
            spec = {k: (not (k[0] or k[1])) and k[2] > 0 and k[2] <= k[3] for k in tbl}
            bad = [k for k in tbl if tbl[k] != spec[k]]
            ok = leaves and not bad
            ctx.obligation(ok)
            if bad_buf:
                ctx.violation("early-exit/%s/buffered" % short(fn, 1), ctx.where(fn, x),
                              "the search stops at `%s` even when rows are buffered for ORDER BY / aggregation (e.g. an %s query with limit %d, found %d): "
                              "the top N of the sorted result and every aggregate need every row" % (r[:200], bad_buf[0][3], bad_buf[0][1], bad_buf[0][2]))
            elif not ok:
                ctx.violation("early-exit/%s/condition" % short(fn, 1), ctx.where(fn, x),
                              "early exit condition `%s` is not `unbuffered && limit > 0 && limit <= found`%s" %
                              (r[:200], (": differs at (ordered, aggregate, limit, found) = %s" % (bad[0],)) if bad else ""))
    ctx.covered("early-exit tests on (limit, found), each evaluated on 2 x 2 x 4 x 5 points", n, distinct_keys=["sites:%d" % n], exhaustive=True)
    ctx.floor(n, 2, "limit early-exit sites (directory loop, archive loop)", VISIT_DIR)
    # conversely, every place that produces rows is behind such a test: each call of check_file sits in a loop round that
    # starts with (is preceded, in an enclosing loop body, by) a leaving test on (limit, found) - a new producer of rows
    # (another kind of root, another container) without it prints past LIMIT
    m = 0
    for name in sorted(ctx.prog.fns):
        if "{closure" in name or not name.startswith("searcher::"):
            continue
        import norm
        if norm.known_fns() is not None and name not in norm.known_fns():
            continue        # helpers introduced later are read inlined in their callers
        h = ctx.prog.hir(name)
        if h is None:
            continue
        for c in walk_exprs(h):
            if not (c["k"] == "MCall" and c["m"] == "check_file"):
                continue
            m += 1
            gs = guards_of(h, c) or []
            stops = [g for g in gs if g[0] == "exit" and "limit" in render(g[1]) and "found" in render(g[1])]
            in_loop = any(g[0] == "loop" for g in gs)
            ok = bool(stops) and in_loop
            ctx.obligation(ok)
            if not ok:
                ctx.violation("producer-without-stop/%s" % short(name, 1), ctx.where(name, c),
                              "check_file is called here (rows are produced) without a preceding stop test on `limit <= found` in the same loop round: "
                              "an unordered query prints more than LIMIT rows from this producer")
    ctx.covered("producers of rows (calls of check_file) behind a LIMIT stop test", m, distinct_keys=["producers:%d" % m])
    ctx.floor(m, 2, "calls of check_file (directory entries, archive members)", VISIT_DIR)


def r3(ctx):
    # `found` has one writer, in check_file, after the WHERE filter
    writers = []
    for b in ctx.prog.bodies():
        for i, j, p, rv in b.assigns():
            if p["pr"] and p["pr"][-1] == ".found":
                writers.extend((o, i) for o in sorted(ctx.prog.owners(b.name)))
    real = [w for w in writers if w[0] != NEW]
    ok = len(real) == 1 and real[0][0] == CHECK_FILE
    ctx.obligation(ok)
    ctx.covered("writers of Searcher.found in the whole crate (MIR)", len(writers), distinct_keys=[w[0] for w in writers])
    if not ok:
        ctx.violation("found/writers", ctx.where(CHECK_FILE), "Searcher.found must be incremented at exactly one place, in check_file; writers: %s" % real)
        return
    # the increment happens once per accepted entry, after the WHERE filter: decided by evaluation of check_file on the
    # scenario table (rejected entry leaves found unchanged, accepted entry adds one)
    import cfile
    cfile.pipeline(ctx)


def r4(ctx):
    import interp
    hir = ctx.anchor_hir(NEW)
    # the value stored in Searcher.output_buffer, evaluated (finite interpreter) for query.limit = 0 and = 3
    st = [x for x in walk_exprs(hir) if x["k"] == "Struct" and short(x.get("res"), 1) == "Searcher"]
    ob = None
    if st:
        fs = {f["name"]: f["e"] for f in st[0]["fields"]}
        ob = fs.get("output_buffer")

    def call(node, recv, args, it, env):
        callee = str(node.get("callee", ""))
        if callee.endswith("TopN::limitless"):
            return (("limitless",),)
        if callee.endswith("TopN::new"):
            return (("topn", args[0] if args else None),)
        return None
    res = {}
    if ob is not None:
        for L in (0, 3):
            try:
                res[L] = interp.eval_in(hir, ob, {"query": {"limit": L}}, call=call)
            except interp.Undecided as e:
                res[L] = "undecided: %s" % e
    ok = res.get(0) == ("limitless",) and res.get(3) == ("topn", 3)
    ctx.obligation(ok)
    ctx.covered("buffer selection in Searcher::new evaluated for limit 0 and limit 3 (0 -> limitless, n -> TopN::new(n))", 2, distinct_keys=[NEW], exhaustive=True)
    if not ok:
        ctx.violation("new/topn-selection", ctx.where(NEW), "limit 0 must select an unlimited buffer and limit n a TopN of n; found %s" % res)
    # implicit limit 1 only when the limit is 0 and no selected expression needs a file: the assignment's guard is evaluated on
    # (limit, per-expression needs) with `get_required_fields().is_empty()` as the atom
    ph = ctx.anchor_hir(PARSE)
    imp = [x for x in walk_exprs(ph) if x["k"] == "Assign" and render(x["l"]) == "limit" and render(x["r"]) == "1"]
    ok = False
    why = "assignment `limit = 1` not found exactly once"
    # where the limit is not patched by an assignment but computed as a value (`let limit = match requested { 0 if .. => 1, n => n }`),
    # the initialiser of the Query's `limit` field is evaluated instead
    by_value = None
    if len(imp) != 1:
        lits_ = [x for x in walk_exprs(ph) if x["k"] == "Struct" and str(x.get("res", "")).endswith("query::Query")]
        if len(lits_) == 1:
            fl_ = {f_["name"]: f_["e"] for f_ in lits_[0]["fields"]}.get("limit")
            locs_ = Locals(ph)
            nd_ = peel(fl_) if fl_ is not None else None
            if nd_ is not None and nd_["k"] == "Path" and nd_.get("rk") == "Local" and nd_["res"] in locs_.defs:
                by_value = locs_.defs[nd_["res"]]
    if len(imp) == 1 or by_value is not None:
        g = [t for t in guards_of(ph, imp[0]) if t[0] == "if"] if len(imp) == 1 else []
        ok = bool(g) or by_value is not None
        why = ""
        NONE, some = interp.NONE, interp.some

        def expr(field=False, left=None, right=None, args=None, function=False, val=None):
            return {"field": some(interp.V("Field::Size")) if field else NONE, "left": some(left) if left else NONE, "right": some(right) if right else NONE,
                    "args": some(args) if args is not None else NONE, "function": some(interp.V("Function::Concat")) if function else NONE,
                    "val": some(val) if val is not None else NONE, "minus": False, "op": NONE, "logical_op": NONE,
                    "arithmetic_op": some(interp.V("ArithmeticOp::Add")) if right else NONE}

        def needs_file(e):
            return e["field"] != NONE or any(needs_file(x.args[0]) for x in (e["left"], e["right"]) if x != NONE) or \
                (e["args"] != NONE and any(needs_file(a) for a in e["args"].args[0]))
        lit, fld = expr(val="1"), expr(field=True)
        lists = {"no column": [], "literal": [lit], "column": [fld], "literal, column": [lit, fld], "two literals": [lit, expr(val="x")],
                 "f(column)": [expr(function=True, left=fld)], "f(literal)": [expr(function=True, left=lit)],
                 "f(literal, column)": [expr(function=True, left=lit, args=[fld])], "f(literal, literal)": [expr(function=True, left=lit, args=[lit])],
                 "literal + column": [expr(left=lit, right=fld)], "literal + literal": [expr(left=lit, right=lit)]}
        for L in (0, 2):
            for lname, fields in lists.items():
                def call2(node, recv, args, it, env):
                    m = node.get("m")
                    if m in ("iter", "into_iter", "as_ref", "as_slice") and isinstance(recv, list):
                        return (recv,)
                    if m in ("all", "any") and isinstance(recv, list) and node["args"]:
                        f = it.ev(node["args"][0], env)
                        vals = [it.apply(f, [x]) for x in recv]
                        return ((all(vals) if m == "all" else any(vals)),)
                    if m == "get_required_fields" and isinstance(recv, dict) and "field" in recv:
                        return ({"__empty": not needs_file(recv)},)
                    if m == "is_empty" and isinstance(recv, dict) and "__empty" in recv:
                        return (recv["__empty"],)
                    if m == "is_empty" and isinstance(recv, list):
                        return (not recv,)
                    return None
                try:
                    if by_value is not None:
                        def call3(node, recv, args, it, env, L=L):
                            m_ = node.get("m") or ""
                            if m_.startswith("parse_limit") or "Parser::parse_limit" in str(node.get("callee", "")):
                                return (interp.V("Result::Ok", [L]),)
                            return call2(node, recv, args, it, env)
                        v_ = interp.eval_in(ph, by_value, {"fields": fields}, call=call3, prog=ctx.prog)
                        if v_ not in (1, L):
                            raise interp.Undecided("the limit of the query is %r" % (v_,))
                        vals = [v_ == 1 and L != 1]
                    else:
                        vals = [interp.eval_in(ph, t[1], {"limit": L, "fields": fields}, call=call2, prog=ctx.prog) == t[2] for t in g]
                except interp.Undecided as e:
                    ok = False
                    why = "cannot evaluate the guard: %s" % e
                    break
                got = all(vals)
                want = L == 0 and not any(needs_file(e) for e in fields)
                if got != want:
                    ok = False
                    why = "with limit %d and the select list `%s` the limit is %sforced to 1" % (L, lname, "" if got else "not ")
    ctx.obligation(ok)
    ctx.covered("implicit limit 1 for file-less select lists: guard evaluated on 2 limits x 11 select lists", 22, distinct_keys=[PARSE], exhaustive=True)
    if not ok:
        ctx.violation("parse/implicit-limit", ctx.where(PARSE), "limit may be forced to 1 only when it is 0 and no selected expression needs a file (%s)" % why)
    # parse_limit: the number after `limit`, an error for anything else after `limit`, 0 (and the cursor left where it was) when the
    # clause is absent: the function is evaluated (finite interpreter; the parser's cursor is its lexem list and index) on the
    # five shapes of what can stand at the cursor
    import interp
    lh = ctx.anchor_hir(PARSE_LIMIT)
    lps = ctx.prog.fns[PARSE_LIMIT]["params"]
    V = interp.V
    shapes = [([V("Lexem::Limit"), V("Lexem::RawString", ["5"]), V("Lexem::Into")], ("ok", 5), 2), ([V("Lexem::Limit"), V("Lexem::String", ["12"])], ("ok", 12), 2),
              ([V("Lexem::Limit"), V("Lexem::RawString", ["x"])], ("err",), None), ([V("Lexem::Limit"), V("Lexem::Into")], ("err",), None), ([V("Lexem::Limit")], ("err",), None),
              ([V("Lexem::Into"), V("Lexem::RawString", ["json"])], ("ok", 0), 0), ([], ("ok", 0), 0)]
    ok, why = True, ""
    for lexems, want, want_index in shapes:
        selfv = {"lexems": list(lexems), "index": 0, "roots_parsed": True, "where_parsed": True}
        try:
            got = interp.Interp(prog=ctx.prog).run(lh, {lps[0]["id"]: selfv})
        except interp.Undecided as e:
            ok, why = False, "cannot evaluate parse_limit on %s: %s" % (lexems, e)
            break
        g = ("ok", got.args[0]) if isinstance(got, V) and got.name == "Result::Ok" else (("err",) if isinstance(got, V) and got.name == "Result::Err" else ("?", got))
        if g != want or (want_index is not None and selfv["index"] != want_index):
            ok, why = False, "at %s parse_limit gives %s and leaves the cursor at %s (expected %s, cursor %s)" % (lexems, got, selfv["index"], want, want_index)
            break
    ctx.obligation(ok)
    ctx.covered("parse_limit evaluated on 7 cursor shapes (value, error, absent; cursor position)", 7, distinct_keys=["value", "error", "absent"], exhaustive=True)
    if not ok:
        ctx.violation("parse_limit", ctx.where(PARSE_LIMIT), "parse_limit must return the parsed number, an error for a non-number, and 0 when absent: %s" % why)

RULES = [
    ("C06-R1", "TopN::insert eviction predicate, victim side and bookkeeping", r1),
    ("C06-R2", "early exits on limit apply to unbuffered output only (sibling agreement)", r2),
    ("C06-R3", "row counter: single writer, after the filter, step 1", r3),
    ("C06-R4", "buffer selection, implicit limit, parse_limit", r4),
    ("X-BUFFER", "buffering predicates (ordered or aggregate) and recursive expression predicates [shared]", lambda ctx: __import__("extra").buffering_predicates(ctx)),
    ("X-PHASES", "every clause of the query is parsed exactly once, in grammar order (a re-parsed LIMIT / ORDER BY overwrites the first) [shared]", lambda ctx: __import__("extra").parser_phases(ctx)),
    ("X-EXPRWALK", "recursive walks of an expression's value layer visit left, right and the further arguments [shared]", lambda ctx: __import__("extra2").value_walks_reach_arguments(ctx)),
    ("C05-R1", "the keys of the top-N buffer are inserted, evicted and looked up by Criteria::cmp: it is a consistent order for every kind of key, keys without a value included [shared with C05]", lambda ctx: __import__("c05").r1(ctx)),
]

EXPLANATION = (
    "Static structural necessary conditions of C06: TopN::insert increments the count, then evicts exactly when "
    "count > limit (predicate evaluated on all orderings of (count, limit)), takes the victim from the greatest key "
    "via next_back/pop, decrements the count and puts back the rest of the echelon, and never evicts without a "
    "limit; every early exit comparing the limit with the number of found rows is conjoined with !is_buffered() "
    "(directory loop and archive loop agree); Searcher.found has exactly one writer, after the WHERE filter, step 1; "
    "limit 0 selects the unlimited buffer, and the implicit limit 1 is applied only when no selected expression "
    "needs a file. Row counts on real trees and tie resolution are not decided."
    ' is_buffered is exactly has_ordering || has_aggregate_column and the recursive expression predicates visit every child.')
ASSUMPTIONS = ["rustc's HIR/MIR faithfully represent the source; exporter and rule scripts are correct",
               "BTreeMap::iter().next_back() yields the greatest key"]
NOT_DECIDED = ["row counts on real trees", "which of several tied rows is kept at the cut"]
