"""Normalisation of the exported HIR before the rules read it, so that behaviour-preserving rewrites do not change
what a rule sees:

 * calls to crate functions that did not exist on the pinned tree (rules/known_fns.json) are *inlined* into their
   caller: a helper extracted by a refactoring (or introduced by a change that hides a decision behind a new name)
   is read as if its body stood at the call site.  Parameters become `let` bindings, locals are renamed apart, a
   `return` of the helper becomes an `InlRet` node (it leaves the helper, not the caller);
 * `match <bool> { true => A, false => B }` is read as `if <bool> { A } else { B }`;
 * `let (a, b, ..) = if c { (x1, y1, ..) } else { (x2, y2, ..) }` (or a `match` on a bool) is read as one `let` per
   component, so that definition chasing reaches the component values.

Nothing here is semantic guessing: each rewrite is an equivalence of Rust programs when the moved expressions are
evaluated in the same order, which holds for the forms handled (arguments are bound by `let` in argument order)."""
import copy
import json
import os

from hirq import walk, children, is_node, PAT_KINDS

HERE = os.path.dirname(os.path.abspath(__file__))
_KNOWN = None


_SIGS = None


def known_fns():
    """names of the functions of the pinned tree (with its fix: commits)"""
    global _KNOWN, _SIGS
    if _KNOWN is None:
        p = os.path.join(HERE, "known_fns.json")
        if os.path.exists(p):
            d = json.load(open(p))
            _SIGS = d if isinstance(d, dict) else {n: None for n in d}
            _KNOWN = set(_SIGS)
    return _KNOWN


def known_sig(name):
    known_fns()
    return (_SIGS or {}).get(name)


def _sig_bag(sig):
    """(sorted parameter types, return type) of a `fn(..) -> ..` signature string, lifetimes erased"""
    import re
    if not sig:
        return None
    t = re.sub(r"for<[^>]*> ", "", sig)
    t = re.sub(r"'[a-z_0-9]+ ?", "", t)
    # a parameter borrowed as the owning type or as its view is the same parameter: &String / &str, &PathBuf / &Path, &Vec<T> / &[T]
    t = t.replace("&alloc::string::String", "&str").replace("&std::path::PathBuf", "&std::path::Path")
    t = re.sub(r"&alloc::vec::Vec<([^<>]*(?:<[^<>]*(?:<[^<>]*>[^<>]*)*>[^<>]*)*)>", r"&[\1]", t)
    m = re.match(r"(?:unsafe )?fn\((.*)\)(?: -> (.*))?$", t)
    if not m:
        return t
    params, depth, cur = [], 0, ""
    prev = ""
    for ch in m.group(1):
        if ch in "<([":
            depth += 1
        elif ch in ">)]" and not (ch == ">" and prev == "-"):      # the `->` of a Fn(..) -> T bound closes nothing
            depth -= 1
        prev = ch
        if ch == "," and depth == 0:
            params.append(cur.strip())
            cur = ""
        else:
            cur += ch
    if cur.strip():
        params.append(cur.strip())
    return (tuple(sorted(params)), (m.group(2) or "()").strip())


def param_types(sig):
    """parameter types of a `fn(..) -> ..` signature string in order, lifetimes erased"""
    import re
    if not sig:
        return []
    t = re.sub(r"for<[^>]*> ", "", sig)
    t = re.sub(r"'[a-z_0-9]+ ?", "", t)
    m = re.match(r"(?:unsafe )?fn\((.*)\)(?: -> (.*))?$", t)
    if not m:
        return []
    params, depth, cur = [], 0, ""
    prev = ""
    for ch in m.group(1):
        if ch in "<([":
            depth += 1
        elif ch in ">)]" and not (ch == ">" and prev == "-"):      # the `->` of a Fn(..) -> T bound closes nothing
            depth -= 1
        prev = ch
        if ch == "," and depth == 0:
            params.append(cur.strip())
            cur = ""
        else:
            cur += ch
    if cur.strip():
        params.append(cur.strip())
    return params


def resolve_renames(prog):
    """a pinned-tree function that is missing while exactly one new function of the same module / impl has its signature is
    taken to be that function under a new name: it is registered under the old name (so that rules anchored in it read
    it) and is not inlined into its callers"""
    known = known_fns()
    if not known:
        return {}
    out = {}
    new = [n for n in prog.fns if n not in known and "{closure" not in n]
    for name in sorted(known):
        if name in prog.fns or "{closure" in name:
            continue
        sig = known_sig(name)
        par = lambda q: q.rsplit("::", 1)[0] if "::" in q else ""
        parent = par(name)
        cands = [n for n in new if par(n) == parent and sig is not None and prog.fns[n].get("sig") == sig and n not in out.values()]
        if len(cands) != 1 and sig is not None:
            # the same parameter types in another order (parameters reordered along with the rename)
            want = _sig_bag(sig)
            cands = [n for n in new if par(n) == parent and _sig_bag(prog.fns[n].get("sig")) == want and n not in out.values()]
        if len(cands) > 1:
            # several new functions of this signature (two siblings renamed together): the one whose name is clearly the
            # closest to the old name, if it is not closer still to another missing function of the same signature
            import difflib
            base = name.rsplit("::", 1)[-1]
            sim = lambda a, b: difflib.SequenceMatcher(None, a, b).ratio()
            ranked = sorted(cands, key=lambda c: -sim(base, c.rsplit("::", 1)[-1]))
            best, second = ranked[0], ranked[1]
            sb, ss = sim(base, best.rsplit("::", 1)[-1]), sim(base, second.rsplit("::", 1)[-1])
            rivals = [o for o in known if o != name and o not in prog.fns and par(o) == parent and "{closure" not in o and
                      (known_sig(o) == sig or _sig_bag(known_sig(o)) == _sig_bag(sig))]
            if sb >= 0.6 and sb - ss >= 0.1 and all(sim(o.rsplit("::", 1)[-1], best.rsplit("::", 1)[-1]) < sb for o in rivals):
                cands = [best]
        if len(cands) == 1:
            out[name] = cands[0]
    # elimination: siblings of one signature renamed together, all but one recognised by their names - the last missing
    # function is the last new function of that signature
    changed = True
    while changed:
        changed = False
        for name in sorted(known):
            if name in prog.fns or "{closure" in name or name in out:
                continue
            sig = known_sig(name)
            if sig is None:
                continue
            par = lambda q: q.rsplit("::", 1)[0] if "::" in q else ""
            same = lambda s_: s_ == sig or _sig_bag(s_) == _sig_bag(sig)
            cands = [n for n in new if par(n) == par(name) and same(prog.fns[n].get("sig")) and n not in out.values()]
            rivals = [o for o in known if o != name and o not in prog.fns and o not in out and par(o) == par(name) and "{closure" not in o and same(known_sig(o))]
            if len(cands) == 1 and not rivals:
                out[name] = cands[0]
                changed = True
    for old_, new_ in out.items():
        prog.fns[old_] = prog.fns[new_]
        for c in [n for n in prog.fns if n.startswith(new_ + "::{closure")]:
            prog.fns[old_ + c[len(new_):]] = prog.fns[c]
    return out


def _rename(node, suffix):
    """deep copy with every local id renamed apart and Ret turned into InlRet"""
    n = copy.deepcopy(node)
    for x in walk(n):
        if x["k"] == "Bind" and "id" in x:
            x["id"] = x["id"] + suffix
        elif x["k"] == "Path" and x.get("rk") == "Local":
            x["res"] = x["res"] + suffix
        elif x["k"] == "Ret":
            x["k"] = "InlRet"
        elif x["k"] == "Closure":
            pass
    return n


def _replace_children(n, fn):
    """apply fn to every child node in place (fn returns the replacement)"""
    for key, v in list(n.items()):
        if is_node(v):
            n[key] = fn(v)
        elif isinstance(v, list):
            for i, x in enumerate(v):
                if is_node(x):
                    v[i] = fn(x)
                elif isinstance(x, dict):
                    for k2, v2 in list(x.items()):
                        if is_node(v2):
                            x[k2] = fn(v2)


class Normaliser:
    def __init__(self, prog):
        self.prog = prog
        self.known = known_fns()
        self.counter = 0
        self.inlined = {}       # fn name -> list of helper names inlined into it

    def inlinable(self, callee, stack):
        if self.known is None or not callee or callee in self.known or callee in stack or callee in getattr(self.prog, "renamed_to", ()):
            return False
        f = self.prog.fns.get(callee)
        if not f or "hir" not in f or "params" not in f:
            return False
        if "{closure" in callee:
            return False
        return all(p.get("k") == "Bind" for p in f["params"])

    def inline(self, n, owner, stack, depth):
        """returns n with new-helper calls below it inlined (n itself is already a copy)"""
        def rec(x):
            x = self.inline(x, owner, stack, depth)
            return x
        _replace_children(n, rec)
        if n["k"] in ("Call", "MCall") and depth < 4:
            callee = n.get("callee")
            if self.inlinable(callee, stack):
                f = self.prog.fns[callee]
                args = ([n["recv"]] if n["k"] == "MCall" else []) + list(n["args"])
                if len(args) == len(f["params"]):
                    self.counter += 1
                    suffix = "@%s#%d" % (callee.rsplit("::", 1)[-1], self.counter)
                    body = _rename(f["hir"], suffix)
                    body = self.inline(body, owner, stack + [callee], depth + 1)
                    stmts = []
                    for p, a in zip(f["params"], args):
                        pat = dict(p)
                        pat["id"] = p["id"] + suffix
                        stmts.append({"k": "Let", "sp": n.get("sp", "?"), "pat": pat, "init": a, "inl_param": True})
                    self.inlined.setdefault(owner, []).append(callee)
                    return {"k": "Block", "sp": n.get("sp", "?"), "ty": n.get("ty"), "stmts": stmts, "expr": body, "inl": callee}
        return n

    def canon(self, n):
        def rec(x):
            return self.canon(x)
        _replace_children(n, rec)
        k = n["k"]
        if k == "Match" and n.get("src") == "Normal" and len(n["arms"]) == 2:
            pats = [a["pat"] for a in n["arms"]]

            def boolpat(p):
                if p["k"] == "PLit" and p.get("lk") == "bool":
                    return p["v"]
                return None
            b0, b1 = boolpat(pats[0]), boolpat(pats[1])
            wild1 = pats[1]["k"] == "Wild"
            wild0 = pats[0]["k"] == "Wild"
            if not any(a.get("guard") for a in n["arms"]) and str(n["scrut"].get("ty", "")) in ("bool", "&bool"):
                t = e = None
                if b0 is True and (b1 is False or wild1):
                    t, e = n["arms"][0]["body"], n["arms"][1]["body"]
                elif b0 is False and (b1 is True or wild1):
                    e, t = n["arms"][0]["body"], n["arms"][1]["body"]
                if t is not None:
                    return {"k": "If", "sp": n.get("sp", "?"), "ty": n.get("ty"), "c": n["scrut"], "t": t, "e": e, "from_match": True}
        if k == "Block":
            out = []
            for st in n["stmts"]:
                split = self.split_tuple_let(st)
                out.extend(split if split else [st])
            n["stmts"] = out
        return n

    def split_tuple_let(self, st):
        if st["k"] != "Let" or st["pat"]["k"] != "PTup" or "init" not in st or st.get("els"):
            return None
        subs = st["pat"]["subs"]
        if not all(s["k"] in ("Bind", "Wild") and "sub" not in s for s in subs):
            return None

        def comps(e):
            """per-component expression trees of a tuple-valued expression, or None"""
            while e["k"] == "Block" and not e["stmts"] and "expr" in e:
                e = e["expr"]
            if e["k"] == "Tup" and len(e["es"]) == len(subs):
                return [[x] for x in e["es"]]
            return None

        init = st["init"]
        hoisted = []
        while init["k"] == "Block" and "expr" in init:
            # a block (an inlined helper: parameter lets, its own lets, a tuple at the end) that cannot be left early:
            # its statements are read in the enclosing block (local ids are unique), the tuple is split per component
            if init["stmts"] and any(x.get("k") in ("InlRet", "Ret", "Break", "Continue") for s_ in init["stmts"] for x in walk(s_)):
                break
            hoisted.extend(init["stmts"])
            init = init["expr"]
        if init["k"] == "Tup" and len(init["es"]) == len(subs):
            return hoisted + [{"k": "Let", "sp": st.get("sp", "?"), "pat": s, "init": e} for s, e in zip(subs, init["es"]) if s["k"] == "Bind"]
        if hoisted:
            return None
        if init["k"] == "If" and "e" in init:
            a, b = comps(init["t"]), comps(init["e"])
            if a and b:
                out = []
                for i, s in enumerate(subs):
                    if s["k"] != "Bind":
                        continue
                    out.append({"k": "Let", "sp": st.get("sp", "?"), "pat": s,
                                "init": {"k": "If", "sp": init.get("sp", "?"), "c": init["c"], "t": a[i][0], "e": b[i][0], "split": True}})
                return out
        return None

    def run(self, name):
        f = self.prog.fns.get(name)
        if not f or "hir" not in f:
            return None
        h = copy.deepcopy(f["hir"])
        h = self.inline(h, name, [name], 0)
        h = self.canon(h)
        return h
