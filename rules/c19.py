"""C19 — archive search lists each zip member exactly once and changes nothing else (static necessary conditions)."""
from hirq import *  # noqa: F401,F403
import tables
from core import Abort

VISIT_DIR = "searcher::Searcher::visit_dir"
GFV = "searcher::Searcher::get_field_value"
TO_FILE_INFO = "fileinfo::to_file_info"
AVAILABLE = "field::Field::is_available_for_archived_files"


def member_site(hir):
    return [c for c in walk_exprs(hir) if c["k"] == "MCall" and c["m"] == "check_file" and not render(c["args"][1]).endswith("None")]


def r1(ctx):
    hir = ctx.anchor_hir(VISIT_DIR)
    ms = member_site(hir)
    if len(ms) != 1:
        ctx.violation("anchor/member-site", VISIT_DIR, "expected one check_file(entry, Some(member)) site, found %d" % len(ms))
        raise Abort()
    site = ms[0]
    gs = guards_of(hir, site)
    strs = []
    for t in gs:
        if t[0] == "if":
            strs.append(("if" if t[2] else "ifnot", render(t[1])))
        elif t[0] == "match":
            strs.append(("match", render(t[1]), render_pat(t[2])))
        else:
            strs.append((t[0],))
    # member loop: for i in 0..archive.len()
    import sem
    locs = Locals(hir)
    its = [it for it in find_iterations(hir) if any(y is site for y in walk_exprs(it["body"])) and "Range" in render(it["iter"])]
    rng = None
    idx_id = None
    if its:
        it = min(its, key=lambda i_: len(list(walk_exprs(i_["body"]))))
        idx_id = (pat_binders(it["pat"]) or [None])[0]
        for x in walk_exprs(it["iter"]):
            if x["k"] == "Struct" and short(x.get("res"), 1) == "Range":
                rng = {f["name"]: render(locs.chase(f["e"])) for f in x["fields"]}
    ok = rng is not None and rng.get("start") == "0" and rng.get("end", "").endswith(".len()") and "archive" in rng.get("end", "")
    ctx.obligation(ok)
    if not ok:
        ctx.violation("members/range", ctx.where(VISIT_DIR, site), "the member loop must cover indices 0..archive.len(); found %s" % rng)
    # by_index(i) with the loop variable, file info of that member, passed on
    bi = [c for c in walk_exprs(hir) if c["k"] == "MCall" and c["m"] == "by_index"]
    ok = len(bi) == 1 and idx_id is not None and peel(bi[0]["args"][0]).get("res") == idx_id
    a1 = peel(site["args"][1])
    if a1["k"] == "Call" and a1.get("ctor") and a1["args"]:
        a1 = a1["args"][0]
    info_n = peel(locs.chase(a1))
    info = render(info_n)
    conv = [c for c in [info_n] + list(walk_exprs(info_n)) if c["k"] == "Call" and str(c.get("callee", "")).endswith("to_file_info")]
    member_ok = False
    if conv and bi:
        # the converted value is the payload of by_index(i)
        src = peel(conv[0]["args"][0])
        for _ in range(6):
            if src["k"] == "Path" and src.get("rk") == "Local":
                d = locs.payload_defs.get(src["res"]) or locs.defs.get(src["res"])
                if d is None:
                    break
                src = peel(d, methods=False)
                while src["k"] == "Match" and src.get("src") == "Normal":     # `match by_index(i) { Ok(m) => m, Err(_) => continue }`
                    src = peel(src["scrut"], methods=False)
                continue
            break
        member_ok = any(y is bi[0] for y in walk_exprs(src)) or src is bi[0]
    # ... against the archive's own directory entry: the first argument is (a reference to, possibly through the parameter
    # of an extracted helper) a DirEntry of the entry loop, whatever the local is called
    a0 = peel(site["args"][0])
    for _ in range(6):
        if a0["k"] == "Path" and a0.get("rk") == "Local" and a0["res"] in locs.defs:
            a0 = peel(locs.defs[a0["res"]])
            continue
        break
    entry_ok = a0["k"] == "Path" and a0.get("rk") == "Local" and "DirEntry" in str(locs.types.get(a0["res"], a0.get("ty", "")))
    ok = ok and member_ok and entry_ok
    ctx.obligation(ok)
    if not ok:
        ctx.violation("members/identity", ctx.where(VISIT_DIR, site), "member i must be read with by_index(i), converted by to_file_info and checked against the archive's entry: %s" % info)
    # guards: reporting gate, archives option && zip extension, the three fallible steps consumed by a pattern
    conds = " | ".join(guard_text(t) for t in gs if t[0] in ("if", "match"))
    # `let m = match archive.by_index(i) { Ok(m) => m, Err(_) => continue };` consumes the fallible step by a pattern as well
    # (a `?` does not: it would end the whole directory listing)
    for x in walk_exprs(hir):
        if x["k"] == "Match" and x.get("src") == "Normal" and any("Result::Ok" in render_pat(a_["pat"]) for a_ in x["arms"]) and \
                any("Result::Err" in render_pat(a_["pat"]) and not any(y["k"] == "Ret" and "Err" in render(y.get("e")) for y in walk_exprs(a_["body"])) for a_ in x["arms"]):
            conds += " | " + render(x["scrut"])
    # `let Ok(x) = step else { skip };` consumes the fallible step by a pattern too
    for x in walk(hir):
        if x.get("k") == "Let" and x.get("els") is not None and x.get("init") is not None and "Result::Ok" in render_pat(x["pat"]):
            conds += " | " + render(x["init"])
    need = ["min_depth", "search_archives", "is_zip_archive", "File::open", "read::new", "by_index"]
    missing = [w for w in need if w not in conds]
    ctx.obligation(not missing)
    if missing:
        ctx.violation("members/guards", ctx.where(VISIT_DIR, site), "member rows must sit inside the depth gate, the `archives && zip extension` test and `if let Ok` of open / ZipArchive::new / by_index; missing %s" % missing)
    extra = [s for s in strs if s[0] in ("if", "ifnot") and not any(w in s[1] for w in need + ["pass_ignores"])]
    # atom by atom (boolean locals chased to their definitions): the members of an archive are rows of the archive's own level, so
    # the gate for *reporting* (mindepth) applies and the gate for *descending* (depth < maxdepth) does not - an archive on the
    # last level of the window is still opened
    for t in gs:
        if t[0] != "if" or t[1]["k"] == "LetE":
            continue
        pos_, neg_ = guard_atoms([t])

        def conj(e, depth=4):
            e0 = peel(e, methods=False)
            if e0["k"] == "Path" and e0.get("rk") == "Local" and any(w in str(e0.get("name")) for w in need + ["pass_ignores"]):
                return [e0]         # a reviewed condition held in a local of its own (pass_ignores): decided by C20, not unfolded here
            e = peel(locs.chase(e), methods=False)
            if e["k"] == "Bin" and e["op"] == "&&" and depth:
                return conj(e["l"], depth - 1) + conj(e["r"], depth - 1)
            return [e]
        for a_ in [c_ for p_ in pos_ for c_ in conj(p_)]:
            ra = render(a_)
            if "max_depth" in ra and "min_depth" not in ra:
                extra.append(("if", ra))
            elif a_["k"] != "LetE" and not any(w in ra for w in need + ["pass_ignores"]):
                # a further conjunct of one of the reviewed conditions (`.. && self.ok_to_scan_archive(&entry)`): member rows of
                # an archive the condition rejects are silently missing
                extra.append(("if", ra))
    ctx.obligation(not extra)
    for s in extra:
        ctx.violation("members/extra-guard/%s" % s[1][:50], ctx.where(VISIT_DIR, site), "member rows are additionally conditioned on `%s`" % s[1])
    # the zip test is on the entry's path with the archives option
    zc = [c for c in walk_exprs(hir) if c["k"] == "MCall" and c["m"] == "is_zip_archive"]
    ok = len(zc) == 1 and "path" in render(zc[0]["args"][0])
    ctx.obligation(ok)
    if not ok:
        ctx.violation("members/zip-test", ctx.where(VISIT_DIR), "the zip test must look at the entry's path")
    # after the archive's own row, in the same gate; loop exits: limit break (C06) and the closed-pipe return
    order = list(walk_exprs(hir))
    own = [c for c in order if c["k"] == "MCall" and c["m"] == "check_file" and render(c["args"][1]).endswith("None")]
    ok = len(own) == 1 and order.index(own[0]) < order.index(site)
    ctx.obligation(ok)
    if not ok:
        ctx.violation("members/after-archive-row", ctx.where(VISIT_DIR, site), "member rows must follow the archive's own row")
    loop = [t[1] for t in gs if t[0] == "loop"][-1]
    n_exit = 0
    for x in walk_exprs(loop):
        if x["k"] in ("Break", "Continue", "Ret") and not x.get("exp"):
            n_exit += 1
            gl = guards_of(loop, x)
            g = " && ".join(render(t[1]) for t in gl if t[0] == "if")
            gm = " && ".join(guard_text(t) for t in gl if t[0] == "match")
            chased = " ".join(render(locs.chase(a_)) for a_ in sum(guard_atoms(gl), []))
            # LIMIT stop, closed pipe (check_file said stop), or skipping a member that cannot be read (`Err(_) => continue`)
            ok = ("limit" in g and "found" in g) or "!checked" in g or "check_file" in chased or \
                (x["k"] == "Continue" and "by_index" in gm and "Err" in gm)
            # `let Ok(member) = archive.by_index(i) else { continue };` (and the same for the two steps that open the archive):
            # the step that failed is skipped, nothing else
            if not ok:
                for st in walk(loop):
                    if st.get("k") == "Let" and st.get("els") is not None and st.get("init") is not None and any(y is x for y in walk_exprs(st["els"])):
                        init_ = render(st["init"])
                        ok = "Result::Ok" in render_pat(st["pat"]) and any(w in init_ for w in ("by_index", "File::open", "read::new", "ZipArchive"))
            ctx.obligation(ok)
            if not ok:
                ctx.violation("members/exit/%s" % g[:50], ctx.where(VISIT_DIR, x), "the member loop is left under `%s`; only LIMIT and a closed pipe may end it" % g)
    ctx.covered("archive member loop (range, identity, guards, order, exits)", 6 + n_exit, distinct_keys=[str(s) for s in strs], sample=strs)


def r2(ctx):
    hir = ctx.anchor_hir(TO_FILE_INFO)
    st = [x for x in walk_exprs(hir) if x["k"] == "Struct"]
    want = {"name": "name", "size": "size", "mode": "unix_mode", "modified": "last_modified"}
    got = {}
    if st:
        locs = Locals(hir)
        for f in st[0]["fields"]:
            fe_ = locs.chase(peel(f["e"], methods=False))
            ms = [c["m"] for c in walk_exprs(fe_) if c["k"] == "MCall" and c["m"] not in ("to_string", "clone", "to_owned")]
            got[f["name"]] = ms[-1] if ms else render(f["e"])
    for k, v in want.items():
        ok = got.get(k) == v
        ctx.obligation(ok)
        if not ok:
            ctx.violation("file-info/%s" % k, ctx.where(TO_FILE_INFO), "FileInfo.%s is taken from %s(), expected %s()" % (k, got.get(k), v))
    ctx.covered("FileInfo field table", len(want), distinct_keys=list(want), sample=got, exhaustive=True)


def r3(ctx):
    avail = tables.variant_set(ctx, AVAILABLE)
    hir = ctx.anchor_hir(GFV)
    ms = find_matches(hir, min_arms=20)
    if len(ms) != 1:
        ctx.violation("anchor/get_field_value-match", GFV, "per-column match not found")
        raise Abort()
    arms = {key_name(k).split("::")[-1]: a for a in match_arms(ms[0]) for k in a["keys"]}
    n = 0
    for col, a in sorted(arms.items()):
        if col == "_":
            continue
        uses = any(x["k"] == "Path" and x.get("name") == "file_info" for x in walk_exprs(a["body"]))
        n += 1
        if col in avail:
            ctx.obligation(uses)
            if not uses:
                ctx.violation("availability/%s/ignores-member" % col, ctx.where(GFV, a["body"]),
                              "column %s is declared available for archive members but its arm never looks at the member: it reports the archive file's own attribute" % col)
        else:
            ctx.obligation(True)
    ctx.covered("columns declared available for archive members vs arms reading file_info", n, distinct_keys=sorted(avail), exhaustive=True)
    ctx.floor(len(avail), 38, "columns available for archive members", AVAILABLE)
    # the early return for unavailable columns precedes the match
    top = hir["stmts"]
    idx_m = [i for i, s in enumerate(top + ([hir["expr"]] if "expr" in hir else [])) if any(y is ms[0] for y in walk_exprs(s))]
    early = [i for i, s in enumerate(top) if s["k"] == "If" and "is_available_for_archived_files" in render(s["c"]) and
             "file_info.is_some()" in render(s["c"]) and render(peel(s["c"], methods=False)).count("!") == 1 and
             any(y["k"] == "Ret" and "Variant::empty" in render(y["e"]) for y in walk_exprs(s["t"]))]
    ok = bool(early) and bool(idx_m) and early[0] < idx_m[0]
    ctx.obligation(ok)
    if not ok:
        ctx.violation("availability/early-return", ctx.where(GFV), "for archive members, columns that are not available must yield an empty value before the column match")
    # member name formats
    for col, first in (("Name", "file_name"), ("Path", "path")):
        a = arms.get(col)
        if not a:
            continue
        tm = [t for t, _ in fmt_templates(a["body"])]
        some = None
        for m in find_matches(a["body"], min_arms=2, source=None):
            for arm in match_arms(m):
                if any(k not in ("_",) and "Some" in key_name(k) for k in arm["keys"]):
                    some = arm["body"]
        ok = some is not None and [t for t, _ in fmt_templates(some)] == ["[{}] {}"]
        if ok:
            r = render(some)
            ok = r.index(first) < r.index("file_info.name") if first in r and "file_info.name" in r else False
        ctx.obligation(ok)
        if not ok:
            ctx.violation("member-label/%s" % col, ctx.where(GFV, a["body"]), "an archive member's %s must be printed as `[archive] member name`" % col.lower())
    # size of a member is its uncompressed size field; is_dir from the trailing slash; mode / modified from the member
    checks = {"Size": "file_info.size", "IsDir": "file_info.name.ends_with('/')", "Mode": "file_info.mode", "Modified": "file_info.modified",
              "IsEmpty": "file_info.size == 0"}
    for col, frag in checks.items():
        a = arms.get(col)
        r = " ".join(render(x) for x in walk_exprs(a["body"])) if a else ""
        ok = frag in r.replace("(", "").replace(")", "") or frag in r
        ctx.obligation(ok)
        if not ok:
            ctx.violation("member-attr/%s" % col, ctx.where(GFV, a["body"] if a else ms[0]), "for archive members %s must come from `%s`" % (col, frag))
    ctx.covered("member label formats and member attribute sources", 2 + len(checks), distinct_keys=["Name", "Path"] + list(checks))


RULES = [
    ("C19-R1", "archive member loop: range, identity, guards, order, exits", r1),
    ("C19-R2", "FileInfo field table", r2),
    ("C19-R3", "availability table vs column arms; member labels and attribute sources", r3),
    ("C06-R2", "LIMIT early exits of the member loop apply to unbuffered output only [shared with C06]", lambda ctx: __import__("c06").r2(ctx)),
    ("C04-R1", "stored unix modes of members: permission and type predicates [shared with C04]", lambda ctx: __import__("c04").r1(ctx)),
    ("C04-R2", "mode string of members [shared with C04]", lambda ctx: __import__("c04").r2(ctx)),
    ("C01-R7", "the archive branch never leaves the entry loop: ordinary rows are unaffected [shared with C01]", lambda ctx: __import__("c01").r7(ctx)),
    ("C19-R4", "the archive test and member conversion cannot panic (P restricted to is_zip_archive / has_extension / to_file_info)",
     lambda ctx: __import__("c10").r1(ctx, only=lambda s: any(s.fn == f or s.fn.startswith(f + "::") for f in
                 ("util::has_extension", "searcher::Searcher::is_zip_archive", "fileinfo::to_file_info")), rule_prefix="archive-")),
    ("C19-R5", "a member's modification time is the stored wall-clock time, not resolved through the time zone", lambda ctx: r5(ctx)),
    ("X-CONFIG", "a setting read from both configurations is the user's value when present, the built-in default otherwise [shared]", lambda ctx: __import__("extra2").user_config_wins(ctx)),
    ("X-PIPELINE", "archive members go through the per-entry pipeline with their own record (filter, count, row, sort keys) [shared]", lambda ctx: __import__("cfile").pipeline(ctx)),
    ("X-ROOTS", "root options: defaults, per-root binding, options kept when a regexp root is expanded (archives, symlinks, depth window) [shared]", lambda ctx: __import__("extra").root_defaults(ctx)),
    ("C04-R3", "permission / file-type columns of a member come from the member's own stored mode (check_file_mode on entry / member with / without mode) [shared with C04]", lambda ctx: __import__("c04").r3(ctx)),
]

EXPLANATION = (
    "Static structural necessary conditions of C19: the member loop iterates 0..archive.len(), reads member i with "
    "by_index(i), converts it with to_file_info and hands it with the archive's entry to check_file; it sits inside "
    "the reporting gate, behind `archives && zip extension`, with open / ZipArchive::new / by_index consumed by "
    "`if let Ok` (a corrupt archive skips, never aborts), after the archive's own row, and is left only at LIMIT "
    "(unbuffered, C06-R2) or on a closed pipe; FileInfo takes name, uncompressed size, unix mode and last-modified "
    "from the member; every column declared available for members has an arm that reads the member, unavailable "
    "columns return empty before the match; member name/path are printed `[archive] member`. Zip parsing and the "
    "clock-dependent to_local_datetime are not decided."
    ' The archive branch adds no way out of the entry loop (exit-class whitelist shared with C01).')
ASSUMPTIONS = ["rustc's HIR faithfully represents the source; exporter and rule scripts are correct",
               "zip::ZipArchive enumerates each member exactly once for indices 0..len()"]
NOT_DECIDED = ["zip parsing", "to_local_datetime (with_month/with_day chain on Local::now() is clock dependent)", "rows on real archives"]


def r5(ctx):
    """the stored modification time of a member is its wall-clock time as stored (a zip timestamp has no zone): it is copied
    field by field and never resolved through the local time zone, where the skipped or repeated hour of a DST switch has
    no unique answer.  to_local_datetime evaluated (finite interpreter; chrono mocked by contract: a naive date-time is its
    six fields, Local.with_ymd_and_hms is Ambiguous off midnight) on three stored times"""
    import interp
    name = "util::datetime::to_local_datetime"
    h = ctx.anchor_hir(name)
    ps = ctx.prog.fns[name]["params"]
    n = 0
    for stored in ((2024, 3, 31, 2, 30, 0), (2024, 10, 27, 2, 30, 59), (1999, 12, 31, 23, 59, 58)):
        def call(node, recv, args, it, env, stored=stored):
            callee = str(node.get("callee", ""))
            m = node.get("m")
            if isinstance(recv, dict) and "__zip" in recv and m in ("year", "month", "day", "hour", "minute", "second"):
                return (stored[("year", "month", "day", "hour", "minute", "second").index(m)],)
            if callee.endswith("Local::now") or callee.endswith("Utc::now"):
                return ({"__naive": [2000, 1, 1, 12, 0, 0]},)
            if m in ("naive_local", "naive_utc") and isinstance(recv, dict) and "__naive" in recv:
                return (recv,)
            if m in ("with_year", "with_month", "with_day", "with_hour", "with_minute", "with_second") and isinstance(recv, dict) and "__naive" in recv and args:
                f = list(recv["__naive"])
                f[("with_year", "with_month", "with_day", "with_hour", "with_minute", "with_second").index(m)] = args[0]
                return (interp.some({"__naive": f}),)
            if m == "with_ymd_and_hms" and len(args) == 6:
                dt = {"__naive": list(args)}
                if tuple(args[3:]) == (0, 0, 0):
                    return (interp.V("LocalResult::Single", [dt]),)
                return (interp.V("LocalResult::Ambiguous", [dt, {"__naive": list(args), "__later": True}]),)
            if callee.endswith("from_ymd_opt") and len(args) == 3:
                return (interp.some({"__date": list(args)}),)
            if m == "and_hms_opt" and isinstance(recv, dict) and "__date" in recv and len(args) == 3:
                return (interp.some({"__naive": recv["__date"] + list(args)}),)
            if callee.endswith("NaiveDateTime::default") or callee.endswith("Default::default"):
                return ({"__naive": [1970, 1, 1, 0, 0, 0]},)
            if callee.endswith("NaiveDateTime::new") and len(args) == 2 and all(isinstance(a, dict) for a in args):
                return ({"__naive": args[0].get("__date", [0, 0, 0]) + args[1].get("__time", [0, 0, 0])},)
            if callee.endswith("from_hms_opt") and len(args) == 3:
                return (interp.some({"__time": list(args)}),)
            return None
        n += 1
        try:
            got = interp.Interp(call=call, prog=ctx.prog).run(h, {ps[0]["id"]: {"__zip": True}})
            val = tuple(got["__naive"]) if isinstance(got, dict) and "__naive" in got else got
            ok = val == stored
            why = "a member stored at %s gets %s" % (stored, val)
        except interp.Undecided as e:
            ok, why = False, "cannot evaluate to_local_datetime: %s" % e
        ctx.obligation(ok)
        if not ok:
            ctx.violation("member-time", ctx.where(name), "the modification time of an archive member must be the stored wall-clock time, field by field (not resolved "
                          "through the time zone: the hour skipped or repeated at a DST switch has no unique answer there): %s" % why)
            break
    ctx.covered("to_local_datetime evaluated on three stored timestamps (two inside DST switches)", n, distinct_keys=["gap", "fold", "ordinary"], exhaustive=True)
