"""C20 — ignore-file options remove exactly the ignored entries (static necessary conditions)."""
import itertools
import re

from hirq import *  # noqa: F401,F403
from core import Abort
import c12

VISIT_DIR = "searcher::Searcher::visit_dir"
LSR = "searcher::Searcher::list_search_results"
TRANSLATORS = {
    "ignore::docker::convert_dockerignore_glob": ("glob", {"**": ".*", "*": "[^/]*", "?": "[^/]", ".": "\\."}),
    "ignore::hg::convert_hgignore_glob": ("glob", {"**": ".*", "*": "[^/]*", "?": "[^/]", ".": "\\."}),
    "ignore::hg::convert_hgignore_regexp": ("regexp", None),
}


def r1(ctx):
    """option precedence: root option, else configuration default, else off"""
    hir = ctx.anchor_hir(LSR)
    n = 0
    for opt in ("gitignore", "hgignore", "dockerignore"):
        lets = [x for x in walk(hir) if x["k"] == "Let" and x["pat"].get("name") == "apply_" + opt]
        ok = len(lets) == 1
        why = None
        if ok:
            # evaluated (finite interpreter) on the 3 x 3 settings of (root option, configuration default), with every other
            # option set to the opposite value so that a mixed-up name is seen
            import interp
            others = [o for o in ("gitignore", "hgignore", "dockerignore") if o != opt]
            vals = {None: interp.NONE, True: interp.some(True), False: interp.some(False)}
            for ro in (None, True, False):
                for cf in (None, True, False):
                    want = ro if ro is not None else (cf if cf is not None else False)
                    other = interp.some(not want)
                    root = {"options": dict({o: other for o in others}, **{opt: vals[ro]})}
                    selfv = {"config": dict({o: other for o in others}, **{opt: vals[cf]}), "default_config": dict({o: other for o in others}, **{opt: other})}
                    try:
                        got = interp.eval_in(hir, lets[0]["init"], {"root": root, "self": selfv}, prog=ctx.prog)
                    except interp.Undecided as e:
                        ok, why = False, "cannot evaluate: %s" % e
                        break
                    n += 1
                    if got != want:
                        ok, why = False, "root option %s, configuration %s -> %s" % (ro, cf, got)
                        break
                if not ok:
                    break
        ctx.obligation(ok)
        if not ok:
            ctx.violation("precedence/%s" % opt, ctx.where(LSR),
                          "apply_%s must be the root's option, else the configuration default, else false; found `%s` (%s)" %
                          (opt, render(lets[0]["init"])[:120] if lets else None, why))
    # the computed flags reach visit_dir in their own positions
    top = [c for c in walk_exprs(hir) if c["k"] == "MCall" and c["m"] == "visit_dir"]
    ps = [p.get("name") for p in ctx.prog.fn(VISIT_DIR)["params"]]
    if len(top) == 1:
        for i, a in enumerate(top[0]["args"]):
            ra = render(a)
            if ra.startswith("apply_"):
                n += 1
                ok = ps[i + 1] == ra
                ctx.obligation(ok)
                if not ok:
                    ctx.violation("precedence/argument/%s" % ra, ctx.where(LSR, top[0]), "`%s` is passed as visit_dir's `%s`" % (ra, ps[i + 1]))
    # filters are loaded when their option is on
    for opt, fn in (("hgignore", "search_upstream_hgignore"), ("dockerignore", "search_upstream_dockerignore")):
        cs = [c for c in walk_exprs(hir) if c["k"] == "Call" and str(c.get("callee", "")).endswith(fn)]
        locs_ = Locals(hir)
        defs_ = [render(d) for i_, d in locs_.defs.items() if i_.split(":")[1] == "apply_" + opt]
        ok = len(cs) == 1 and any(t[0] == "if" and t[2] and render(t[1]) in ["apply_" + opt] + defs_ for t in guards_of(hir, cs[0])) and \
            opt in render(cs[0]["args"][0])
        n += 1
        ctx.obligation(ok)
        if not ok:
            ctx.violation("precedence/load/%s" % opt, ctx.where(LSR), "the %s filters must be loaded exactly when the option applies, into their own filter list" % opt)
    ctx.covered("ignore option precedence, argument positions and filter loading", n, distinct_keys=["git", "hg", "docker"])


def r2(ctx):
    """an ignored entry is neither reported nor entered; the ignore verdict formula"""
    hir = ctx.anchor_hir(VISIT_DIR)
    n = 0
    for c in walk_exprs(hir):
        if c["k"] == "MCall" and c["m"] in ("check_file", "push_back", "visit_dir"):
            gs = guards_of(hir, c)
            if not any(t[0] == "match" and "read_dir" in render(t[1]) for t in gs):
                continue
            n += 1
            ok = any(t[0] == "if" and t[2] and render(t[1]) == "pass_ignores" for t in gs)
            ctx.obligation(ok)
            if not ok:
                ctx.violation("ignored/%s-outside-gate" % c["m"], ctx.where(VISIT_DIR, c), "`%s` of a directory entry is not inside `if pass_ignores`: ignored entries would be %s" %
                              (c["m"], "reported" if c["m"] == "check_file" else "entered"))
    ctx.floor(n, 4, "report/descent sites in the directory loop", VISIT_DIR)
    import extra
    res, has_git, err = extra.pass_ignores_table(ctx)
    if res is None:
        ctx.violation("ignored/formula-shape", ctx.where(VISIT_DIR), err)
        raise Abort()
    tbl, asked, _ = res
    m = 0
    bad = []
    for (ag, ah, ad, mg, mh, md, repo), got in tbl.items():
        want = not ((ag and repo and mg) or (ah and mh) or (ad and md))
        m += 1
        ctx.obligation(got == want)
        if got != want:
            bad.append({k: v for k, v in (("gitignore", ag), ("hgignore", ah), ("dockerignore", ad), ("git ignores", mg), ("hg filter matches", mh),
                                          ("docker filter matches", md), ("repository", repo)) if v})
    if bad:
        ctx.violation("ignored/formula", ctx.where(VISIT_DIR),
                      "an entry must pass exactly when no enabled tool ignores it; the verdict differs e.g. for %s" % bad[0])
    # git's verdict is asked for the canonical path as well (a walked path like ./x is reported as ignored by libgit2)
    if has_git:
        okg = asked["git"] == {"<canonical>"}
        ctx.obligation(okg)
        if not okg:
            ctx.violation("ignored/filter-args/is_path_ignored", ctx.where(VISIT_DIR), "git's ignore verdict must be asked for the entry's canonical path; it is asked for %s" % sorted(asked["git"]))
    ctx.covered("ignore verdict of visit_dir evaluated on all settings of (option on, tool matches) x 3 tools x repository present", m,
                distinct_keys=["assignments:%d" % m], exhaustive=True)
    for tool, lst in (("hg", "<hg filters>"), ("docker", "<docker filters>")):
        ok = asked[tool] == {(lst, "<canonical>")}
        ctx.obligation(ok)
        if not ok:
            ctx.violation("ignored/filter-args/matches_%signore_filter" % tool, ctx.where(VISIT_DIR),
                          "the %s filter must be asked with its own filter list and the entry's canonical path; it is asked with %s" % (tool, sorted(asked[tool])))


def r3(ctx):
    """regex hygiene of the three translators"""
    for fn, (kind, table) in TRANSLATORS.items():
        hir = ctx.anchor_hir(fn)
        name = short(fn, 1)
        ps = [p.get("name") for p in ctx.prog.fn(fn)["params"]]
        path_param = ps[1]
        uses = [x for x in walk_exprs(hir) if x["k"] == "Path" and x.get("name") == path_param]
        esc = calls_to(hir, "regex::escape")
        inside = set()
        for e in esc:
            for y in walk_exprs(e):
                if y["k"] == "Path" and y.get("name") == path_param:
                    inside.add(id(y))
        # locals derived from the path (let path = file_path....) count as the path
        derived = {x["pat"]["id"] for x in walk(hir) if x["k"] == "Let" and x["pat"]["k"] == "Bind" and "init" in x and
                   any(y["k"] == "Path" and y.get("name") == path_param for y in walk_exprs(x["init"])) and "escape" not in render(x["init"])}
        for e in esc:
            for y in walk_exprs(e):
                if y["k"] == "Path" and y.get("res") in derived:
                    inside.add(y.get("res"))
        raw_uses = [u for u in uses if id(u) not in inside and not any(u in list(walk_exprs(x.get("init", {"k": "x"}))) for x in walk(hir) if x["k"] == "Let" and x["pat"].get("id") in derived)]
        derived_raw = [y for y in walk_exprs(hir) if y["k"] == "Path" and y.get("res") in derived and not any(y in list(walk_exprs(e)) for e in esc)]
        ok = bool(esc) and not raw_uses and not derived_raw
        ctx.obligation(ok)
        if not ok:
            ctx.violation("regex-hygiene/%s/path-unescaped" % name, ctx.where(fn),
                          "the directory of the ignore file reaches the regular expression without regex::escape: under a "
                          "path containing regex metacharacters no pattern matches")
        if table is not None:
            best = None
            for m in find_matches(hir, min_arms=3):
                t = {}
                for a in match_arms(m):
                    r = peel_result(a["body"])
                    v = r["v"] if r["k"] == "Lit" else "error_exit"
                    for k in a["keys"]:
                        kk = "<default>" if k == "_" else (k[1] if k[0] == "lit" else str(k))
                        t.setdefault(kk, v)
                if "*" in t:
                    best = t
            if best is None:
                ctx.violation("glob-table/%s/anchor" % name, ctx.where(fn), "glob translation table not found")
            else:
                for ch, rep in table.items():
                    ok = best.get(ch) == rep
                    ctx.obligation(ok)
                    if not ok:
                        ctx.violation("glob-table/%s/%s" % (name, ch), ctx.where(fn), "glob token `%s` is translated to %r, expected %r" % (ch, best.get(ch), rep))
            # every path of the assembled pattern must be end-anchored
            lits = [str(peel(c["args"][0])["v"]) for c in walk_exprs(hir) if c["k"] == "MCall" and c["m"] in ("add", "push_str", "push")
                    and c["args"] and peel(c["args"][0])["k"] == "Lit"]
            tm = [t for t, _ in fmt_templates(hir)]
            anchored = any(l.endswith("$") or l.endswith("$)") for l in lits + tm)
            # an anchor that stops the match right after the pattern also stops it covering what lies *below* a matched
            # directory (`build` must keep omitting build/out.bin when the search starts inside build): the end must admit `/..`
            bare = [l for l in lits + tm if l.endswith("$") and not re.search(r"(\(/\|\$\)|\(\$\|/\)|\(/\.\*\)\?\$|\(\?:/\.\*\)\?\$|\(/\|\$\))$", l)]
            ctx.obligation(not bare)
            if bare:
                ctx.violation("regex-hygiene/%s/end-anchor-cuts-descendants" % name, ctx.where(fn),
                              "the assembled pattern ends with a bare `$` (%r): a pattern naming a directory no longer covers the entries below it, so a search "
                              "rooted inside an ignored directory lists everything" % bare[0])
            ctx.obligation(anchored)
            if not anchored:
                ctx.violation("regex-hygiene/%s/end-anchor" % name, ctx.where(fn),
                              "the assembled pattern has no end anchor: a pattern also omits every entry whose path merely starts with a match")
        # the assembled pattern = escaped dir + separator + translated pattern, compiled by Regex::new
        rn = calls_to(hir, "Regex::new")
        ok = len(rn) == 1 and "pattern" in render(rn[0]["args"][0])
        ctx.obligation(ok)
        if not ok:
            ctx.violation("regex-hygiene/%s/compile" % name, ctx.where(fn), "the assembled pattern must be compiled once by Regex::new")
    ctx.covered("ignore translators: path escaping, glob token table, end anchor, compilation", 3 * 3 + 8,
                distinct_keys=list(TRANSLATORS))


def load_ignore_file(ctx, fn, tool):
    """-> (list of (pattern line, syntax name or None) the loader produces, None) or (None, reason)"""
    import interp
    OK, ERR = (lambda x: interp.V("Result::Ok", [x])), (lambda x: interp.V("Result::Err", [x]))
    bad_line = ERR(interp.Opaque("stream did not contain valid UTF-8"))
    if tool == "hg":
        # (a file may return to a syntax it used before, and may name a pattern twice)
        lines = [OK("syntax: glob"), OK("# generated"), bad_line, OK(""), OK("*.tmp"), OK("   "), OK("syntax: regexp"), OK("^a"), OK("syntax: glob"), OK("*.bak"), OK("*.tmp")]
    else:
        lines = [OK("# generated"), OK(""), bad_line, OK("*.log"), OK("   "), OK("!keep.log")]

    def text():
        return "\n".join(l.args[0] if l.name == "Result::Ok" else "\ufffd" for l in lines) + "\n"

    def call(node, recv, args, it, env):
        callee = str(node.get("callee", ""))
        m = node.get("m")
        if callee.endswith("File::open") or callee.endswith("fs::File::open"):
            return (OK({"__file": True}),)
        if callee.endswith("BufReader<R>::new") or callee.endswith("BufReader::new") or callee.endswith("BufReader<R>::with_capacity"):
            return ({"__reader": True},)
        if m == "lines" and isinstance(recv, dict) and "__reader" in recv:
            return (list(lines),)
        if m == "lines" and isinstance(recv, str):
            return (recv.split("\n")[:-1] if recv.endswith("\n") else recv.split("\n"),)
        if callee.endswith("fs::read_to_string"):
            # the whole file or nothing: one undecodable byte fails the read
            return (ERR(interp.Opaque("stream did not contain valid UTF-8")),)
        if m == "read_to_string" and isinstance(recv, dict) and ("__file" in recv or "__reader" in recv):
            return (ERR(interp.Opaque("stream did not contain valid UTF-8")),)
        if callee.endswith("fs::read"):
            return (OK({"__bytes": True}),)
        if m == "read_to_end" and isinstance(recv, dict) and ("__file" in recv or "__reader" in recv):
            for a in args:
                if isinstance(a, list):
                    a.append({"__bytes": True})
            return (OK(1),)
        if callee.endswith("String::from_utf8_lossy") and args and (isinstance(args[0], dict) or (isinstance(args[0], list) and args[0] and isinstance(args[0][0], dict))):
            return (text(),)
        if callee.endswith("String::from_utf8") or callee.endswith("str::from_utf8"):
            return (ERR(interp.Opaque("invalid utf-8")),)
        if callee.endswith("convert_dockerignore_pattern") or callee.endswith("convert_hgignore_pattern"):
            args = [a.get() if isinstance(a, (interp.LocalRef, interp.ElemRef)) else a for a in args]
            syn = [a for a in args if isinstance(a, interp.V) and a.name.startswith("Syntax::")]
            return (OK({"__pat": args[0], "__syn": syn[0].name.split("::")[-1] if syn else None}),)
        if m in ("to_string_lossy", "display"):
            return ("<path>",)
        return None

    def effect(node, it, env):
        if node.get("mac") in ("eprintln", "eprint") or "_eprint" in str(node.get("callee", "")):
            return ()
        return None
    h = ctx.anchor_hir(fn)
    ps = ctx.prog.fns[fn]["params"]
    try:
        got = interp.Interp(call=call, effect=effect, prog=ctx.prog, max_steps=40000).run(h, {p["id"]: interp.Opaque(p.get("name") or "?") for p in ps})
    except interp.Undecided as e:
        return None, str(e)
    if not (isinstance(got, interp.V) and got.name == "Result::Ok" and isinstance(got.args[0], list)):
        return [repr(got)], None
    return [(x.get("__pat"), x.get("__syn")) if isinstance(x, dict) else repr(x) for x in got.args[0]], None


def r4(ctx):
    """hg / docker filter verdicts: any match ignores; docker negation re-includes"""
    # both verdict functions are evaluated (finite interpreter) on every list of up to three filters, each described by
    # (its regex matches the path, it is a negation): hg = some pattern matches; docker = some pattern matches and no
    # matching pattern is a negation
    import interp
    import itertools

    def call(node, recv, args, it, env):
        if node.get("m") == "is_match" and isinstance(recv, dict) and "__m" in recv:
            return (recv["__m"],)
        if node.get("m") in ("to_string", "replace", "as_str", "to_owned") and isinstance(recv, str):
            return (recv,)
        return None
    for fn, key, docker in (("ignore::hg::matches_hgignore_filter", "verdict/hg", False), ("ignore::docker::matches_dockerignore_filter", "verdict/docker-negation", True)):
        h = ctx.anchor_hir(fn)
        ps = ctx.prog.fns[fn]["params"]
        bad = None
        cnt = 0
        kinds = [(m_, n_) for m_ in (False, True) for n_ in ((False, True) if docker else (False,))]
        for k in range(4):
            for combo in itertools.product(kinds, repeat=k):
                filters = [{"regex": {"__m": m_}, "negate": n_} for m_, n_ in combo]
                try:
                    got = interp.Interp(call=call).run(h, {ps[0]["id"]: filters, ps[1]["id"]: "/dir/file"})
                except interp.Undecided as e:
                    bad = "cannot evaluate %s: %s" % (short(fn, 1), e)
                    break
                cnt += 1
                want = any(m_ for m_, n_ in combo) and not any(m_ and n_ for m_, n_ in combo)
                if got != want:
                    bad = "for the filters %s (matches, negated) the verdict is %s" % (list(combo), got)
                    break
            if bad:
                break
        ctx.obligation(bad is None)
        if bad:
            ctx.violation(key, ctx.where(fn), ("a matching negated pattern must re-include the entry" if docker else "an entry is hg-ignored exactly when some pattern matches it") + " (%s)" % bad)
    # `!` prefix sets negate and is stripped
    ch = ctx.anchor_hir("ignore::docker::convert_dockerignore_pattern")
    ok = any(x["k"] == "If" and 'starts_with("!")' in render(x["c"]) and any(y["k"] == "Assign" and render(y["l"]) == "negate" and render(y["r"]) == "true" for y in walk_exprs(x["t"])) for x in walk_exprs(ch))
    ctx.obligation(ok)
    if not ok:
        ctx.violation("verdict/docker-bang", ctx.where("ignore::docker::convert_dockerignore_pattern"), "a leading `!` must mark the pattern as a negation")
    # the loaders, evaluated on a small ignore file (finite interpreter; the file system and the pattern translators are
    # stand-ins): comment and blank lines are skipped, every other line becomes one pattern, in file order, and a line that
    # cannot be decoded (bytes that are not UTF-8, e.g. a Latin-1 comment) costs that line only - not the rest of the file
    for fn, tool in (("ignore::docker::parse_dockerignore", "docker"), ("ignore::hg::parse_hgignore", "hg")):
        got, why = load_ignore_file(ctx, fn, tool)
        want = [("*.tmp", "Glob"), ("^a", "Regexp"), ("*.bak", "Glob"), ("*.tmp", "Glob")] if tool == "hg" else [("*.log", None), ("!keep.log", None)]
        # a pattern named twice may be kept once (the verdict is the same); the syntax in force for each pattern is what counts
        dedup_ = lambda l_: list(dict.fromkeys(l_)) if isinstance(l_, list) else l_
        ok = got == want or (tool == "hg" and dedup_(got) == dedup_(want))
        ctx.obligation(ok)
        if not ok:
            if why:
                ctx.violation("verdict/loader/%s/unreadable" % short(fn, 1), ctx.where(fn), "cannot evaluate %s on an ignore file: %s" % (short(fn, 1), why))
            else:
                ctx.violation("verdict/loader/%s" % short(fn, 1), ctx.where(fn),
                              "from an ignore file with a comment, blank lines, one undecodable line and the patterns %s, %s yields the patterns %s: comment and blank "
                              "lines must be skipped, an undecodable line must cost only itself, every other line is one pattern, in file order" %
                              ([w[0] for w in want], short(fn, 1), got))
    # hg syntax directive: evaluated on the two documented words and on an unknown one
    sfn = "ignore::hg::Syntax::from"
    sh = ctx.anchor_hir(sfn)
    pid = ctx.prog.fns[sfn]["params"][0]["id"]
    t = {}
    for w in ("regexp", "glob", "shell"):
        try:
            t[w] = repr(interp.Interp().run(sh, {pid: w}))
        except interp.Undecided as e:
            t[w] = "undecided: %s" % e
    ok = t["regexp"] == "Result::Ok(Syntax::Regexp)" and t["glob"] == "Result::Ok(Syntax::Glob)" and t["shell"].startswith("Result::Err")
    ctx.obligation(ok)
    if not ok:
        ctx.violation("verdict/hg-syntax", ctx.where(sfn), "`syntax: regexp|glob` must select the matching translator: %s" % t)
    ctx.covered("filter verdict functions, negation, comment skipping, hg syntax directive", 6, distinct_keys=["hg", "docker-neg", "bang", "comments", "syntax"])


RULES = [
    ("C20-R1", "option precedence and plumbing", r1),
    ("C20-R2", "ignored entries are neither reported nor entered; verdict formula", r2),
    ("C20-R3", "regex hygiene of the hg / docker translators", r3),
    ("C20-R4", "filter verdicts, negation, comments, syntax directive", r4),
    ("C11-R2", "ignore option words (git/hg/dock, no*) and their effects [shared with C11]", lambda ctx: __import__("c11").r2(ctx)),
    ("C20-R5", "the repository of a root is found by upward search (Repository::discover)", lambda ctx: __import__("extra2").repository_discovered_upwards(ctx)),
    ("X-CANON", "util::canonical_path answers with the path resolved by fs::canonicalize (no shortcut for paths that look canonical) [shared]", lambda ctx: __import__("extra2").canonical_path_is_canonical(ctx)),
    ("C20-R6", "ignore patterns are anchored at the directory holding the ignore file", lambda ctx: r6(ctx)),
    ("X-ROOTS", "root options: defaults, per-root binding, options kept when a regexp root is expanded (archives, symlinks, depth window) [shared]", lambda ctx: __import__("extra").root_defaults(ctx)),
    ("C01-R4", "nested visits (recursion, queue) pass every parameter on in its own position: the ignore switches of a root reach every level [shared with C01]", lambda ctx: __import__("c01").r4(ctx)),
]

EXPLANATION = (
    "Static structural necessary conditions of C20: apply_X = root option X, else configuration default X, else "
    "false, passed in its own position; report and descent sites of the directory loop are inside `if pass_ignores`; "
    "the ignore verdict, extracted as a Boolean formula over (option on, tool matches) for the three tools, equals "
    "`no enabled tool ignores the entry` on all 64 assignments; hg/docker filters are applied to the canonical path "
    "with their own filter list; the translators pass the ignore file's directory through regex::escape, translate "
    "** * ? . as documented and compile once; a docker negation re-includes; comment/blank lines are skipped; the hg "
    "syntax directive selects the translator. git's verdict (libgit2), the full glob dialects, negation order and "
    "nested ignore files are not decided.")
ASSUMPTIONS = ["rustc's HIR faithfully represents the source; exporter and rule scripts are correct",
               "git2::Repository::is_path_ignored implements git's rules"]
NOT_DECIDED = ["git's verdict (libgit2)", "the complete glob dialects of hg and docker (character classes, escapes)",
               "order sensitivity of negated docker patterns", "ignore files in sub-directories of the root"]


def r6(ctx):
    """the patterns of an ignore file are anchored at the directory that holds the file: in the call parse_hgignore(file, dir)
    / parse_dockerignore(file, dir), `file` is `dir.join("<name>")` — followed through the parameters of the helper that makes
    the call up to the search for the file"""
    import sem
    n = 0
    for tool, parse_fn, fname in (("hg", "ignore::hg::parse_hgignore", ".hgignore"), ("docker", "ignore::docker::parse_dockerignore", ".dockerignore")):
        sites = []
        for name in sorted(ctx.prog.fns):
            if not name.startswith("ignore::%s::" % tool) or "{closure" in name:
                continue
            h = ctx.prog.hir(name)
            if h is None:
                continue
            for c in walk_exprs(h):
                if c["k"] == "Call" and str(c.get("callee", "")) == parse_fn and len(c["args"]) == 2:
                    sites.append((name, h, c))
        # an included file is parsed by a recursive call with the same directory (in the parser itself or in a helper split off it)
        sites = [st for st in sites if st[0] != parse_fn and parse_fn not in ctx.prog.owners(st[0])]
        if not sites:
            ctx.violation("ignore-dir/%s/anchor" % tool, "ignore::%s" % tool, "call of %s not found" % short(parse_fn, 1))
            continue
        for name, h, c in sites:

            def resolve_root(fn_name, hir, expr, depth=0):
                """(function, id of the local the expression is rooted in), parameters followed to the single caller's argument"""
                r = sem.root_res(expr, Locals(hir))
                ps = ctx.prog.fns[fn_name].get("params", [])
                ids = [q.get("id") for q in ps]
                if r in ids and depth < 3:
                    idx = ids.index(r)
                    callers = []
                    for cn in sorted(ctx.prog.fns):
                        if "{closure" in cn:
                            continue
                        ch = ctx.prog.hir(cn)
                        if ch is None:
                            continue
                        for cc in walk_exprs(ch):
                            if cc["k"] == "Call" and str(cc.get("callee", "")) == fn_name and len(cc["args"]) == len(ps):
                                callers.append((cn, ch, cc))
                    if len(callers) == 1:
                        cn, ch, cc = callers[0]
                        return resolve_root(cn, ch, cc["args"][idx], depth + 1)
                return fn_name, r

            def file_expr(fn_name, hir, expr, depth=0):
                """the expression the file argument is defined by (`X.join(name)`), through lets and parameters"""
                locs = Locals(hir)
                e = peel(locs.chase(peel(expr)))
                ps = ctx.prog.fns[fn_name].get("params", [])
                ids = [q.get("id") for q in ps]
                if e["k"] == "Path" and e.get("rk") == "Local" and e["res"] in ids and depth < 3:
                    idx = ids.index(e["res"])
                    for cn in sorted(ctx.prog.fns):
                        ch = ctx.prog.hir(cn) if "{closure" not in cn else None
                        if ch is None:
                            continue
                        for cc in walk_exprs(ch):
                            if cc["k"] == "Call" and str(cc.get("callee", "")) == fn_name and len(cc["args"]) == len(ps):
                                return file_expr(cn, ch, cc["args"][idx], depth + 1)
                return fn_name, hir, e
            ffn, fh, fe_p = file_expr(name, h, c["args"][0])
            n += 1
            ok = False
            why = "file = `%s` (in %s), directory = `%s`" % (render(fe_p)[:60], short(ffn, 1), render(c["args"][1])[:60])
            if fe_p["k"] == "MCall" and fe_p["m"] == "join" and fe_p["args"] and peel(fe_p["args"][0]).get("v") == fname:
                base = resolve_root(ffn, fh, fe_p["recv"])
                droot = resolve_root(name, h, c["args"][1])
                ok = base[1] is not None and base == droot
                why += "; the file is looked for below %s, the patterns are anchored at %s" % (base, droot)
            ctx.obligation(ok)
            if not ok:
                ctx.violation("ignore-dir/%s" % tool, ctx.where(name, c),
                              "the patterns of %s must be anchored at the directory that holds the file (`dir.join(%r)` and `dir` of the same place); found %s: "
                              "searched from a sub-directory, patterns with a directory part no longer match" % (fname, fname, why))
    ctx.covered("directory prefix handed to the ignore-file parsers = the directory holding the file", n, distinct_keys=["hg", "docker"])
