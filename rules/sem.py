"""Shared semantic extraction: the comparison tables of Searcher::conforms, evaluated over order types."""
from hirq import *  # noqa: F401,F403
from core import Abort as Abort_

CONFORMS = "searcher::Searcher::conforms"

ORD3 = ["lt", "eq", "gt"]          # relation of subject x to literal l
ORD3_ENV = {"lt": {"x": 0, "l": 1}, "eq": {"x": 1, "l": 1}, "gt": {"x": 2, "l": 1}}

SPEC3 = {
    "Eq": {"eq"}, "Eeq": {"eq"},
    "Ne": {"lt", "gt"}, "Ene": {"lt", "gt"},
    "Gt": {"gt"}, "Gte": {"eq", "gt"},
    "Lt": {"lt"}, "Lte": {"lt", "eq"},
}


def root_res(n, locs, limit=12, stop=()):
    """resolved id of the local an expression chain starts from, chasing single-assignment lets as long as
    their initialiser is itself a chain rooted in a local"""
    while limit > 0:
        limit -= 1
        n = peel(n)
        k = n["k"]
        if k == "Path":
            if n.get("rk") != "Local":
                return None
            if locs is not None and n["res"] in locs.defs and n["res"] not in stop:
                r = root_res(locs.defs[n["res"]], locs, limit, stop)
                return r if r is not None else n["res"]
            if locs is not None and n["res"] in getattr(locs, "payload_defs", {}) and n["res"] not in stop:
                r = root_res(locs.payload_defs[n["res"]], locs, limit, stop)
                return r if r is not None else n["res"]
            return n["res"]
        if k == "MCall":
            n = n["recv"]
        elif k in ("Field", "Index", "Cast", "Un"):
            n = n["e"]
        else:
            return None
    return None


class Conforms:
    """the comparison part of Searcher::conforms"""

    def __init__(self, ctx):
        self.ctx = ctx
        self.hir = ctx.anchor_hir(CONFORMS)
        self.locs = Locals(self.hir)
        self.side = {}      # local id -> 'x' (entry attribute side) | 'l' (literal side)
        for x in walk(self.hir):
            if x["k"] == "Let" and x["pat"]["k"] == "Bind" and "init" in x:
                init = peel(x["init"])
                if init["k"] == "MCall" and init["m"] == "get_column_expr_value" and init["args"]:
                    last = render(init["args"][-1])
                    if ".left" in last:
                        self.side[x["pat"]["id"]] = "x"
                    elif ".right" in last:
                        self.side[x["pat"]["id"]] = "l"
        ms = find_matches(self.hir, lambda s: s["k"] == "MCall" and s["m"] == "get_type")
        if len(ms) != 1 or set(self.side.values()) != {"x", "l"}:
            ctx.violation("anchor/conforms-shape", CONFORMS,
                          "cannot find the per-type comparison match of `conforms` (one match on get_type() and the "
                          "two operand evaluations of expr.left / expr.right); failing closed")
            raise Abort_()
        self.type_match = ms[0]
        self.arms = {}
        for a in match_arms(self.type_match):
            for k in a["keys"]:
                self.arms[key_name(k).split("::")[-1]] = a["body"]
        # tuple destructuring `let (start, finish) = value.to_datetime()`
        self.tuple_side = {}
        for x in walk(self.hir):
            if x["k"] == "Let" and x["pat"]["k"] == "PTup" and "init" in x:
                r = root_res(x["init"], self.locs, stop=self.side)
                if self.side.get(r) == "l":
                    for i, s in enumerate(x["pat"]["subs"]):
                        if s["k"] == "Bind":
                            self.tuple_side[s["id"]] = "ab"[i] if i < 2 else None

    def op_table(self, vt):
        """op variant name -> boolean body, for the `match op` of one VariantType arm"""
        body = self.arms.get(vt)
        if body is None:
            return None, None
        ms = [m for m in find_matches(body) if
              any(key_name(k).startswith("Op::") for a in match_arms(m) for k in a["keys"])]
        if not ms:
            return None, None
        m = ms[0]
        t = {}
        for a in match_arms(m):
            for k in a["keys"]:
                kn = key_name(k)
                t[kn.split("::")[-1] if kn != "_" else "_"] = a["body"]
        return t, m

    def leaf3(self, n):
        r = root_res(n, self.locs, stop=self.side)
        if r in self.tuple_side:
            return self.tuple_side[r]
        s = self.side.get(r)
        return s

    def truth3(self, vt):
        """op -> set of order types (x ? l) on which the arm is true; None if not extractable"""
        try:
            t, m = self.op_table(vt)
            if t is None:
                return None, None
            ev = Evaluator(self.leaf3, self.locs)
            out = {}
            for op, body in t.items():
                s = set()
                for o in ORD3:
                    if ev.boolean(body, ORD3_ENV[o]):
                        s.add(o)
                out[op] = s
            return out, m
        except NotComparison as e:
            # the arm is not a table of plain comparisons (a helper deciding on an Ordering ..): the same table by
            # evaluation of conforms on one pair of operands per order type (rules/conf.py)
            if vt not in ("Int", "Float"):
                raise
            import conf
            import interp
            run = conf.Run(self.ctx)
            out = {}
            try:
                for op in list(SPEC3) + ["Like"]:
                    s = set()
                    for o, a in (("lt", 1), ("eq", 2), ("gt", 3)):
                        left = conf.variant(str(a), vt, int_value=a, float_value=float(a))
                        got, _tr = run.run(op, left, conf.variant("2"))
                        if got is True:
                            s.add(o)
                        elif got is not False:
                            raise NotComparison("%s; evaluation of %s gives %r" % (e, op, got))
                    out["_" if op == "Like" else op] = s
            except interp.Undecided as e2:
                raise NotComparison("%s; not evaluable either: %s" % (e, e2))
            return out, self.hir




# ------------------------------------------------------------------------------------------
# BETWEEN desugaring in parse_cond

PARSE_COND = "parser::Parser::parse_cond"


class _LazyEnv(dict):
    """interpreter environment: boolean locals named in `flags` take the given value, other single-assignment locals are
    evaluated from their definition on demand"""

    def __init__(self, it, locs, flag_value):
        dict.__init__(self)
        self.it, self.locs, self.flag_value = it, locs, flag_value
        self.flag_names = set()

    def child(self):
        c = _LazyEnv(self.it, self.locs, self.flag_value)
        c.flag_names = self.flag_names
        dict.update(c, dict.items(self))
        return c

    def __contains__(self, key):
        if dict.__contains__(self, key):
            return True
        try:
            self[key]
            return True
        except KeyError:
            return False

    def __missing__(self, key):
        d = self.locs.defs.get(key)
        if d is not None:
            import interp
            try:
                v = self.it.ev(d, self)
                dict.__setitem__(self, key, v)
                return v
            except interp.Undecided:
                # a boolean computed from the input (`let not = match self.next_lexem() {..}`) is a flag like any other
                if self.locs.types.get(key) not in ("bool", "&bool"):
                    raise KeyError(key)
        if self.locs.types.get(key) in ("bool", "&bool"):
            self.flag_names.add(key.split(":")[1])
            dict.__setitem__(self, key, self.flag_value)
            return self.flag_value
        raise KeyError(key)


def _choice(n, locs, flag_value):
    """evaluate (finite interpreter) an expression that selects an enum variant depending on one boolean flag local"""
    import interp
    it = interp.Interp()
    env = _LazyEnv(it, locs, flag_value)
    try:
        v = it.ev(n, env)
    except interp.Undecided as e:
        raise NotComparison("cannot evaluate variant choice: %s (%s)" % (render(n), e))
    if not isinstance(v, interp.V):
        raise NotComparison("variant choice is not an enum value: %s" % render(n))
    return v.name.split("::")[-1], env.flag_names


def between_triples(ctx):
    """returns {False: (op_lower, logical, op_upper), True: (...)} of the BETWEEN desugaring of parse_cond, the node to report
    at, the subjects of the two comparisons and the name of the NOT flag.  Read by evaluation of parse_cond on `x between a and
    b` / `x not between a and b` (c03.eval_parse_cond: the operand level is a stand-in); from the shape of the BETWEEN arm only
    where that is not possible"""
    import interp as _interp
    import c03 as _c03
    V = _interp.V
    try:
        out, subj = {}, []
        for nv in (False, True):
            lex = [V("Lexem::RawString", ["x"])] + ([V("Lexem::Not")] if nv else []) + [V("Lexem::Operator", ["between"]), V("Lexem::RawString", ["a"]), V("Lexem::And"), V("Lexem::RawString", ["b"])]
            g, idx = _c03.eval_parse_cond(ctx, lex)
            if not (isinstance(g, tuple) and len(g) == 3 and all(isinstance(c, tuple) and len(c) == 3 for c in g[1:]) and g[1][2] == "a" and g[2][2] == "b" and idx == len(lex)):
                raise _interp.Undecided("`x %sbetween a and b` is parsed as %r" % ("not " if nv else "", g))
            out[nv] = (g[1][0], g[0], g[2][0])
            subj += [g[1][1], g[2][1]]
        return out, {"body": ctx.anchor_hir(PARSE_COND)}, subj[:2] if subj[:2] == subj[2:] else subj, "not"
    except _interp.Undecided:
        pass
    hir = ctx.anchor_hir(PARSE_COND)
    locs = Locals(hir)
    arm = None
    for m in find_matches(hir):
        for a in match_arms(m):
            g = a["guard"]
            if g is not None and any(x["k"] == "Lit" and x["lk"] == "str" and str(x["v"]).lower() == "between"
                                     for x in walk(g)):
                arm = a
    if arm is None:
        ctx.violation("anchor/between-arm", PARSE_COND, "BETWEEN arm of parse_cond not found; failing closed")
        raise Abort_()
    body = arm["body"]
    ops = calls_to(body, "expr::Expr::op")
    lops = calls_to(body, "expr::Expr::logical_op")
    if len(ops) != 2 or len(lops) != 1:
        ctx.violation("anchor/between-shape", ctx.where(PARSE_COND, body),
                      "BETWEEN arm does not build exactly two comparisons joined by one logical operator "
                      "(%d, %d); failing closed" % (len(ops), len(lops)))
        raise Abort_()

    def bound_order(c):
        r = root_res(c["args"][2], locs)
        return int(r.rsplit(":", 1)[1]) if r else 0

    subj = [root_res(c["args"][0], locs) for c in ops]
    ops_sorted = sorted(ops, key=bound_order)
    out = {}
    flags = set()
    for nv in (False, True):
        trip = []
        for e in (ops_sorted[0]["args"][1], lops[0]["args"][1], ops_sorted[1]["args"][1]):
            v, fl = _choice(e, locs, nv)
            flags |= fl
            trip.append(v)
        out[nv] = tuple(trip)
    not_name = sorted(flags)[0] if flags else None
    return out, arm, subj, not_name


def eval_triple(triple, truth):
    """set of weak orderings (as frozenset of items) of (x,a,b) on which `x op1 a LOP x op2 b` holds"""
    op1, lop, op2 = triple
    res = []
    for w in weak_orderings(["x", "a", "b"]):
        def rel(p, q):
            return "lt" if w[p] < w[q] else ("eq" if w[p] == w[q] else "gt")
        t1 = rel("x", "a") in truth[op1]
        t2 = rel("x", "b") in truth[op2]
        v = (t1 and t2) if lop == "And" else (t1 or t2)
        res.append((w, v))
    return res


def describe_ordering(w):
    items = sorted(w.items(), key=lambda kv: kv[1])
    s = items[0][0]
    for (p, rp), (q, rq) in zip(items, items[1:]):
        s += (" = " if rp == rq else " < ") + q
    return s
