"""C09 — every output format is well-formed and carries exactly the result table (static necessary conditions)."""
import re

from hirq import *  # noqa: F401,F403
from core import Abort

LSR = "searcher::Searcher::list_search_results"
CHECK_FILE = "searcher::Searcher::check_file"
WRITER = "output::ResultsWriter"
FMT = {"json": "<output::json::JsonFormatter as output::ResultsFormatter>",
       "csv": "<output::csv::CsvFormatter as output::ResultsFormatter>",
       "html": "<output::html::HtmlFormatter as output::ResultsFormatter>",
       "flat": "<output::flat::FlatWriter as output::ResultsFormatter>"}


def opt_lit(ctx, fn):
    """the literal an Option<String>-returning formatter method yields (None if it yields None)"""
    h = ctx.anchor_hir(fn)
    lits = [x["v"] for x in walk_exprs(h) if x["k"] == "Lit" and x["lk"] == "str"]
    tm = [t for t, _ in fmt_templates(h)]
    r = render(peel_result(h))
    if r.endswith("None") and not lits:
        return None
    return (lits + tm)[0] if (lits + tm) else r



def _not_first_guard(fn_hir, scope_body, sep, counter_ids=()):
    """the separator call runs on every round of the repetition but the first: guarded by a first-row flag (initialised true
    before the repetition, cleared inside it) or by `counter > 0` on the enumerate() counter of this iteration"""
    import interp
    pos, neg = guard_atoms(guards_of(scope_body, sep))
    for a in neg:
        a = peel(a, methods=False)
        if a["k"] == "Path" and a.get("rk") == "Local":
            fid = a["res"]
            init_true = any(x["k"] == "Let" and x["pat"].get("id") == fid and render(x.get("init")) == "true" for x in walk(fn_hir))
            cleared = any(x["k"] == "Assign" and peel(x["l"]).get("res") == fid and render(x["r"]) == "false" for x in walk_exprs(scope_body))
            set_again = any(x["k"] == "Assign" and peel(x["l"]).get("res") == fid and render(x["r"]) != "false" for x in walk_exprs(scope_body))
            if init_true and cleared and not set_again:
                return True
    for a in pos:
        ids = {x["res"] for x in walk_exprs(a) if x["k"] == "Path" and x.get("rk") == "Local"}
        if ids and ids <= set(counter_ids):
            try:
                vals = [interp.Interp().ev(a, {i: k for i in ids}) for k in (0, 1, 2, 7)]
            except interp.Undecided:
                continue
            if vals == [False, True, True, True]:
                return True
    # `match counter { 0 => .., _ => separator }`: the arm taken for the counters 0, 1, 2, 7
    for m_ in walk_exprs(scope_body):
        if m_["k"] == "Match" and m_.get("src") == "Normal" and peel(m_["scrut"]).get("res") in set(counter_ids) and any(y is sep for y in walk_exprs(m_)):
            it_ = interp.Interp()
            vals = []
            for k in (0, 1, 2, 7):
                taken = None
                for arm in m_["arms"]:
                    try:
                        if arm.get("guard") is None and it_.match_pat(arm["pat"], k, {}):
                            taken = arm
                            break
                    except interp.Undecided:
                        taken = None
                        break
                vals.append(taken is not None and any(y is sep for y in walk_exprs(taken["body"])))
            if vals == [False, True, True, True]:
                return True
    return False

def r1(ctx):
    """row-separator protocol at every row emission site"""
    n = 0
    # (a) streamed rows: check_file
    h = ctx.anchor_hir(CHECK_FILE)
    rows = [c for c in walk_exprs(h) if c["k"] == "MCall" and c["m"] == "write_row"]
    seps = [c for c in walk_exprs(h) if c["k"] == "MCall" and c["m"] == "write_row_separator"]
    ok = len(rows) == 1 and len(seps) == 1
    why = "%d write_row and %d write_row_separator calls" % (len(rows), len(seps))
    if ok:
        # the conditions under which the separator and the row are written are evaluated (finite interpreter) for
        # (buffered or not) x (found = 1, 2, 3): guards common to both cancel out; wherever the row is streamed the
        # separator must have been written exactly when found > 1, and never without a row
        import interp
        gs_s = [t for t in with_exits(guards_of(h, seps[0]) or []) if t[0] == "if"]
        # the row is streamed where the buffer it was rendered into is written to standard output
        outs = [c for c in walk_exprs(h) if c["k"] == "MCall" and c["m"] in ("write_fmt", "write_all", "write") and "stdout" in render(c["recv"])]
        target = outs[0] if len(outs) == 1 else rows[0]
        gs_r = [t for t in with_exits(guards_of(h, target) or []) if t[0] == "if"]
        key = lambda t: (render(t[1]), t[2])
        common = {key(t) for t in gs_s} & {key(t) for t in gs_r}
        xs, xr = [t for t in gs_s if key(t) not in common], [t for t in gs_r if key(t) not in common]
        ms_s = [t for t in (guards_of(h, seps[0]) or []) if t[0] == "match" and t[3] == "Normal"] if False else []
        for buffered in (False, True):
            for found in (1, 2, 3):
                def call(node, recv, args, it, env, buffered=buffered):
                    if node.get("m") == "is_buffered" or str(node.get("callee", "")).endswith("::is_buffered"):
                        return (buffered,)
                    return None
                try:
                    ev = lambda t: interp.eval_in(h, t[1], {"self": {"found": found}}, call=call, prog=ctx.prog) == t[2]
                    S = all(ev(t) for t in xs)
                    R = all(ev(t) for t in xr)
                except interp.Undecided as e:
                    ok, why = False, "cannot evaluate the separator / row conditions: %s" % e
                    break
                if buffered and not xr and not xs:
                    continue
                if (R and S != (found > 1)) or (S and not R):
                    if not (buffered and not R and not S):
                        ok = False
                        why = "with is_buffered() = %s and found = %d the separator is %swritten and the row is %sstreamed" % (
                            buffered, found, "" if S else "not ", "" if R else "not ")
                        break
            if not ok:
                break
        order = list(walk_exprs(h))
        if ok and not (order.index(seps[0]) < order.index(rows[0])):
            ok, why = False, "the separator is written after the row"
        if ok and render(seps[0]["args"][0]) != render(rows[0]["args"][0]):
            ok, why = False, "separator and row go to different buffers (%s / %s)" % (render(seps[0]["args"][0]), render(rows[0]["args"][0]))
    n += 1
    ctx.obligation(ok)
    if not ok:
        ctx.violation("separator/check_file/streamed", ctx.where(CHECK_FILE),
                      "a streamed row must be preceded, in the same buffer, by the row separator exactly when it is not the "
                      "first row (`!is_buffered() && found > 1`): %s" % why)
    # (b), (c), (d): list_search_results
    h = ctx.anchor_hir(LSR)
    its = find_iterations(h)
    for c in walk_exprs(h):
        if c["k"] == "MCall" and c["m"] == "write_row":
            gs = guards_of(h, c)
            rep = [t for t in gs if t[0] in ("loop", "closure")]
            n += 1
            if not rep:
                ctx.obligation(True)   # single-shot row (one aggregate row)
                continue
            inner = [it for it in its if any(y is c for y in walk_exprs(it["body"]))]
            it = min(inner, key=lambda i_: len(list(walk_exprs(i_["body"])))) if inner else None
            scope = it["body"] if it else rep[-1][1]
            counters = pat_binders(it["pat"])[:1] if it and "enumerate" in render(it["iter"]) else ()
            sp = [s_ for s_ in walk_exprs(scope) if s_["k"] == "MCall" and s_["m"] == "write_row_separator"]
            ok = len(sp) == 1
            if ok:
                order = list(walk_exprs(scope))
                ok = _not_first_guard(h, scope, sp[0], counters) and order.index(sp[0]) < order.index(c)
            ctx.obligation(ok)
            if not ok:
                kind = "grouped" if rep[-1][0] == "closure" else "loop"
                ctx.violation("separator/list_search_results/%s" % kind, ctx.where(LSR, c),
                              "rows written in a loop are not separated: no write_row_separator guarded by a first-row flag "
                              "(or the iteration counter) precedes write_row in the loop body")
    # buffered drain: pieces are whole rows; separator between them
    drains = []
    for it in its:
        w = [c for c in walk_exprs(it["body"]) if c["k"] == "MCall" and c["m"] == "write_fmt" and any(x["k"] == "Path" and x.get("res") in pat_binders(it["pat"]) for x in walk_exprs(c))]
        if w and "output_buffer" in render(Locals(h).chase(peel(it["iter"]))) + render(it["iter"]):
            drains.append((it, w))
    n += 1
    ok = len(drains) == 1
    if ok:
        it, w = drains[0]
        counters = pat_binders(it["pat"])[:1] if "enumerate" in render(it["iter"]) else ()
        sp = [s_ for s_ in walk_exprs(it["body"]) if s_["k"] == "MCall" and s_["m"] == "write_row_separator"]
        ok = len(sp) == 1
        if ok:
            order = list(walk_exprs(it["body"]))
            ok = _not_first_guard(h, it["body"], sp[0], counters) and order.index(sp[0]) < order.index(w[0])
    ctx.obligation(ok)
    if not ok:
        ctx.violation("separator/list_search_results/buffered", ctx.where(LSR),
                      "the ordered-buffer drain must write the row separator before every row but the first")
    ctx.covered("row emission sites classified (streamed, grouped loop, single aggregate row, buffered drain)", n,
                distinct_keys=["streamed", "grouped", "aggregate", "drain"])
    ctx.floor(n, 4, "row emission sites", LSR)


# rows given to the CSV formatter: non-ASCII text, and values that start with a sign or a spreadsheet trigger character - a cell
# is the value's own text (a negative number stays a number), whatever it starts with
CSV_ROWS = (["a\u00e9", "1"], ["b\U00020BB7"], ["-2.5", "=x", "+1", "@a", "-7", "'q", " lead"])


class _Tok(str):
    """the text a stand-in serialiser returned: Python's string methods return plain `str`, so the type survives only if the
    analysed code hands the text on untouched"""


def r2(ctx):
    """escaping: who produces the value text of each format"""
    # HTML: the cell text passes through an escaper covering & < >
    fe = FMT["html"] + "::format_element"
    h = ctx.anchor_hir(fe)
    tm = [t for t, _ in fmt_templates(h)]
    ok_t = tm == ["<td>{}</td>"]
    esc = None
    for c in walk_exprs(h):
        if c["k"] == "Call" and c.get("callee") in ctx.prog.fns and "record" in render(c):
            esc = c["callee"]
    covered = set()
    if esc:
        eh = ctx.prog.hir(esc)
        for c in walk_exprs(eh):
            if c["k"] == "MCall" and c["m"] == "replace" and len(c["args"]) == 2:
                a, b = peel(c["args"][0]), peel(c["args"][1])
                if a["k"] == "Lit" and b["k"] == "Lit":
                    covered.add((str(a["v"]), str(b["v"])))
    ext = [c for c in walk_exprs(h) if c["k"] == "Call" and re.search(r"escape|encode_text|encode_safe", str(c.get("callee", ""))) and c.get("callee") not in ctx.prog.fns]
    need = {("&", "&amp;"), ("<", "&lt;"), (">", "&gt;")}
    ok = ok_t and (need <= covered or bool(ext))
    # `&` must be replaced first (otherwise the entities are escaped twice)
    if esc and need <= covered:
        eh = ctx.prog.hir(esc)
        order = []
        n_ = peel_result(eh)
        while n_["k"] == "MCall":
            if n_["m"] == "replace":
                order.append(str(peel(n_["args"][0])["v"]))
            n_ = peel(n_["recv"], methods=False)
        order.reverse()
        ok = ok and order and order[0] == "&"
    # no path of the escaper may hand the text back unescaped
    if esc:
        eh = ctx.prog.hir(esc)
        for y in walk_exprs(eh):
            if y["k"] == "Ret" and "e" in y and not any(c["k"] == "MCall" and c["m"] == "replace" for c in walk_exprs(y["e"])):
                ok = False
                ctx.violation("escape/html/bypass", ctx.where(esc, y),
                              "the HTML escaper returns `%s` on some path without applying the entity replacements" % render(y["e"])[:60])
    # the same decided by evaluation when the cell function can be read by the finite interpreter (whatever its shape: helper
    # inlined, chain reordered harmlessly, ..): the cell of each probe text must be <td>..</td> around a text without raw
    # < > and bare &, which unescapes to the probe
    import html as _html
    import interp
    f = ctx.prog.fns[fe]
    probes = ["plain", "a<b", "a>b", "a&b", "<&>", "&lt;", "&amp;lt;", "x < y && y > z", "\"q\" 'r'", "é<",
              # white space is part of the value: runs of blanks, leading / trailing blanks, a tab, a no-break space stay what they are
              "two  spaces", "three   x", " lead", "trail  ", "tab\tx", "nb\u00a0sp", "-2.5", "=x"]
    evald = {}
    try:
        for pr in probes:
            env = {}
            for p_ in f["params"]:
                if p_.get("k") == "Bind":
                    env[p_["id"]] = {"record": pr, "name": "col", "is_last": False}.get(p_.get("name"), interp.Opaque(p_.get("name", "?")))
            evald[pr] = interp.Interp(prog=ctx.prog).run(h, env)
    except interp.Undecided:
        evald = None
    if evald is not None:
        bad = []
        for pr, cell in evald.items():
            if isinstance(cell, interp.V) and cell.name == "Option::Some":
                cell = cell.args[0]
            good = isinstance(cell, str) and cell.startswith("<td>") and cell.endswith("</td>")
            if good:
                inner = cell[4:-5]
                good = "<" not in inner and ">" not in inner and not re.search(r"&(?!(amp|lt|gt|quot|apos|#\d+|#x[0-9a-fA-F]+);)", inner) and _html.unescape(inner) == pr
            if not good:
                bad.append((pr, cell))
        ok = not bad
        if bad:
            ctx.violation("escape/html/cell", ctx.where(fe), "the HTML cell of the value %r is %r: it is not `<td>` + text without raw < > & that unescapes to the value + `</td>`" % bad[0])
    ctx.obligation(ok)
    ctx.covered("HTML cell escaping (template and replacement table)", 1 + len(covered), distinct_keys=sorted(x[0] for x in covered),
                sample={"template": tm, "escapes": sorted(covered)})
    if not ok:
        ctx.violation("escape/html", ctx.where(fe),
                      "HTML cells must be `<td>` + escaped text + `</td>` with & (first), < and > replaced by entities; "
                      "template %s, escapes %s" % (tm, sorted(covered)))
    # JSON: the cells of a row are collected under their column names and the row's text is the serde_json serialisation of
    # that map, handed on unchanged; the map is empty again for the next row.  Evaluated (finite interpreter) on two rows
    # whose values hold non-ASCII text, with serde_json as a stand-in that returns a token naming what it was given
    import interp

    def json_rows():
        selfv = interp.LazySelf({"file_map": interp.BMap()})
        seen = []

        def call(node, recv, args, it, env):
            callee = str(node.get("callee", ""))
            if "serde_json" in callee and ("to_string" in callee or "to_vec" in callee or "to_writer" in callee):
                m_ = [a_ for a_ in args if isinstance(a_, interp.HMap)]
                tok = _Tok("<json of %s: \u00e9\U0001F600>" % (sorted(m_[0].items()) if m_ else "?"))
                seen.append(tok)
                return (interp.V("Result::Ok", [tok]),)
            return None
        out = []
        for row in ([("name", "a\u00e9"), ("size", "1")], [("name", "b\U00020BB7")]):
            for i, (k_, v_) in enumerate(row):
                fe_ = ctx.anchor_hir(FMT["json"] + "::format_element")
                ps_ = ctx.prog.fns[FMT["json"] + "::format_element"]["params"]
                r_ = interp.Interp(call=call, prog=ctx.prog).run(fe_, {pk_: x_ for pk_, x_ in zip([p_.get("id") for p_ in ps_], [selfv, k_, v_, i == len(row) - 1]) if pk_ is not None})
                if r_ != interp.NONE:
                    out.append(("cell", r_))
            re_ = ctx.anchor_hir(FMT["json"] + "::row_ended")
            ps_ = ctx.prog.fns[FMT["json"] + "::row_ended"]["params"]
            out.append(("row", interp.Interp(call=call, prog=ctx.prog).run(re_, {ps_[0]["id"]: selfv})))
        return out, seen, selfv
    try:
        out, seen, selfv = json_rows()
        want = [("row", interp.some("<json of %s: \u00e9\U0001F600>" % sorted(r_))) for r_ in ([("name", "a\u00e9"), ("size", "1")], [("name", "b\U00020BB7")])]
        ok = out == want and len(selfv["file_map"]) == 0
        # ... the very text serde_json returned: any string operation applied to it (replace, trim, a re-escaping pass) yields a
        # new string and is reported even when it happens to leave this token as it is
        if ok and not all(isinstance(r_[1].args[0], _Tok) for r_ in out):
            ok = False
            out = "the serialised text after further string operations"
        why = "two rows (name, size) / (name) with non-ASCII values come out as %s" % (out,)
    except interp.Undecided as e:
        ok, why = False, "cannot evaluate the JSON formatter: %s" % e
    ctx.obligation(ok)
    if not ok:
        ctx.violation("escape/json", ctx.where(FMT["json"] + "::row_ended"),
                      "a JSON row must be the serde_json serialisation of the (name -> value) map of that row, handed on unchanged, and the map must be empty for the next row; %s" % why)
    # CSV: the cells of a row are collected in order and the row's text is what csv::Writer::write_record makes of them,
    # handed on unchanged; the list is empty again for the next row.  Evaluated like the JSON formatter
    def csv_rows():
        selfv = interp.LazySelf({"records": []})
        bufs = []

        def call(node, recv, args, it, env):
            callee = str(node.get("callee", ""))
            m_ = node.get("m")
            if callee.endswith("WritableBuffer::new") or callee.endswith("WritableBuffer::default"):
                b_ = {"__wb": []}
                bufs.append(b_)
                return (b_,)
            if "csv::" in callee and "WriterBuilder" in callee and "from_writer" not in callee:
                if callee.rsplit("::", 1)[-1] not in ("new", "default", "buffer_capacity"):
                    raise interp.Undecided("the csv writer is configured with %s: a dialect setting (delimiter, quoting, terminator) decides whether the output is RFC 4180" % callee.rsplit("::", 1)[-1])
                return ({"__csvbuilder": True},)         # WriterBuilder::new() with the default dialect
            if "csv::" in callee and ("from_writer" in callee) and args:
                w_ = [a_ for a_ in args if isinstance(a_, dict) and "__wb" in a_]
                return ({"__csvw": w_[0] if w_ else None},)
            if isinstance(recv, dict) and "__csvw" in recv and m_ in ("write_record", "serialize"):
                recs = [a_ for a_ in args if isinstance(a_, list)]
                if recv["__csvw"] is not None:
                    recv["__csvw"]["__wb"].append(_Tok("<csv of %s: \u00e9\U0001F600>" % (list(recs[0]) if recs else "?")))
                return (interp.V("Result::Ok", [()]),)
            if isinstance(recv, dict) and "__csvw" in recv and m_ == "flush":
                return (interp.V("Result::Ok", [()]),)
            wb = [a_ for a_ in ([recv] + list(args)) if isinstance(a_, dict) and "__wb" in a_]
            if wb and (m_ in ("into", "to_string") or callee.endswith("::from") or callee.endswith("::into")):
                parts = wb[0]["__wb"]
                return (parts[0] if len(parts) == 1 else "".join(parts),)
            return None
        out = []
        for row in CSV_ROWS:
            for i, v_ in enumerate(row):
                nm = FMT["csv"] + "::format_element"
                ps_ = ctx.prog.fns[nm]["params"]
                r_ = interp.Interp(call=call, prog=ctx.prog).run(ctx.anchor_hir(nm), {k_: x_ for k_, x_ in zip([p_.get("id") for p_ in ps_], [selfv, "col%d" % i, v_, i == len(row) - 1]) if k_ is not None})
                if r_ != interp.NONE:
                    out.append(("cell", r_))
            nm = FMT["csv"] + "::row_ended"
            ps_ = ctx.prog.fns[nm]["params"]
            r_ = interp.Interp(call=call, prog=ctx.prog).run(ctx.anchor_hir(nm), {ps_[0]["id"]: selfv})
            if isinstance(r_, interp.V) and r_.name == "Option::Some" and isinstance(r_.args[0], dict) and "__wb" in r_.args[0]:
                parts = r_.args[0]["__wb"]          # the buffer converted to its text (`.into()`; the conversion itself is X-WBUF's)
                r_ = interp.some(parts[0] if len(parts) == 1 else "".join(parts))
            out.append(("row", r_))
        return out, selfv
    try:
        out, selfv = csv_rows()
        want = [("row", interp.some("<csv of %s: \u00e9\U0001F600>" % r_)) for r_ in CSV_ROWS]
        ok = out == want and len(selfv["records"]) == 0 and all(isinstance(r_[1].args[0], _Tok) for r_ in out)
        why = "three rows (non-ASCII values; values starting with - = + @ ' and a blank) come out as %s" % (out,)
    except interp.Undecided as e:
        ok, why = False, "cannot evaluate the CSV formatter: %s" % e
    ctx.obligation(ok)
    if not ok:
        ctx.violation("escape/csv", ctx.where(FMT["csv"] + "::row_ended"),
                      "a CSV row must be what csv::Writer::write_record makes of the row's values in order, handed on unchanged, and the list must be empty for the next row; %s" % why)
    ctx.covered("value producers of JSON and CSV rows", 2, distinct_keys=["json", "csv"])


def _tags(s):
    return re.findall(r"<(/?)([a-zA-Z]+)[^>]*>", s)


def r3(ctx):
    """literal well-formedness of the framing"""
    j = {m: opt_lit(ctx, FMT["json"] + "::" + m) for m in ("header", "row_started", "footer", "row_separator")}
    ok = j == {"header": "[", "row_started": None, "footer": "]", "row_separator": ","}
    ctx.obligation(ok)
    if not ok:
        ctx.violation("framing/json", ctx.where(FMT["json"] + "::header"), "JSON framing must be `[` rows separated by `,` `]`; found %s" % j)
    hh = {m: opt_lit(ctx, FMT["html"] + "::" + m) for m in ("header", "row_started", "row_ended", "footer")}
    cell = [t for t, _ in fmt_templates(ctx.anchor_hir(FMT["html"] + "::format_element"))]
    if not cell:
        # the cell is not built by one format!: what format_element yields for a plain text, read by evaluation
        import interp
        try:
            nm_ = FMT["html"] + "::format_element"
            ps_ = ctx.prog.fns[nm_]["params"]
            env_ = {pk_: x_ for pk_, x_ in zip([p_.get("id") for p_ in ps_], [interp.LazySelf({}), "name", "CELL", False]) if pk_ is not None}
            v_ = interp.Interp(prog=ctx.prog, max_steps=20000).run(ctx.anchor_hir(nm_), env_)
            if isinstance(v_, interp.V) and v_.name == "Option::Some" and isinstance(v_.args[0], str):
                cell = [v_.args[0]]
        except interp.Undecided:
            pass
    doc = (hh["header"] or "") + (hh["row_started"] or "") + (cell[0] if cell else "") + (hh["row_ended"] or "") + (hh["footer"] or "")
    stack = []
    balanced = True
    for close, tag in _tags(doc):
        if not close:
            stack.append(tag)
        elif not stack or stack.pop() != tag:
            balanced = False
    balanced = balanced and not stack
    seq = [("/" if c else "") + t for c, t in _tags(doc)]
    ok = balanced and seq == ["html", "body", "table", "tr", "td", "/td", "/tr", "/table", "/body", "/html"]
    ctx.obligation(ok)
    if not ok:
        ctx.violation("framing/html", ctx.where(FMT["html"] + "::header"), "HTML framing is not a balanced html/body/table/tr/td document: %s" % seq)
    c = {m: opt_lit(ctx, FMT["csv"] + "::" + m) for m in ("header", "row_started", "footer")}
    ok = c == {"header": None, "row_started": None, "footer": None}
    ctx.obligation(ok)
    if not ok:
        ctx.violation("framing/csv", ctx.where(FMT["csv"] + "::header"), "CSV output must consist of records only; found %s" % c)
    ctx.covered("framing literals of JSON / HTML / CSV", 3, distinct_keys=["json", "html", "csv"], sample={"json": j, "html": seq})


def r4(ctx):
    """header first, rows, footer on every normal exit: the output phase of list_search_results evaluated on its scenario
    table (rules/lsr.py: buffered drain, empty result, streamed, aggregate row, groups, failing output)"""
    import lsr
    lsr.output_phase(ctx)


def r5(ctx):
    """flat formats: separators; ResultsWriter::write_row protocol; formatter selection"""
    want = {"output::flat::TABS_FORMATTER": ("\t", "\n"), "output::flat::LINES_FORMATTER": ("\n", "\n"),
            "output::flat::LIST_FORMATTER": ("\0", "\0")}
    for name, (rs, ls) in want.items():
        h = ctx.anchor_hir(name)
        fs = {}
        for x in walk_exprs(h):
            if x["k"] == "Struct":
                for f in x["fields"]:
                    lit = [y["v"] for y in walk_exprs(f["e"]) if y["k"] == "Lit"]
                    fs[f["name"]] = lit[0] if lit else None
        ok = fs.get("record_separator") == rs and fs.get("line_separator") == ls
        ctx.obligation(ok)
        if not ok:
            ctx.violation("flat/%s" % short(name, 1), ctx.where(name), "%s must separate values by %r and rows by %r; found %r" % (short(name, 1), rs, ls, fs))
    # a flat cell: the value, followed by the value separator unless it is the last cell; a flat row ends with the row
    # separator; no header / footer / row start: the hooks of FlatWriter evaluated with record_separator = "<RS>",
    # line_separator = Some('<LS>') / None
    import interp
    fl = FMT["flat"]

    def flat_hook(name, args, line_sep=interp.some("L")):
        fn = fl + "::" + name
        h = ctx.anchor_hir(fn)
        ps = ctx.prog.fns[fn]["params"]
        env = {ps[0]["id"]: {"record_separator": "<RS>", "line_separator": line_sep}}
        for p_, a_ in zip(ps[1:], args):
            if "id" in p_:
                env[p_["id"]] = a_

        def call(node, recv, argv, it, env_):
            if str(node.get("callee", "")).endswith("String::from") or str(node.get("callee", "")).endswith("From<char>>::from"):
                return (str(argv[0]),) if argv and isinstance(argv[0], str) else None
            return None
        return interp.Interp(prog=ctx.prog, call=call).run(h, env)
    try:
        ok = flat_hook("format_element", ["col", "v", True]) == interp.some("v") and flat_hook("format_element", ["col", "v", False]) == interp.some("v<RS>")
        ctx.obligation(ok)
        if not ok:
            ctx.violation("flat/format_element", ctx.where(fl + "::format_element"), "a flat cell is the value, followed by the value separator unless it is the last cell; "
                          "last: %s, not last: %s" % (flat_hook("format_element", ["col", "v", True]), flat_hook("format_element", ["col", "v", False])))
        ok = flat_hook("row_ended", []) == interp.some("L") and flat_hook("row_ended", [], interp.NONE) == interp.NONE
        ctx.obligation(ok)
        if not ok:
            ctx.violation("flat/row_ended", ctx.where(fl + "::row_ended"), "a flat row must end with the row separator (%s)" % (flat_hook("row_ended", []),))
        for hk in ("header", "footer", "row_started", "row_separator"):
            if fl + "::" + hk in ctx.prog.fns:
                okh = flat_hook(hk, []) == interp.NONE
                ctx.obligation(okh)
                if not okh:
                    ctx.violation("flat/%s" % hk, ctx.where(fl + "::" + hk), "flat formats have no %s text" % hk)
    except interp.Undecided as e:
        ctx.obligation(False)
        ctx.violation("flat/format_element", ctx.where(fl + "::format_element"), "cannot evaluate the flat formatter: %s" % e)
    # the writer protocol: what reaches the output for a header, a row of 0 / 1 / 3 cells, a separator and a footer is read by
    # the finite interpreter with the formatter replaced by a stand-in whose hooks return tagged texts (None for an absent
    # hook) and the output by a recorder: write_row = start, every cell in order (last one flagged), end
    import interp

    def writer_trace(method, args, absent=()):
        fn = WRITER + "::" + method
        h = ctx.anchor_hir(fn)
        ps = ctx.prog.fns[fn]["params"]
        out = []

        def call(node, recv, argv, it, env):
            m = node.get("m")
            if isinstance(recv, dict) and "__formatter" in recv:
                if m == "format_element":
                    # the hook returns Option<String> (a formatter may emit nothing for a cell)
                    return (interp.some(("<cell %s=%s%s>" % (argv[0], argv[1], " last" if argv[2] else "")) if len(argv) == 3 else "<cell ?>"),)
                if m in absent:
                    return (interp.NONE,)
                return (interp.some("<%s>" % m),)
            if isinstance(recv, dict) and "__writer" in recv and m in ("write_all", "write_str", "write"):
                out.append(argv[0])
                return (interp.V("Result::Ok", [()]),)
            return None

        def effect(node, it, env):
            if node["k"] == "MCall" and node["m"] == "write_fmt":
                texts = []
                for y in walk_exprs(node):
                    if y["k"] == "Path" and y.get("rk") == "Local":
                        try:
                            v = it.ev(y, env)
                        except interp.Undecided:
                            continue
                        if isinstance(v, str):
                            texts.append(v)
                out.extend(dict.fromkeys(texts))
                return (interp.V("Result::Ok", [()]),)
            return None
        env = {ps[0]["id"]: {"formatter": {"__formatter": True}}, ps[1]["id"]: {"__writer": True}}
        for p_, a_ in zip(ps[2:], args):
            env[p_["id"]] = a_
        res = interp.Interp(call=call, effect=effect, prog=ctx.prog).run(h, env)
        return out, res
    try:
        for items in ([], [("a", "1")], [("a", "1"), ("b", "2"), ("c", "3")]):
            got, res = writer_trace("write_row", [list(items)])
            want_ = ["<row_started>"] + ["<cell %s=%s%s>" % (k, v, " last" if i == len(items) - 1 else "") for i, (k, v) in enumerate(items)] + ["<row_ended>"]
            ok = got == want_ and isinstance(res, interp.V) and res.name == "Result::Ok"
            ctx.obligation(ok)
            if not ok:
                ctx.violation("writer/write_row", ctx.where(WRITER + "::write_row"), "write_row must emit row start, every item in order (last one flagged), row end; for a row of %d cells the output is %s" % (len(items), got))
                break
        got, res = writer_trace("write_row", [[("a", "1")]], absent=("row_started", "row_ended"))
        ok = got == ["<cell a=1 last>"]
        ctx.obligation(ok)
        if not ok:
            ctx.violation("writer/write_row", ctx.where(WRITER + "::write_row"), "a formatter without row start / end texts must still get every cell written; output %s" % got)
        for m_, hook in (("write_header", "header"), ("write_footer", "footer"), ("write_row_separator", "row_separator")):
            got, res = writer_trace(m_, [])
            ok = got == ["<%s>" % hook]
            ctx.obligation(ok)
            if not ok:
                ctx.violation("writer/%s" % m_, ctx.where(WRITER + "::" + m_), "%s must write the formatter's %s; it writes %s" % (m_, hook, got))
            got, res = writer_trace(m_, [], absent=(hook,))
            ok = got == [] and isinstance(res, interp.V) and res.name == "Result::Ok"
            ctx.obligation(ok)
            if not ok:
                ctx.violation("writer/%s" % m_, ctx.where(WRITER + "::" + m_), "%s must write nothing and succeed when the formatter has no %s; it writes %s" % (m_, hook, got))
    except interp.Undecided as e:
        ctx.obligation(False)
        ctx.violation("writer/write_row", ctx.where(WRITER + "::write_row"), "cannot evaluate the results writer: %s" % e)
    hooks = ["header", "footer", "row_separator", "row_started", "row_ended", "format_element"]
    sel = ctx.anchor_hir("output::select_formatter")
    ms = find_matches(sel, min_arms=6)
    ok = False
    if ms:
        t = table_of(ms[0], lambda b: render(b))
        ok = all(w in t.get("OutputFormat::" + k, "") for k, w in {"Tabs": "TABS_FORMATTER", "Lines": "LINES_FORMATTER", "List": "LIST_FORMATTER",
                                                                  "Html": "HtmlFormatter"}.items())
        tys = {k: [x.get("ty", "") for x in walk_exprs(a["body"])] for a in match_arms(ms[0]) for k in [key_name(kk) for kk in a["keys"]]}
        ok = ok and any("CsvFormatter" in t_ for t_ in tys.get("OutputFormat::Csv", [])) and any("JsonFormatter" in t_ for t_ in tys.get("OutputFormat::Json", []))
    ctx.obligation(ok)
    if not ok:
        ctx.violation("writer/select_formatter", ctx.where("output::select_formatter"), "each output format must select its own formatter")
    ctx.covered("flat separators, cell/row protocol, writer hooks, formatter selection", 3 + 2 + 1 + len(hooks) + 1,
                distinct_keys=list(want) + list(hooks))
    # every row path passes (name, value) pairs in select-list order: decided by the evaluations of check_file (X-PIPELINE,
    # row-items) and of the output phase (C09-R4, aggregate-row / groups)


RULES = [
    ("C09-R1", "row-separator protocol at every row emission site", r1),
    ("C09-R2", "escaping: HTML entity table; JSON via serde_json; CSV via csv::Writer", r2),
    ("C09-R3", "framing literals are balanced", r3),
    ("C09-R4", "header before rows, footer after them, early returns only on a closed pipe", r4),
    ("C09-R5", "flat separators, write_row protocol, writer hooks, formatter selection, select-list order", r5),
    ("X-COLOR", "colouring only on a terminal and only for the name column", lambda ctx: __import__("extra").colorize_gate(ctx)),
    ("X-WBUF", "the formatters' in-memory sink accepts every chunk", lambda ctx: __import__("extra").wbuf_total(ctx)),
    ("X-LITERAL", "a literal is never answered from the text-keyed per-entry memo [shared]", lambda ctx: __import__("extra").literal_before_memo(ctx)),
    ("X-PIPELINE", "the per-entry pipeline of check_file evaluated on its scenario table (filter, count, row, buffer key, separator, closed output) [shared]", lambda ctx: __import__("cfile").pipeline(ctx)),
]

EXPLANATION = (
    "Static structural necessary conditions of C09: each of the four row emission paths (streamed in check_file, "
    "grouped loop, single aggregate row, ordered-buffer drain) either is single-shot or writes the formatter's row "
    "separator before every row but the first; HTML cells are `<td>` + text with & (first), <, > replaced by "
    "entities; JSON rows are serde_json serialisations of the row's (name -> value) map and CSV rows "
    "csv::Writer::write_record of its values; the framing literals form `[`..`,`..`]` and a balanced "
    "html/body/table/tr/td document; the header precedes every row, the footer follows unconditionally and the only "
    "earlier returns are closed-pipe stops; tabs/lines/list use \\t,\\n / \\n,\\n / \\0,\\0; write_row emits start, "
    "items in order with the last one flagged, end; each format selects its own formatter. Equality of decoded "
    "content across formats is not decided; duplicate column names collapse in a JSON object (limitation of the format)."
    " The formatters' in-memory sink (WritableBuffer::write) has no failing path and appends every chunk whole; literals are not answered from the memo; colours are used only on a terminal and only for the name column.")
ASSUMPTIONS = ["rustc's HIR faithfully represents the source; exporter and rule scripts are correct",
               "serde_json::to_string and csv::Writer produce valid JSON strings / RFC 4180 records"]
NOT_DECIDED = ["equality of decoded content across the six formats on real result tables",
               "duplicate column names in JSON objects", "byte-level validity for non-UTF-8 file names (to_string_lossy upstream)"]
