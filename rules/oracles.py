"""Frozen oracle tables.  Sources: the property statements (properties.jsonl), docs/usage.md of the
repository, POSIX <sys/stat.h>, <linux/capability.h>, regex-syntax's set of meta characters."""

# ---- operators (property C11 / docs/usage.md "Operators") -------------------------------------
OP_SPELLINGS = {
    "Eq": ["=", "==", "eq"],
    "Ne": ["!=", "<>", "ne"],
    "Eeq": ["===", "eeq"],
    "Ene": ["!==", "ene"],
    "Gt": [">", "gt"],
    "Gte": [">=", "gte", "ge"],
    "Lt": ["<", "lt"],
    "Lte": ["<=", "lte", "le"],
    "Rx": ["~=", "=~", "regexp", "rx"],
    "NotRx": ["!=~", "!~=", "notrx"],
    "Like": ["like"],
    "NotLike": ["notlike"],
    "Between": ["between"],
}

ARITH_SPELLINGS = {
    "Add": ["+", "plus"],
    "Subtract": ["-", "minus"],
    "Multiply": ["*", "mul"],
    "Divide": ["/", "div"],
    "Modulo": ["%", "mod"],
}

OUTPUT_FORMATS = {"tabs": "Tabs", "lines": "Lines", "list": "List", "csv": "Csv", "json": "Json", "html": "Html"}

# ---- columns: documented spellings -> Field variant (docs/usage.md "Columns") -------------------
FIELD_SPELLINGS = {
    "Name": ["name"], "Extension": ["ext", "extension"], "Path": ["path"], "AbsPath": ["abspath"],
    "Directory": ["dir", "directory", "dirname"], "AbsDir": ["absdir"], "Size": ["size"],
    "FormattedSize": ["fsize", "hsize"], "Uid": ["uid"], "Gid": ["gid"],
    "Created": ["created"], "Accessed": ["accessed"], "Modified": ["modified"],
    "IsDir": ["is_dir"], "IsFile": ["is_file"], "IsSymlink": ["is_symlink"], "IsPipe": ["is_pipe", "is_fifo"],
    "IsCharacterDevice": ["is_char", "is_character"], "IsBlockDevice": ["is_block"], "IsSocket": ["is_socket"],
    "Device": ["device"], "Inode": ["inode"], "Blocks": ["blocks"], "Hardlinks": ["hardlinks"], "Mode": ["mode"],
    "UserRead": ["user_read"], "UserWrite": ["user_write"], "UserExec": ["user_exec"], "UserAll": ["user_all"],
    "GroupRead": ["group_read"], "GroupWrite": ["group_write"], "GroupExec": ["group_exec"], "GroupAll": ["group_all"],
    "OtherRead": ["other_read"], "OtherWrite": ["other_write"], "OtherExec": ["other_exec"], "OtherAll": ["other_all"],
    "Suid": ["suid"], "Sgid": ["sgid"], "IsHidden": ["is_hidden"], "HasXattrs": ["has_xattrs"],
    "Capabilities": ["capabilities", "caps"], "IsShebang": ["is_shebang"], "IsEmpty": ["is_empty"],
    "Width": ["width"], "Height": ["height"], "Mime": ["mime"], "LineCount": ["line_count"],
    "Duration": ["duration"], "Bitrate": ["mp3_bitrate", "bitrate"], "Freq": ["mp3_freq", "freq"],
    "Title": ["mp3_title", "title"], "Artist": ["mp3_artist", "artist"], "Album": ["mp3_album", "album"],
    "Year": ["mp3_year"], "Genre": ["mp3_genre", "genre"],
    "ExifGpsAltitude": ["exif_altitude", "exif_alt"], "ExifDateTime": ["exif_datetime"],
    "ExifGpsLatitude": ["exif_latitude", "exif_lat"], "ExifGpsLongitude": ["exif_longitude", "exif_lng", "exif_lon"],
    "ExifMake": ["exif_make"], "ExifModel": ["exif_model"], "ExifSoftware": ["exif_software"],
    "ExifVersion": ["exif_version"],
    "IsBinary": ["is_binary"], "IsText": ["is_text"], "IsArchive": ["is_archive"], "IsAudio": ["is_audio"],
    "IsBook": ["is_book"], "IsDoc": ["is_doc"], "IsFont": ["is_font"], "IsImage": ["is_image"],
    "IsSource": ["is_source"], "IsVideo": ["is_video"],
    "Sha1": ["sha1"], "Sha256": ["sha2_256", "sha256"], "Sha512": ["sha2_512", "sha512"],
    "Sha3": ["sha3_512", "sha3"],
}
FIELD_SPELLINGS_USERS = {"User": ["user"], "Group": ["group"]}

# ---- column value types (what kind of value a column yields; property C02/C05) ------------------
NUMERIC_COLUMNS = {"Size", "Uid", "Gid", "Device", "Inode", "Blocks", "Hardlinks", "Width", "Height", "Duration",
                   "Bitrate", "Freq", "Year", "LineCount", "ExifGpsAltitude", "ExifGpsLatitude", "ExifGpsLongitude"}
DATETIME_COLUMNS = {"Created", "Accessed", "Modified", "ExifDateTime"}
BOOLEAN_COLUMNS = {"IsDir", "IsFile", "IsSymlink", "IsPipe", "IsCharacterDevice", "IsBlockDevice", "IsSocket",
                   "UserRead", "UserWrite", "UserExec", "UserAll", "GroupRead", "GroupWrite", "GroupExec", "GroupAll",
                   "OtherRead", "OtherWrite", "OtherExec", "OtherAll", "Suid", "Sgid", "IsHidden", "HasXattrs",
                   "IsShebang", "IsEmpty", "IsBinary", "IsText", "IsArchive", "IsAudio", "IsBook", "IsDoc", "IsFont",
                   "IsImage", "IsSource", "IsVideo"}
# FormattedSize renders text but orders numerically (parse_filesize of its text): numeric for ORDER BY only.
NUMERIC_FOR_ORDERING_ONLY = {"FormattedSize"}

# ---- functions ---------------------------------------------------------------------------------
FUNCTION_SPELLINGS = {
    "Lower": ["lower", "lowercase", "lcase"], "Upper": ["upper", "uppercase", "ucase"], "Length": ["length", "len"],
    "InitCap": ["initcap"], "ToBase64": ["to_base64", "base64"], "FromBase64": ["from_base64"],
    "Bin": ["bin"], "Hex": ["hex"], "Oct": ["oct"], "Abs": ["abs"], "Power": ["power", "pow"], "Sqrt": ["sqrt"],
    "Log": ["log"], "Ln": ["ln"], "Exp": ["exp"], "Least": ["least"], "Greatest": ["greatest"],
    "ContainsJapanese": ["contains_japanese", "japanese"], "ContainsHiragana": ["contains_hiragana", "hiragana"],
    "ContainsKatakana": ["contains_katakana", "katakana"], "ContainsKana": ["contains_kana", "kana"],
    "ContainsKanji": ["contains_kanji", "kanji"],
    "Concat": ["concat"], "ConcatWs": ["concat_ws"], "Substring": ["substr", "substring"], "Replace": ["replace"],
    "Trim": ["trim"], "LTrim": ["ltrim"], "RTrim": ["rtrim"], "Coalesce": ["coalesce"],
    "FormatSize": ["format_size"], "FormatTime": ["format_time", "pretty_time"],
    "CurrentDate": ["current_date", "cur_date", "curdate"], "Day": ["day"], "Month": ["month"], "Year": ["year"],
    "DayOfWeek": ["dayofweek", "dow"],
    "Min": ["min"], "Max": ["max"], "Avg": ["avg"], "Sum": ["sum"], "Count": ["count"],
    "StdDevPop": ["stddev_pop", "stddev", "std"], "StdDevSamp": ["stddev_samp"], "VarPop": ["var_pop", "variance"],
    "VarSamp": ["var_samp"],
    "Contains": ["contains"], "HasXattr": ["has_xattr"], "Xattr": ["xattr"],
    "HasCapabilities": ["has_capabilities", "has_caps"], "HasCapability": ["has_capability", "has_cap"],
    "Random": ["rand", "random"],
}
FUNCTION_SPELLINGS_USERS = {"CurrentUid": ["current_uid"], "CurrentUser": ["current_user"],
                            "CurrentGid": ["current_gid"], "CurrentGroup": ["current_group"]}
AGGREGATES = {"Min", "Max", "Avg", "Sum", "Count", "StdDevPop", "StdDevSamp", "VarPop", "VarSamp"}

# ---- size units (property C14) -------------------------------------------------------------------
SIZE_UNITS = {
    "k": 1024, "kib": 1024, "kb": 1000,
    "m": 1024 ** 2, "mib": 1024 ** 2, "mb": 1000 ** 2,
    "g": 1024 ** 3, "gib": 1024 ** 3, "gb": 1000 ** 3,
    "t": 1024 ** 4, "tib": 1024 ** 4, "tb": 1000 ** 4,
    "b": 1,
}

# ---- POSIX mode bits ------------------------------------------------------------------------------
S_IFMT = 0o170000
FILE_TYPES = {"fifo": 0o010000, "chr": 0o020000, "dir": 0o040000, "blk": 0o060000, "reg": 0o100000,
              "lnk": 0o120000, "sock": 0o140000}
TYPE_CHAR = {"fifo": "p", "chr": "c", "dir": "d", "blk": "b", "reg": "-", "lnk": "l", "sock": "s"}
PERM_BITS = {"user_read": 0o400, "user_write": 0o200, "user_exec": 0o100,
             "group_read": 0o040, "group_write": 0o020, "group_exec": 0o010,
             "other_read": 0o004, "other_write": 0o002, "other_exec": 0o001,
             "suid": 0o4000, "sgid": 0o2000, "sticky": 0o1000}

# ---- linux/capability.h ----------------------------------------------------------------------------
CAPABILITIES = ["cap_chown", "cap_dac_override", "cap_dac_read_search", "cap_fowner", "cap_fsetid", "cap_kill",
                "cap_setgid", "cap_setuid", "cap_setpcap", "cap_linux_immutable", "cap_net_bind_service",
                "cap_net_broadcast", "cap_net_admin", "cap_net_raw", "cap_ipc_lock", "cap_ipc_owner",
                "cap_sys_module", "cap_sys_rawio", "cap_sys_chroot", "cap_sys_ptrace", "cap_sys_pacct",
                "cap_sys_admin", "cap_sys_boot", "cap_sys_nice", "cap_sys_resource", "cap_sys_time",
                "cap_sys_tty_config", "cap_mknod", "cap_lease", "cap_audit_write", "cap_audit_control",
                "cap_setfcap", "cap_mac_override", "cap_mac_admin", "cap_syslog", "cap_wake_alarm",
                "cap_block_suspend", "cap_audit_read", "cap_perfmon", "cap_bpf", "cap_checkpoint_restore"]

# ---- regex meta characters that are special outside a character class (regex-syntax 0.8) ------------
REGEX_META = set("\\.+*?()|[]{}^$")
# '#', '&', '-', '~' are only special inside classes / in verbose mode and match themselves otherwise.

# ---- default extension lists the documentation promises (property C04/C19) ---------------------------
ZIP_EXTENSIONS = [".zip", ".jar", ".war", ".ear"]

# root options (docs/usage.md "Search roots")
ROOT_OPTION_WORDS = {
    "mindepth": "min_depth", "maxdepth": "max_depth", "depth": "max_depth",
    "archives": "archives", "arc": "archives", "symlinks": "symlinks", "sym": "symlinks",
    "gitignore": "gitignore", "git": "gitignore", "hgignore": "hgignore", "hg": "hgignore",
    "dockerignore": "dockerignore", "dock": "dockerignore",
    "nogitignore": "gitignore", "nogit": "gitignore", "nohgignore": "hgignore", "nohg": "hgignore",
    "nodockerignore": "dockerignore", "nodock": "dockerignore",
    "bfs": "traversal", "dfs": "traversal", "regexp": "regexp", "rx": "regexp",
}
