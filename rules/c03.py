"""C03 — AND / OR / NOT and brackets obey Boolean algebra (static structural necessary conditions)."""
from hirq import *  # noqa: F401,F403
import sem
from core import Abort

NEGATE = "operators::Op::negate"
NEG_EXPR = "parser::Parser::negate_expr_op"
PARSE_EXPR = "parser::Parser::parse_expr"
PARSE_AND = "parser::Parser::parse_and"
PARSE_COND = "parser::Parser::parse_cond"
PARSE_PAREN = "parser::Parser::parse_paren"
FROM_WITH_NOT = "operators::Op::from_with_not"

PAIRS = {"Rx": "NotRx", "NotRx": "Rx", "Like": "NotLike", "NotLike": "Like", "Between": "NotBetween",
         "NotBetween": "Between", "Eq": "Ne", "Ne": "Eq", "Eeq": "Ene", "Ene": "Eeq"}


def negate_table(ctx, report=True):
    hir = ctx.anchor_hir(NEGATE)
    ms = find_matches(hir)
    if len(ms) != 1:
        if not report:
            return None, None
        ctx.violation("anchor/negate-shape", NEGATE, "Op::negate is not one total match; failing closed")
        raise Abort()
    t = {}
    for a in match_arms(ms[0]):
        b = peel_result(a["body"])
        if b["k"] != "Path":
            if not report:
                return None, None
            ctx.violation("anchor/negate-arm", ctx.where(NEGATE, b), "arm value is not an operator constant")
            raise Abort()
        for k in a["keys"]:
            t[key_name(k).split("::")[-1]] = short(b["res"], 1)
    return t, ms[0]


def negate_by_evaluation(ctx):
    """Op::negate evaluated (finite interpreter) on every variant of Op -> {variant: variant}; raises interp.Undecided"""
    import interp
    h = ctx.anchor_hir(NEGATE)
    ps = ctx.prog.fns[NEGATE]["params"]
    out = {}
    for v in ctx.prog.adt_variants("operators::Op") or []:
        got = interp.Interp(prog=ctx.prog, max_steps=5000).run(h, {ps[0]["id"]: interp.V("Op::" + v)})
        if not (isinstance(got, interp.V) and got.name.startswith("Op::")):
            raise interp.Undecided("negate(%s) gives %r" % (v, got))
        out[v] = got.name.split("::")[-1]
    return out


def r1(ctx):
    import interp
    t, m = negate_table(ctx, report=False)
    if t is None or len([k for k in t if k != "_"]) < 14:
        # not one total match (pairs in a const slice, two matches ..): the same table by evaluation of Op::negate on every variant
        try:
            t, m = negate_by_evaluation(ctx), None
        except interp.Undecided as e:
            ctx.obligation(False)
            ctx.violation("negate/unreadable", ctx.where(NEGATE), "Op::negate is neither one total match nor evaluable: %s" % e)
            return
    variants = ctx.prog.adt_variants("operators::Op") or []
    ctx.floor(len([k for k in t if k != "_"]), 14, "arms of Op::negate", NEGATE)
    cf = sem.Conforms(ctx)
    truth, _ = cf.truth3("Int")
    if truth is None:
        ctx.violation("anchor/int-table", sem.CONFORMS, "integer comparison table of conforms not found")
        raise Abort()
    allo = set(sem.ORD3)
    for op in variants:
        if op not in t:
            if "_" not in t:
                continue
        neg = t.get(op, t.get("_"))
        ok = True
        why = ""
        if neg is None:
            continue
        if t.get(neg, None) != op:
            ok = False
            why = "negate(negate(%s)) = %s, not an involution" % (op, t.get(neg))
        if op in truth and op in sem.SPEC3:
            if neg not in truth:
                ok = False
                why = "negate(%s) = %s has no comparison arm" % (op, neg)
            elif truth[neg] != allo - truth[op]:
                ok = False
                bad = sorted((truth[neg] ^ (allo - truth[op])))
                why = ("negate(%s) = %s is not the complement: `x %s l` and `x %s l` agree when x %s l "
                       "(truth sets %s / %s, taken from the comparison table of conforms)" %
                       (op, neg, op, neg, "/".join(bad), sorted(truth[op]), sorted(truth[neg])))
        elif op in PAIRS and neg != PAIRS[op]:
            ok = False
            why = "negate(%s) = %s, expected %s" % (op, neg, PAIRS[op])
        ctx.obligation(ok)
        if not ok:
            ctx.violation("negate/%s" % op, ctx.where(NEGATE, m), why, {"table": t})
    ctx.covered("arms of Op::negate checked against the complement of the extracted comparison table",
                len(t), distinct_keys=t.keys(), sample={"negate": t}, exhaustive=True)


def _unsome(x):
    import interp
    return x.args[0] if isinstance(x, interp.V) and x.name == "Option::Some" else (None if x == interp.NONE else x)


def expr_truth(t, env):
    """truth value of a tree of Expr dictionaries under an assignment of its atoms: inner nodes are And / Or; a leaf is either a
    bare atom (an Expr whose `val` names it) or a comparison `atom = v` / `atom != v` (true / false when the atom is)"""
    import interp
    t = _unsome(t)
    if isinstance(t, str):
        return env[t]
    if not isinstance(t, dict):
        raise interp.Undecided("not an expression: %r" % (t,))
    lo, op = _unsome(t.get("logical_op")), _unsome(t.get("op"))
    if lo is not None:
        l, r = expr_truth(t.get("left"), env), expr_truth(t.get("right"), env)
        nm = lo.name.split("::")[-1]
        if nm == "And":
            return l and r
        if nm == "Or":
            return l or r
        raise interp.Undecided("connective %s" % nm)
    if op is not None:
        a = expr_truth(t.get("left"), env)
        nm = op.name.split("::")[-1]
        if nm == "Eq":
            return a
        if nm == "Ne":
            return not a
        raise interp.Undecided("operator %s on an atom" % nm)
    v = _unsome(t.get("val"))
    if v in env:
        return env[v]
    raise interp.Undecided("unknown leaf %r" % (v,))


def boolean_grammar_by_evaluation(ctx):
    """parse_expr evaluated (finite interpreter; parse_and and whatever helper they share are read from the source, the condition
    level parse_cond is a stand-in that takes one word as an atom) on every formula of 1..4 atoms joined by and / or: the tree
    built has the truth table of the formula read with AND binding tighter than OR.  -> (formulas, problems)"""
    import interp
    import itertools
    from extra import _expr_dict
    V = interp.V
    hir = ctx.anchor_hir(PARSE_EXPR)
    ps = ctx.prog.fns[PARSE_EXPR]["params"]
    n, problems = 0, []
    for k in range(1, 5):
        for ops in itertools.product(("and", "or"), repeat=k - 1):
            atoms = "abcd"[:k]
            lex = []
            for i, a in enumerate(atoms):
                if i:
                    lex.append(V("Lexem::And") if ops[i - 1] == "and" else V("Lexem::Or"))
                lex.append(V("Lexem::RawString", [a]))
            lex.append(V("Lexem::Close"))
            selfv = interp.LazySelf({"lexems": list(lex), "index": 0, "roots_parsed": True, "where_parsed": False})

            def call(node, recv, args, it, env, selfv=selfv):
                m_ = node.get("m")
                callee = str(node.get("callee", ""))
                if m_ == "parse_cond" or callee.endswith("Parser::parse_cond"):
                    i = selfv["index"]
                    if i < len(selfv["lexems"]) and selfv["lexems"][i].name == "Lexem::RawString":
                        selfv["index"] = i + 1
                        return (V("Result::Ok", [interp.some(_expr_dict(interp, val=interp.some(selfv["lexems"][i].args[0])))]),)
                    return (V("Result::Err", ["Error parsing condition"]),)
                return None
            text = " ".join(x for pair in zip(atoms, list(ops) + [""]) for x in pair).strip()
            got = interp.Interp(call=call, prog=ctx.prog, max_steps=60000).run(hir, {ps[0]["id"]: selfv})
            n += 1
            if not (isinstance(got, V) and got.name == "Result::Ok"):
                problems.append("`%s` gives %r" % (text, got))
                continue
            if selfv["index"] != len(lex) - 1:
                problems.append("`%s`: the cursor is left at %d, expected %d (before the closing bracket)" % (text, selfv["index"], len(lex) - 1))
                continue
            for vals in itertools.product((False, True), repeat=k):
                env = dict(zip(atoms, vals))
                # AND binds tighter than OR
                want = any(all(env[a] for a in grp.split("&")) for grp in "".join(a + ("&" if i < k - 1 and ops[i] == "and" else ("|" if i < k - 1 else "")) for i, a in enumerate(atoms)).split("|"))
                if expr_truth(got.args[0], env) != want:
                    problems.append("`%s` is parsed into a tree that is %s for %s, the formula is %s (AND binds tighter than OR)" % (text, not want, env, want))
                    break
    return n, problems


def negation_by_evaluation(ctx):
    """negate_expr_op evaluated (finite interpreter, Op::negate read from the source) on trees of up to three comparisons joined
    by And / Or in both bracketings: the result has the complementary truth table.  -> (trees, problems)"""
    import interp
    import itertools
    from extra import _expr_dict
    V, some = interp.V, interp.some
    h = ctx.anchor_hir(NEG_EXPR)
    ps = ctx.prog.fns[NEG_EXPR]["params"]
    E = lambda **kw: _expr_dict(interp, **kw)
    atom = lambda a, op="Eq": E(left=some(E(val=some(a))), op=some(V("Op::" + op)), right=some(E(val=some("v"))))
    join = lambda l, o, r: E(left=some(l), logical_op=some(V("LogicalOp::" + o)), right=some(r))
    trees = [("a", atom("a")), ("a (written with !=)", atom("a", "Ne"))]
    for o in ("And", "Or"):
        trees.append(("a %s b" % o, join(atom("a"), o, atom("b"))))
    for o1, o2 in itertools.product(("And", "Or"), repeat=2):
        trees.append(("a %s (b %s c)" % (o1, o2), join(atom("a"), o1, join(atom("b"), o2, atom("c", "Ne")))))
        trees.append(("(a %s b) %s c" % (o1, o2), join(join(atom("a", "Ne"), o1, atom("b")), o2, atom("c"))))
    n, problems = 0, []
    for label, tree in trees:
        import copy
        got = interp.Interp(prog=ctx.prog, max_steps=40000).run(h, {ps[0]["id"]: copy.deepcopy(tree)})
        n += 1
        for vals in itertools.product((False, True), repeat=3):
            env = dict(zip("abc", vals))
            if expr_truth(got, env) == expr_truth(tree, env):
                problems.append("the negation of `%s` has the same value as the condition itself for %s" % (label, env))
                break
    return n, problems



def r2(ctx):
    """De Morgan: the prefix-NOT rewriting must dualise And/Or when it descends into both operands"""
    import interp
    try:
        n_ev, problems = negation_by_evaluation(ctx)
        ctx.obligation(not problems)
        ctx.covered("negate_expr_op evaluated on 12 trees of comparisons (complementary truth table)", n_ev, distinct_keys=["negate_expr_op"], exhaustive=True)
        for pr in problems[:4]:
            ctx.violation("de-morgan/evaluated", ctx.where(NEG_EXPR), "prefix NOT must turn a condition into its complement (operators negated, And / Or swapped): %s" % pr)
        return
    except interp.Undecided:
        pass        # read structurally instead
    hir = ctx.anchor_hir(NEG_EXPR)
    names = ctx.prog.with_closures(NEG_EXPR)
    writes = set()
    for n in names:
        b = ctx.prog.body(n)
        if b:
            writes |= b.field_writes()
    wnames = {f[-1] for f in writes}
    recurses = {render(c["args"][0]) for c in calls_to(hir, NEG_EXPR)}
    descends_both = any("left" in r for r in recurses) and any("right" in r for r in recurses)
    # the descent must reach every operand that is present: a recursive call guarded by anything but the presence
    # of the operand leaves a nested AND/OR or comparison un-negated while the connective above it is dualised
    for side in ("left", "right"):
        cs = [c for c in calls_to(hir, NEG_EXPR) if side in render(c["args"][0])]
        good = False
        extra = []
        for c in cs:
            gs = guards_of(hir, c) or []
            rest = [g for g in gs if presence_guard(g) != "expr." + side and g[0] != "closure"]
            clos = [g for g in gs if g[0] == "closure"]
            if clos:
                # `expr.left.as_ref().map(|l| ..)`: the closure must be applied by map/and_then on the operand itself
                par = [m for m in walk_exprs(hir) if m["k"] == "MCall" and any(a is clos[0][1] for a in m["args"])]
                if not (par and par[0]["m"] in ("map", "and_then") and render(peel(par[0]["recv"])) == "expr." + side):
                    rest.append(clos[0])
            if not rest:
                good = True
            else:
                extra += [guard_text(g) for g in rest]
        if cs:
            ctx.obligation(good)
            if not good:
                ctx.violation("negate_expr_op/descend-%s" % side, ctx.where(NEG_EXPR, cs[0]),
                              "prefix NOT descends into the %s operand only under an extra condition (%s): an operand that "
                              "fails it keeps its meaning while the connective above it is dualised, so `not (A or (B and C))` "
                              "is not the complement" % (side, "; ".join(extra)))
    ctx.covered("field writes of negate_expr_op (MIR) and its recursive calls", 1 + len(recurses),
                distinct_keys=sorted(wnames), sample={"writes": sorted(wnames), "recurses_into": sorted(recurses)})
    if ".op" not in wnames:
        ctx.violation("negate_expr_op/no-op-write", ctx.where(NEG_EXPR), "prefix NOT never rewrites the comparison operator")
    dual_ok = False
    if ".logical_op" in wnames:
        # a dual table And->Or, Or->And must be visible in the function or a local callee
        cands = [hir] + [ctx.prog.hir(c) for c in ctx.prog.local_callees(NEG_EXPR) if ctx.prog.hir(c)]
        for h in cands:
            for m in find_matches(h):
                tt = {}
                for a in match_arms(m):
                    b = peel_result(a["body"])
                    # accept `Some(LogicalOp::Or)` / `LogicalOp::Or`
                    if b["k"] == "Path":
                        for k in a["keys"]:
                            tt[key_name(k).split("::")[-1]] = short(b["res"], 1)
                if tt.get("And") == "Or" and tt.get("Or") == "And":
                    dual_ok = True
    ok = (not descends_both) or dual_ok
    ctx.obligation(ok)
    if not ok:
        ctx.violation("negate_expr_op/de-morgan", ctx.where(NEG_EXPR),
                      "prefix NOT negates both operands of a bracketed AND/OR (recursion into left and right) but %s: "
                      "`not (A and B)` is evaluated as `not A and not B`" %
                      ("never writes `logical_op`" if ".logical_op" not in wnames else
                       "no And->Or / Or->And table is applied"),
                      {"writes": sorted(wnames)})


def r3(ctx):
    triples, arm, subj, not_name = sem.between_triples(ctx)
    cf = sem.Conforms(ctx)
    truth, _ = cf.truth3("Int")
    truth = truth or sem.SPEC3
    pos = sem.eval_triple(triples[False], truth)
    neg = sem.eval_triple(triples[True], truth)
    bad = [sem.describe_ordering(w) for (w, v), (_, v2) in zip(pos, neg) if v == v2]
    ctx.covered("orderings of (x, a, b) for the negated BETWEEN triple %s" % (triples[True],), len(neg),
                distinct_keys=[sem.describe_ordering(w) for w, _ in neg], sample={"not_between": triples[True],
                                                                                  "between": triples[False]},
                exhaustive=True)
    ctx.obligation(not bad)
    if bad:
        ctx.violation("parse_cond/not-between", ctx.where(PARSE_COND, arm["body"]),
                      "`x not between a and b` is desugared to x %s a %s x %s b, which is not the complement of "
                      "`x between a and b` (x %s a %s x %s b): both agree when %s" %
                      (triples[True][0], triples[True][1], triples[True][2],
                       triples[False][0], triples[False][1], triples[False][2], "; ".join(bad[:4])),
                      {"orderings": bad})


def _logical_ctor_set(h):
    s = set()
    for x in walk_exprs(h):
        if x["k"] == "Path" and str(x.get("rk", "")).startswith("Ctor") and "LogicalOp::" in x["res"]:
            s.add(short(x["res"], 1))
    return s


def _lexem_pats(h):
    s = set()
    for x in walk(h):
        if x["k"] in ("PPath", "PTS") and "Lexem::" in x.get("res", ""):
            s.add(short(x["res"], 1))
        if x["k"] == "Path" and "Lexem::" in x.get("res", "") and str(x.get("rk", "")).startswith("Ctor"):
            s.add(short(x["res"], 1))
    return s


def r4(ctx):
    import interp
    pe, pa, pc = ctx.anchor_hir(PARSE_EXPR), ctx.anchor_hir(PARSE_AND), ctx.anchor_hir(PARSE_COND)
    rows = [(PARSE_EXPR, pe, "Or", "parse_and", "And"), (PARSE_AND, pa, "And", "parse_cond", "Or")]
    layering_decided = False
    try:
        n_ev, problems = boolean_grammar_by_evaluation(ctx)
        layering_decided = True
        ctx.obligation(not problems)
        ctx.covered("parse_expr / parse_and evaluated on the 15 formulas of 1..4 atoms joined by and / or (truth table of the tree = formula with AND tighter than OR)", n_ev,
                    distinct_keys=[PARSE_EXPR, PARSE_AND], exhaustive=True)
        for pr in problems[:4]:
            ctx.violation("layering/evaluated", ctx.where(PARSE_EXPR), "AND binds tighter than OR and both are associative: %s" % pr)
    except interp.Undecided:
        pass        # read the two levels structurally instead
    for name, h, lop, callee, other in ([] if layering_decided else rows):
        ctors = _logical_ctor_set(h)
        pats = _lexem_pats(h)
        sub = calls_to(h, "Parser::" + callee)
        ok = ctors == {lop} and lop in pats and other not in pats and len(sub) >= 2
        ctx.obligation(ok)
        ctx.covered("precedence level %s (builds %s from %s operands)" % (short(name, 1), lop, callee), 1,
                    distinct_keys=[name], sample={"fn": name, "builds": sorted(ctors), "matches": sorted(pats),
                                                  "operand_calls": len(sub)})
        if not ok:
            ctx.violation("layering/%s" % short(name, 1), ctx.where(name),
                          "%s must consume `%s` lexems, build only LogicalOp::%s and take both operands from %s; "
                          "found lexem patterns %s, constructors %s, %d operand calls" %
                          (short(name, 1), lop.lower(), lop, callee, sorted(pats), sorted(ctors), len(sub)))
        # left/right order of the node built inside the loop and at return
        for c in calls_to(h, "expr::Expr::logical_op"):
            a0, a2 = render(c["args"][0]), render(c["args"][2])
            if "right" in a0 and "left" in a2:
                ctx.violation("layering/%s/operand-order" % short(name, 1), ctx.where(name, c),
                              "logical node built with swapped operands: %s, %s" % (a0, a2))
    # parse_expr must not call parse_cond directly; parse_and must not call parse_expr/parse_and for operands
    if not layering_decided and calls_to(pe, "Parser::parse_cond"):
        ctx.violation("layering/parse_expr-skips-and", ctx.where(PARSE_EXPR), "parse_expr takes an operand from parse_cond directly")
    brackets(ctx)


def brackets(ctx):
    # brackets
    # parse_paren evaluated (finite interpreter; parse_expr and parse_func_scalar are stand-ins that take one word): an opening
    # bracket of either style holds one full expression and is closed by the bracket of its own style; anything else is a leaf
    import interp
    pp = ctx.anchor_hir(PARSE_PAREN)
    pps = ctx.prog.fns[PARSE_PAREN]["params"]
    V = interp.V
    W = lambda t: V("Lexem::RawString", [t])
    O, C, CO, CC = V("Lexem::Open"), V("Lexem::Close"), V("Lexem::CurlyOpen"), V("Lexem::CurlyClose")
    shapes = [("( a )", [O, W("a"), C], ("expr", "a"), 3), ("{ a }", [CO, W("a"), CC], ("expr", "a"), 3), ("( a }", [O, W("a"), CC], "err", None),
              ("{ a )", [CO, W("a"), C], "err", None), ("( a", [O, W("a")], "err", None), ("{ a", [CO, W("a")], "err", None),
              ("a", [W("a")], ("leaf", "a"), 1), ("a )", [W("a"), C], ("leaf", "a"), 1), ("( a ) b", [O, W("a"), C, W("b")], ("expr", "a"), 3)]
    badp = []
    for label, lex, want, want_index in shapes:
        selfv = interp.LazySelf({"lexems": list(lex), "index": 0, "roots_parsed": True, "where_parsed": True})

        def call(node, recv, args, it, env, selfv=selfv):
            m_ = node.get("m") or ""
            callee = str(node.get("callee", ""))
            for nm_, tag_ in (("parse_expr", "expr"), ("parse_func_scalar", "leaf")):
                if m_ == nm_ or callee.endswith("Parser::" + nm_):
                    i = selfv["index"]
                    if i < len(selfv["lexems"]) and selfv["lexems"][i].name == "Lexem::RawString":
                        selfv["index"] = i + 1
                        return (V("Result::Ok", [interp.some((tag_, selfv["lexems"][i].args[0]))]),)
                    return (V("Result::Err", ["Error parsing expression"]),)
            return None
        try:
            got = interp.Interp(call=call, prog=ctx.prog, max_steps=20000).run(pp, {pps[0]["id"]: selfv})
        except interp.Undecided as e:
            badp.append("cannot evaluate parse_paren on `%s`: %s" % (label, e))
            break
        g = "err" if isinstance(got, V) and got.name == "Result::Err" else (got.args[0].args[0] if isinstance(got, V) and got.name == "Result::Ok" and isinstance(got.args[0], V) and got.args[0].args else repr(got))
        if g != want or (want_index is not None and selfv["index"] != want_index):
            badp.append("`%s` gives %s (cursor %s), expected %s%s" % (label, g, selfv["index"], want, "" if want_index is None else " (cursor %d)" % want_index))
    ctx.obligation(not badp)
    ctx.covered("parse_paren evaluated on 9 bracket shapes (both styles, mismatched, unclosed, no bracket)", len(shapes), distinct_keys=[s_[0] for s_ in shapes], exhaustive=True)
    if badp:
        ctx.violation("layering/brackets", ctx.where(PARSE_PAREN),
                      "each opening bracket must parse one full expression and expect its own closing kind: %s" % "; ".join(badp[:3]))


class _Interp:
    """tiny interpreter for the And/Or arms of conforms: boolean locals, if/else, assignments; the
    recursive conforms(left|right) calls are the leaves L and R"""

    def __init__(self, env):
        self.env = dict(env)
        self.calls = []

    def ev(self, n):
        n = peel(n, methods=False)
        k = n["k"]
        if k == "Lit" and n["lk"] == "bool":
            return bool(n["v"])
        if k == "Path" and n.get("rk") == "Local":
            if n["name"] not in self.env:
                raise NotComparison("unknown local %s" % n["name"])
            return self.env[n["name"]]
        if k == "Un" and n["op"] == "!":
            return not self.ev(n["e"])
        if k == "Bin" and n["op"] == "&&":
            return self.ev(n["l"]) and self.ev(n["r"])
        if k == "Bin" and n["op"] == "||":
            return self.ev(n["l"]) or self.ev(n["r"])
        if k == "Bin" and n["op"] in ("==", "!="):
            a, b = self.ev(n["l"]), self.ev(n["r"])
            return (a == b) if n["op"] == "==" else (a != b)
        if k == "MCall" and n["m"] == "conforms":
            arg = render(n["args"][-1])
            leaf = "L" if "left" in arg else ("R" if "right" in arg else None)
            if leaf is None:
                raise NotComparison("conforms on %s" % arg)
            self.calls.append(leaf)
            return self.env[leaf]
        if k == "If":
            c = n["c"]
            if peel(c, methods=False)["k"] == "LetE":
                cv = True   # operand present
                le = peel(c, methods=False)
                self.bind(le["pat"], None)
            else:
                cv = self.ev(c)
            if cv:
                return self.ev(n["t"])
            if "e" in n:
                return self.ev(n["e"])
            return None
        if k == "Block":
            for s in n["stmts"]:
                self.stmt(s)
            if "expr" in n:
                return self.ev(n["expr"])
            return None
        if k == "Assign":
            self.stmt(n)
            return None
        raise NotComparison("cannot interpret %s" % render(n)[:80])

    def bind(self, pat, val):
        for x in walk(pat):
            if x["k"] == "Bind":
                self.env[x["name"]] = val

    def stmt(self, s):
        k = s["k"]
        if k == "Let":
            v = self.ev(s["init"]) if "init" in s else None
            self.bind(s["pat"], v)
        elif k == "Assign":
            l = peel(s["l"], methods=False)
            if l["k"] != "Path" or l.get("rk") != "Local":
                raise NotComparison("assignment to %s" % render(l))
            self.env[l["name"]] = self.ev(s["r"])
        else:
            self.ev(s)


def r5(ctx):
    """conforms on a node with a logical operator: evaluated (finite interpreter; the recursive calls on the two operands
    answer with the given truth values) for And / Or on all four truth assignments"""
    import interp
    from extra import _expr_dict
    hir = ctx.anchor_hir(sem.CONFORMS)
    ps = ctx.prog.fns[sem.CONFORMS]["params"]
    import norm
    tys = norm.param_types(ctx.prog.fns[sem.CONFORMS].get("sig"))
    epar = [p for p, t in zip(ps, tys) if t.endswith("expr::Expr")]
    if len(epar) != 1:
        ctx.violation("anchor/conforms-logical", sem.CONFORMS, "the expression parameter of conforms was not found")
        raise Abort()
    spec = {"And": lambda l, r: l and r, "Or": lambda l, r: l or r}
    n = 0
    for op in ("And", "Or"):
        for L in (False, True):
            for R in (False, True):
                asked = []

                def call(node, recv, args, it, env, L=L, R=R, asked=asked):
                    if node.get("m") == "conforms" or str(node.get("callee", "")).endswith("Searcher::conforms"):
                        sub = [a for a in args if isinstance(a, dict) and "__side" in a]
                        if len(sub) == 1:
                            asked.append(sub[0]["__side"])
                            return (L if sub[0]["__side"] == "L" else R,)
                    return None
                left = _expr_dict(interp, __side="L")
                right = _expr_dict(interp, __side="R")
                ex = _expr_dict(interp, logical_op=interp.some(interp.V("LogicalOp::" + op)), left=interp.some(left), right=interp.some(right))
                env = {p["id"]: interp.Opaque(p.get("name") or "?") for p in ps}
                env[epar[0]["id"]] = ex
                try:
                    got = interp.Interp(call=call, prog=ctx.prog, max_steps=20000).run(hir, env)
                except interp.Undecided as e:
                    ctx.obligation(False)
                    ctx.violation("conforms/%s/uninterpretable" % op, ctx.where(sem.CONFORMS), "cannot interpret conforms on an %s node: %s" % (op, e))
                    got = None
                    break
                n += 1
                want = spec[op](L, R)
                ok = got == want and asked[:1] == ["L"]
                ctx.obligation(ok)
                if not ok:
                    ctx.violation("conforms/%s" % op, ctx.where(sem.CONFORMS),
                                  "conforms on `A %s B` yields %s for A=%s, B=%s (expected %s; operands asked: %s)" %
                                  (op.lower(), got, L, R, want, asked))
            else:
                continue
            break
    ctx.covered("truth assignments of the And/Or nodes of conforms (evaluated)", n, distinct_keys=["And", "Or"], exhaustive=True)
    ctx.floor(n, 8, "truth assignments over the And/Or arms", sem.CONFORMS)


def r6(ctx):
    hir = ctx.anchor_hir(PARSE_COND)
    toggles = []
    for x in walk_exprs(hir):
        if x["k"] == "Assign":
            l, r = peel(x["l"], methods=False), peel(x["r"], methods=False)
            if l["k"] == "Path" and l.get("rk") == "Local" and r["k"] == "Un" and r["op"] == "!":
                inner = peel(r["e"], methods=False)
                if inner["k"] == "Path" and inner.get("res") == l["res"]:
                    g = guards_of(hir, x) or []
                    in_loop = any(t[0] == "loop" for t in g)
                    on_not = any(t[0] in ("if", "match") and "Lexem::Not" in (render(t[1]) + render_pat(t[2]) if t[0] == "match" else render(t[1])) for t in g)
                    toggles.append((l["name"], in_loop, on_not, l["res"]))
    good = [t for t in toggles if t[1] and t[2]]
    ctx.covered("prefix-NOT parity toggles in parse_cond", len(toggles), distinct_keys=[t[0] for t in toggles],
                sample={"toggles": [t[:3] for t in toggles]})
    ctx.obligation(bool(good))
    if not good:
        ctx.violation("parse_cond/not-parity", ctx.where(PARSE_COND),
                      "no `flag = !flag` toggle per `not` lexem inside the prefix loop of parse_cond: "
                      "double negation would not be the identity")
        return
    flag = good[0][3]
    # the flag must gate the negation call
    gated = False
    for c in calls_to(hir, NEG_EXPR):
        for g in guards_of(hir, c) or []:
            if g[0] == "if" and g[2] is True:
                p = peel(g[1], methods=False)
                locs_ = Locals(hir)
                for _ in range(6):      # the flag may reach the test through a helper's result / a renamed local
                    if p["k"] == "Path" and p.get("res") == flag:
                        gated = True
                        break
                    if p["k"] == "Path" and p.get("rk") == "Local" and p["res"] in locs_.defs:
                        p = locs_.defs[p["res"]]
                        while p["k"] == "Block" and "expr" in p:
                            p = p["expr"]
                        p = peel(p, methods=False)
                        continue
                    break
    ctx.obligation(gated)
    if not gated:
        ctx.violation("parse_cond/not-applied", ctx.where(PARSE_COND), "negate_expr_op is not applied under `if <parity flag>`")
    # the negation applies to the finished condition: a bare boolean column / function is first expanded to `.. = true`
    # (negate_expr_op does nothing on a node without an operator), so every expansion site precedes the negation
    import interp
    try:
        n_ev, problems = shorthand_by_evaluation(ctx)
        ctx.covered("parse_cond evaluated on bare columns / values x phase flags x 0..2 prefix NOTs (shorthand window, NOT after expansion)", n_ev, exhaustive=True)
        ctx.obligation(not problems)
        if problems:
            ctx.violation("parse_cond/not-before-shorthand", ctx.where(PARSE_COND),
                          "a bare boolean column stands for `column = true` exactly inside WHERE and a prefix NOT complements that comparison: %s" % "; ".join(problems[:3]))
        return
    except interp.Undecided as e:
        ctx.covered("evaluation of the shorthand scenarios gave up (%s); the structural rule applies" % str(e)[:160], 0)
    order = list(walk_exprs(hir))
    sites = [i for i, c in enumerate(order) if c["k"] == "Call" and str(c.get("callee", "")).endswith("Expr::op") and len(c["args"]) == 3 and
             "Op::Eq" in render(c["args"][1]) and any(y["k"] == "Lit" and y.get("v") == "true" and y.get("lk") == "str" for y in walk_exprs(c["args"][2]))]
    negs = [i for i, c in enumerate(order) if c["k"] in ("Call", "MCall") and (str(c.get("callee", "")).endswith(NEG_EXPR.rsplit("::", 1)[-1]) or c.get("m") == NEG_EXPR.rsplit("::", 1)[-1])
            and not any(t[0] == "closure" for t in (guards_of(hir, c) or []))]
    inside = lambda si, ni: any(y is order[si] for y in walk_exprs(order[ni]))      # expansion nested in the negation's argument
    ok = bool(sites) and bool(negs) and all(si < ni or inside(si, ni) for si in sites for ni in negs)
    ctx.obligation(ok)
    if not ok:
        ctx.violation("parse_cond/not-before-shorthand", ctx.where(PARSE_COND),
                      "prefix NOT must be applied after a bare boolean column / function has been expanded to `column = true`: applied before, it finds "
                      "no operator to negate and `not is_dir` means `is_dir`")


def r7(ctx):
    """Op::from_with_not(text, not) = Op::negate(Op::from(text)) when `not` is set and Op::from(text) otherwise: evaluated
    (finite interpreter, crate calls interpreted) on a spelling of every operator family and on a non-operator word"""
    import interp
    hir = ctx.anchor_hir(FROM_WITH_NOT)
    ps = ctx.prog.fns[FROM_WITH_NOT]["params"]
    fh = ctx.anchor_hir("operators::Op::from")
    fps = ctx.prog.fns["operators::Op::from"]["params"]
    nh = ctx.anchor_hir(NEGATE)
    nps = ctx.prog.fns[NEGATE]["params"]
    n = 0
    ok, why = len(ps) == 2, "signature changed"
    if ok:
        for text in ("=", "ne", "===", "gt", "<=", "=~", "like", "notlike", "between", "in", "exists", "frobnicate"):
            for flag in (False, True):
                try:
                    base = interp.Interp(prog=ctx.prog).run(fh, {fps[0]["id"]: text})
                    got = interp.Interp(prog=ctx.prog).run(hir, {ps[0]["id"]: text, ps[1]["id"]: flag})
                    want = base
                    if flag and isinstance(base, interp.V) and base.name == "Option::Some":
                        want = interp.some(interp.Interp(prog=ctx.prog).run(nh, {nps[0]["id"]: base.args[0]}))
                except interp.Undecided as e:
                    ok, why = False, "cannot evaluate: %s" % e
                    break
                n += 1
                if got != want:
                    ok, why = False, "from_with_not(%r, %s) = %s, expected %s" % (text, flag, got, want)
                    break
            if not ok:
                break
    ctx.covered("infix `not <op>`: Op::from_with_not evaluated on 12 words x not / plain", n, distinct_keys=[FROM_WITH_NOT], exhaustive=True)
    ctx.obligation(ok)
    if not ok:
        ctx.violation("from_with_not", ctx.where(FROM_WITH_NOT),
                      "Op::from_with_not must apply Op::negate exactly when its `not` flag is set: %s" % why)


RULES = [
    ("C03-R1", "Op::negate is the complement of each operator (against the extracted comparison table)", r1),
    ("C03-R2", "prefix NOT over a bracketed condition applies De Morgan", r2),
    ("C03-R3", "NOT BETWEEN is the complement of BETWEEN on all orderings of (x, a, b)", r3),
    ("C03-R4", "precedence layering parse_expr(OR) > parse_and(AND) > parse_cond, bracket pairs", r4),
    ("C03-R5", "conforms evaluates And as conjunction and Or as disjunction", r5),
    ("C03-R6", "prefix NOT folding toggles parity and gates the negation", r6),
    ("C03-R7", "infix NOT negates the operator", r7),
    ("C03-R8", "every outcome of a comparison is produced under the dispatch on the operator", lambda ctx: __import__("extra2").comparison_is_operator_dependent(ctx)),
    ("C12-R3", "each negative text operator is the complement of its positive twin on every scenario (cache hit or miss, wildcard, invalid pattern) [shared with C12]", lambda ctx: __import__("c12").r3(ctx)),
    ("C02-R3", "every documented operator spelling denotes its operator (Op::from evaluated on all spellings x letter cases) [shared with C02]", lambda ctx: __import__("c02").r3(ctx)),
    ("X-OPERANDS", "each operand of a comparison is evaluated afresh (no memo shared between operands or conditions: a remembered value comes back as text) [shared]", lambda ctx: __import__("conf").operands_evaluated_afresh(ctx)),
    ("X-REEVAL", "an expression evaluated twice for one entry has the same typed value both times (no text-valued memo beside the map handed in) [shared]", lambda ctx: __import__("gcev").reevaluation_is_stable(ctx)),
    ("X-QUERY", "the WHERE tree stored in the query is the Boolean function parse_where returned (any rewriting pass in between is followed through) [shared]", lambda ctx: __import__("extra2").where_tree_reaches_query(ctx)),
    ("C13-R1", "date columns: the comparison arms on all orderings of (t, a, b) - each operator and its opposite use matching ends of the literal's interval [shared with C13]", lambda ctx: __import__("c13").r1(ctx)),
]

EXPLANATION = (
    "Static structural necessary conditions of C03, decided on the type-checked HIR/MIR of the current tree: "
    "(R1) the negation table Op::negate is an involution and, for ordering operators, the exact complement under the "
    "comparison table extracted from Searcher::conforms, on all three order types; (R2) the prefix-NOT rewriting "
    "dualises And/Or when it descends into both operands (De Morgan); (R3) the NOT BETWEEN desugaring is the "
    "complement of the BETWEEN desugaring on all 13 weak orderings of (x, a, b); (R4) the parser's precedence "
    "layering and bracket pairing; (R5) the And/Or arms of the evaluator on all four truth assignments; (R6, R7) "
    "NOT parity folding and infix NOT. Not a proof of the behavioural statement: entries, attribute presence and "
    "the lexer's keyword context are not modelled."
    ' The NOT descent reaches every present operand (presence-only guards on the recursive calls).')
ASSUMPTIONS = [
    "rustc's HIR/MIR faithfully represent the source; the exporter and rule scripts are correct",
    "comparison arms are pure functions of the operand order type (checked: an arm containing anything but "
    "comparisons fails closed)",
]
NOT_DECIDED = [
    "whether an attribute is present for an entry ('always-present columns')",
    "the lexer's decision that `not` is a keyword only after WHERE, on arbitrary strings",
    "result sets on real trees",
]


def shorthand_by_evaluation(ctx):
    """parse_cond evaluated on a bare boolean column, a bare non-boolean column and a bare value, under the four valuations of
    the phase flags and behind 0..2 prefix NOTs: the boolean column becomes `column = true` exactly inside WHERE (roots parsed,
    WHERE not yet parsed), nothing else is expanded, and a prefix NOT complements the *expanded* comparison (`not is_dir` is
    `is_dir != true`).  -> (scenarios, problems); raises interp.Undecided"""
    import interp
    V = interp.V
    W, NOT = (lambda t: V("Lexem::RawString", [t])), V("Lexem::Not")
    problems, n = [], 0
    for rp in (False, True):
        for wp in (False, True):
            window = rp and not wp
            for word, leaf, boolean in (("is_dir", "col:IsDir", True), ("size", "col:Size", False), ("x", "x", False)):
                for k in (0, 1, 2):
                    expanded = window and boolean
                    if k % 2 and not expanded:
                        continue        # what NOT does to a bare non-boolean leaf is not fixed by the property
                    g, idx = eval_parse_cond(ctx, [NOT] * k + [W(word)], roots_parsed=rp, where_parsed=wp)
                    n += 1
                    want = (("Ne" if k % 2 else "Eq"), leaf, "true") if expanded else leaf
                    if g != want or idx != k + 1:
                        problems.append("`%s%s` with roots_parsed = %s, where_parsed = %s is parsed as %s (cursor %d), expected %s" % ("not " * k, word, rp, wp, g, idx, want))
    return n, problems


def eval_parse_cond(ctx, lex, where_phase=True, roots_parsed=True, where_parsed=None):
    """parse_cond evaluated (finite interpreter) on a lexem list: the operand level parse_add_sub is a stand-in that takes one
    word; Expr::op / logical_op, Op::from_with_not, Op::negate and negate_expr_op are read from the source.
    -> (shape of the condition built | "err", cursor).  Raises interp.Undecided."""
    import interp
    from extra import _expr_dict
    V = interp.V
    fn = "parser::Parser::parse_cond"
    hir = ctx.anchor_hir(fn)
    ps = ctx.prog.fns[fn]["params"]

    def unsome(x):
        return x.args[0] if isinstance(x, V) and x.name == "Option::Some" else (None if x == interp.NONE else x)

    def shape(e):
        e = unsome(e)
        if not isinstance(e, dict):
            return repr(e)
        lo, op = unsome(e.get("logical_op")), unsome(e.get("op"))
        if lo is not None:
            return (lo.name.split("::")[-1], shape(e.get("left")), shape(e.get("right")))
        if op is not None:
            return (op.name.split("::")[-1], shape(e.get("left")), shape(e.get("right")))
        fld = unsome(e.get("field"))
        if fld is not None:
            return "col:" + fld.name.split("::")[-1]
        return unsome(e.get("val"))
    COLS = {"is_dir": "IsDir", "size": "Size"}
    selfv = interp.LazySelf({"lexems": list(lex), "index": 0, "roots_parsed": roots_parsed, "where_parsed": (not where_phase) if where_parsed is None else where_parsed})

    def call(node, recv, args, it, env):
        m_ = node.get("m")
        callee = str(node.get("callee", ""))
        if m_ == "parse_add_sub" or callee.endswith("Parser::parse_add_sub"):
            i = selfv["index"]
            if i < len(selfv["lexems"]) and selfv["lexems"][i].name in ("Lexem::RawString", "Lexem::String"):
                selfv["index"] = i + 1
                w_ = selfv["lexems"][i].args[0]
                if w_ in COLS and selfv["lexems"][i].name == "Lexem::RawString":
                    return (V("Result::Ok", [interp.some(_expr_dict(interp, field=interp.some(V("Field::" + COLS[w_]))))]),)
                return (V("Result::Ok", [interp.some(_expr_dict(interp, val=interp.some(w_)))]),)
            return (V("Result::Err", ["Error parsing expression"]),)
        if m_ in ("clone", "to_owned") and isinstance(recv, (dict, V)):
            import copy
            return (copy.deepcopy(recv),)
        return None
    got = interp.Interp(call=call, prog=ctx.prog, max_steps=60000).run(hir, {ps[0]["id"]: selfv})
    g = shape(got.args[0]) if isinstance(got, V) and got.name == "Result::Ok" else ("err" if isinstance(got, V) and got.name == "Result::Err" else repr(got))
    return g, selfv["index"]


def r9(ctx):
    """prefix and infix NOT compose by parity: parse_cond evaluated (eval_parse_cond) on 0..3 prefix NOTs x an infix NOT or
    none x the operators like, =, gt, BETWEEN: the condition built is the plain one for an even number of NOTs and its
    complement for an odd number"""
    import interp
    V = interp.V
    fn = "parser::Parser::parse_cond"
    W, OP, NOT, AND = (lambda t: V("Lexem::RawString", [t])), (lambda t: V("Lexem::Operator", [t])), V("Lexem::Not"), V("Lexem::And")
    NEG = {"Like": "NotLike", "Eq": "Ne", "Gt": "Lte"}
    BASE = {"like": "Like", "=": "Eq", "gt": "Gt"}
    n = 0
    for k in range(4):
        for infix in (False, True):
            for word in ("like", "=", "gt", "between"):
                lex = [NOT] * k + [W("x")] + ([NOT] if infix else []) + [OP(word), W("a")] + ([AND, W("b")] if word == "between" else [])
                spelled = " ".join(["not"] * k + ["x"] + (["not"] if infix else []) + [word, "a"] + (["and", "b"] if word == "between" else []))
                try:
                    g, idx = eval_parse_cond(ctx, lex)
                except interp.Undecided as e:
                    ctx.obligation(False)
                    ctx.violation("not-composition/unreadable", ctx.where(fn), "cannot evaluate parse_cond on `%s`: %s" % (spelled, e))
                    return
                n += 1
                odd = (k + (1 if infix else 0)) % 2 == 1
                if word == "between":
                    want = ("Or", ("Lt", "x", "a"), ("Gt", "x", "b")) if odd else ("And", ("Gte", "x", "a"), ("Lte", "x", "b"))
                else:
                    want = (NEG[BASE[word]] if odd else BASE[word], "x", "a")
                ok = g == want and idx == len(lex)
                ctx.obligation(ok)
                if not ok:
                    ctx.violation("not-composition/%s" % ("between" if word == "between" else "comparison"), ctx.where(fn),
                                  "`%s` (%d NOT%s in all) is parsed as %s, expected %s: prefix and infix NOT compose by parity, each one complements the condition" %
                                  (spelled, k + (1 if infix else 0), "" if k + infix == 1 else "s", g, want))
    ctx.covered("parse_cond evaluated on 0..3 prefix NOTs x infix NOT x 4 operators (condition = plain or complement by parity)", n, distinct_keys=["like", "=", "gt", "between"], exhaustive=True)
    ctx.floor(n, 32, "NOT compositions of parse_cond", fn)


RULES.append(("C03-R9", "prefix and infix NOT compose by parity (parse_cond evaluated)", r9))
